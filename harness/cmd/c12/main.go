// c12: address issuing, listing, used flags and restore-time discovery on the real wallet.
// Generates histories (new-address requests of both classes through WalletManager.NewAddress and
// through the API's CreateAddress, blocks paying chosen issued addresses, reorgs removing
// payments, restarts, restores from the mnemonic / the exported keystore into a second wallet
// instance on the same node), runs them on the real code and prints them, with the
// implementation's observations, in the line format of internal/hist extended by:
//
//   GAP <gap> <maxUnusedStaking>
//   F <fam> <k>  /  D <fam> <branch> <index> <sh>     key family: script-hash number of every derivable address
//   W <w> <fam>                                        wallet w created (fresh keystore of family fam)
//   NA <w> <cls> <api> <ok:<sh>:<form>|gap|limit|other:...>   new-address request and its outcome
//   L <w> <filter> <n> <cls:sh:used>...               GetAddresses(filter), sorted
//   KS <w> <ext> <int> <n> <sh>...                    keystore content (counts of UseWallet, managed script hashes)
//   BAL <w> <total>                                   gross balance
//   OPEN <w>...                                       wallet instance (re)opened holding wallets w...
//   RX <w> <fam> <m|k> <hintE> <hintI> <ok|err:...>   wallet w restored from family fam (mnemonic / keystore file)
//   ST <w>                                            wallet w's instance stopped for good
package main

import (
	"bufio"
	"bytes"
	"context"
	"encoding/json"
	"flag"
	"fmt"
	"math"
	"os"
	"sort"
	"strconv"
	"strings"
	"time"

	"github.com/massnetorg/mass-core/massutil"
	"google.golang.org/grpc/status"
	"massnet.org/mass-wallet/api"
	pb "massnet.org/mass-wallet/api/proto"
	"massnet.org/mass-wallet/config"
	"massnet.org/mass-wallet/masswallet/keystore"
	"massnet.org/mass-wallet/masswallet/keystore/hdkeychain"
	"verifharness/internal/hist"
	"verifharness/internal/rng"
	"verifharness/internal/sim"

	"github.com/btcsuite/btcd/btcec"
)

const famK = 96 // derivable addresses tabulated per branch

type family struct {
	num      int
	pass     string
	mnemonic string
	sh       [2][][]byte
	keyfile  string // exported keystore (JSON), "" until exported
	kfExt    int    // external counter at export time (informational)
}

type wal struct {
	num    int
	fam    *family
	id     string
	issued []int // external indexes handed out by NewAddress in this wallet, in order
	cls    map[int]int
}

type X struct {
	h      *hist.H
	r      *rng.R
	gap    uint32
	maxUn  uint32
	fams   []*family
	live   []*wal // wallets of the current instance
	nextW  int
	inst   int
	srv    *api.APIServer
	flags  map[string]int
	pend   int // blocks attached but not announced
	ops    []string
}

func maxUnusedFor(gap uint32) uint32 {
	// config.LoadConfig's normalisation of Wallet.Settings.MaxUnusedStakingAddress
	mu := uint32(config.DefaultMaxUnusedStakingAddress)
	if gap <= mu {
		mu = uint32(float32(gap) * 0.2)
	}
	if mu == 0 {
		mu = 1
	}
	return mu
}

func deriveFamily(num int, mnemonic, pass string) (*family, error) {
	f := &family{num: num, pass: pass, mnemonic: mnemonic}
	seed := keystore.NewSeed(mnemonic, pass)
	master, err := hdkeychain.NewMaster(seed, config.ChainParams)
	if err != nil {
		return nil, err
	}
	k := master
	for _, c := range []uint32{44 + hdkeychain.HardenedKeyStart, config.ChainParams.HDCoinType + hdkeychain.HardenedKeyStart, uint32(keystore.WalletUsage) + hdkeychain.HardenedKeyStart} {
		k, err = k.Child(c)
		if err != nil {
			return nil, err
		}
	}
	for br := uint32(0); br < 2; br++ {
		bk, err := k.Child(br)
		if err != nil {
			return nil, err
		}
		for i := uint32(0); i < famK; i++ {
			ck, err := bk.Child(i)
			if err != nil {
				return nil, err
			}
			pub, err := ck.ECPubKey()
			if err != nil {
				return nil, err
			}
			_, addr, err := keystore.NewNonPersistentWitSAddrForBtcec([]*btcec.PublicKey{pub}, 1, massutil.AddressClassWitnessV0, config.ChainParams)
			if err != nil {
				return nil, err
			}
			f.sh[br] = append(f.sh[br], addr.ScriptAddress())
		}
	}
	return f, nil
}

func (x *X) emitFamily(f *family) {
	x.h.AEmit("F %d %d", f.num, famK)
	for br := 0; br < 2; br++ {
		for i, sh := range f.sh[br] {
			x.h.AEmit("D %d %d %d %d", f.num, br, i, x.h.AShID(sh))
		}
	}
}

func (x *X) wallet(num int) *wal {
	for _, w := range x.live {
		if w.num == num {
			return w
		}
	}
	return nil
}

func (x *X) flag(k string) { x.flags[k]++ }

// ---------------------------------------------------------------- operations

func (x *X) opCreate() (*wal, error) {
	wi, err := x.h.NewWallet()
	if err != nil {
		return nil, err
	}
	f, err := deriveFamily(len(x.fams)+1, wi.Mnemo, wi.Pass)
	if err != nil {
		return nil, err
	}
	x.fams = append(x.fams, f)
	x.emitFamily(f)
	x.nextW++
	w := &wal{num: x.nextW, fam: f, id: wi.ID, cls: map[int]int{}}
	x.live = append(x.live, w)
	x.h.AEmit("W %d %d", w.num, f.num)
	return w, nil
}

func errText(err error) string { return strings.ReplaceAll(err.Error(), " ", "_") }

func (x *X) opNew(w *wal, cls int, viaAPI bool) {
	x.ops = append(x.ops, fmt.Sprintf("new %d %d %v", w.num, cls, viaAPI))
	if _, err := x.h.W.WM.UseWallet(w.id); err != nil {
		x.h.AEmit("NA %d %d %d other:use:%s", w.num, cls, b2i(viaAPI), errText(err))
		return
	}
	var a string
	var err error
	res := ""
	if viaAPI {
		var rsp *pb.CreateAddressResponse
		rsp, err = x.srv.CreateAddress(context.Background(), &pb.CreateAddressRequest{Version: int32(cls)})
		if err != nil {
			switch uint32(status.Code(err)) {
			case api.ErrAPIGapLimit:
				res = "gap"
			case api.ErrAPIUnusedAddressLimit:
				res = "limit"
			default:
				res = "other:" + errText(err)
			}
		} else {
			a = rsp.Address
		}
		x.flag("api")
	} else {
		a, err = x.h.W.WM.NewAddress(uint16(cls))
		if err != nil {
			if err == keystore.ErrGapLimit {
				res = "gap"
			} else {
				res = "other:" + errText(err)
			}
		}
	}
	if res == "" {
		addr, derr := massutil.DecodeAddress(a, config.ChainParams)
		if derr != nil {
			res = "other:undecodable:" + a
		} else {
			form := 0
			if massutil.IsWitnessStakingAddress(addr) {
				form = 1
			}
			sh := addr.ScriptAddress()
			res = fmt.Sprintf("ok:%d:%d", x.h.AShID(sh), form)
			for i, s := range w.fam.sh[0] {
				if bytes.Equal(s, sh) {
					w.issued = append(w.issued, i)
					w.cls[i] = cls
				}
			}
			x.flag("issued")
		}
	} else {
		x.flag("refused_" + strings.SplitN(res, ":", 2)[0])
	}
	x.h.AEmit("NA %d %d %d %s", w.num, cls, b2i(viaAPI), res)
}

func jsonUnmarshal(s string, v interface{}) { _ = json.Unmarshal([]byte(s), v) }

func b2i(b bool) int {
	if b {
		return 1
	}
	return 0
}

type target struct {
	fam    *family
	branch int
	index  int
	kind   string // std | stk | bnd | str (stranger)
}

func (x *X) script(t target) []byte {
	if t.kind == "str" {
		return x.h.StrangerScript()
	}
	sh := t.fam.sh[t.branch][t.index]
	switch t.kind {
	case "stk":
		return hist.ScriptStakingOf(sh, uint64(2+x.r.Intn(4)))
	case "bnd":
		return hist.ScriptBindingOf(sh, x.r.Bytes(20))
	}
	return hist.ScriptStdOf(sh)
}

// opBlock attaches a block paying the targets (coinbase or, when viaTx, a transaction) and,
// unless quiet, lets the wallet process it (and every block attached quietly before).
func (x *X) opBlock(ts []target, viaTx, quiet bool) error {
	var outs []sim.Out
	var desc []string
	for _, t := range ts {
		outs = append(outs, sim.Out{Script: x.script(t), Value: int64(1+x.r.Intn(40)) * 1000000})
		if t.kind == "str" {
			desc = append(desc, "str")
		} else {
			b := ""
			if t.branch == 1 {
				b = "i"
			}
			desc = append(desc, fmt.Sprintf("%d:%s%d:%s", t.fam.num, b, t.index, t.kind))
		}
	}
	x.ops = append(x.ops, fmt.Sprintf("block [%s] tx=%v quiet=%v", strings.Join(desc, ","), viaTx, quiet))
	var b *massutil.Block
	if viaTx {
		b = x.h.PayBlock(nil, outs)
	} else {
		b = x.h.PayBlock(outs, nil)
	}
	if err := x.h.Attach(b); err != nil {
		return err
	}
	x.flag("blocks")
	if quiet {
		x.pend++
		return nil
	}
	x.h.Process(b)
	x.pend = 0
	return nil
}

func (x *X) opDetach(d int) error {
	x.ops = append(x.ops, fmt.Sprintf("detach %d", d))
	for i := 0; i < d && x.h.N.Height() > 0; i++ {
		if _, err := x.h.Detach(); err != nil {
			return err
		}
	}
	x.flag("reorgs")
	return nil
}

// settle makes sure the wallet has processed the node's tip.
func (x *X) settle() {
	if x.h.Stale && x.h.N.Height() > 0 {
		x.h.Process(x.h.N.Tip())
	}
	x.pend = 0
}

func (x *X) opObserve(w *wal) {
	info, err := x.h.W.WM.UseWallet(w.id)
	if err != nil {
		x.h.AEmit("KS %d error:%s", w.num, errText(err))
		return
	}
	_, _, _, ksmgr, _ := x.h.W.WM.VerifStores()
	am, err := ksmgr.GetAddrManagerByAccountID(w.id)
	if err != nil {
		x.h.AEmit("KS %d error:%s", w.num, errText(err))
		return
	}
	var ids []int
	for _, ma := range am.ManagedAddresses() {
		ids = append(ids, x.h.AShID(ma.ScriptAddress()))
	}
	sort.Ints(ids)
	var sb strings.Builder
	for _, id := range ids {
		fmt.Fprintf(&sb, " %d", id)
	}
	x.h.AEmit("KS %d %d %d %d%s", w.num, info.ExternalKeyCount, info.InternalKeyCount, len(ids), sb.String())
	x.h.AEmit("BAL %d %d", w.num, info.TotalBalance.IntValue())
	for _, filter := range []uint16{0, 1, math.MaxUint16} {
		l, err := x.h.W.WM.GetAddresses(filter)
		if err != nil {
			x.h.AEmit("L %d %d error:%s", w.num, filter, errText(err))
			continue
		}
		type ent struct {
			cls, sh, used int
		}
		var es []ent
		for _, ad := range l {
			a, err := massutil.DecodeAddress(ad.Address, config.ChainParams)
			sh := 0
			if err == nil {
				sh = x.h.AShID(a.ScriptAddress())
				// the class reported must be the class of the address string
				if (ad.AddressClass == massutil.AddressClassWitnessStaking) != massutil.IsWitnessStakingAddress(a) {
					sh = -sh
				}
				if ad.AddressClass == massutil.AddressClassWitnessStaking {
					sa, err2 := massutil.DecodeAddress(ad.StdAddress, config.ChainParams)
					if err2 != nil || !bytes.Equal(sa.ScriptAddress(), a.ScriptAddress()) {
						sh = -sh
					}
				}
			}
			es = append(es, ent{int(ad.AddressClass), sh, b2i(ad.Used)})
		}
		sort.Slice(es, func(i, j int) bool {
			if es[i].cls != es[j].cls {
				return es[i].cls < es[j].cls
			}
			return es[i].sh < es[j].sh
		})
		var lb strings.Builder
		for _, e := range es {
			fmt.Fprintf(&lb, " %d:%d:%d", e.cls, e.sh, e.used)
		}
		x.h.AEmit("L %d %d %d%s", w.num, filter, len(es), lb.String())
	}
	x.flag("observations")
}

func (x *X) observeAll() {
	for _, w := range x.live {
		x.opObserve(w)
	}
}

func (x *X) configure() {
	x.h.W.Cfg.Wallet.Settings.AddressGapLimit = x.gap
	x.h.W.Cfg.Wallet.Settings.MaxUnusedStakingAddress = x.maxUn
	srv, err := api.NewAPIServer(nil, x.h.W.WM, func() {}, x.h.W.Cfg)
	if err != nil {
		panic(err)
	}
	x.srv = srv
}

func (x *X) openLine() {
	var sb strings.Builder
	for _, w := range x.live {
		fmt.Fprintf(&sb, " %d", w.num)
	}
	x.h.AEmit("OPEN%s", sb.String())
}

func (x *X) opRestart() error {
	x.ops = append(x.ops, "restart")
	x.settle()
	dir := x.h.W.Dir
	x.h.W.Stop()
	sim.Cur.GapLimit = x.gap
	w, err := sim.OpenWallet(x.h.N, dir, nil, true)
	if err != nil {
		x.h.W = nil
		return fmt.Errorf("reopen: %v", err)
	}
	x.h.W = w
	x.configure()
	x.openLine()
	x.flag("restarts")
	return nil
}

// opInstance stops the current wallet instance for good and opens a fresh one (own directory,
// own database) on the same node.
func (x *X) opInstance() error {
	x.settle()
	for _, w := range x.live {
		x.h.AEmit("ST %d", w.num)
	}
	x.h.W.Stop()
	x.live = nil
	x.inst++
	dir := fmt.Sprintf("%s/inst%d", x.h.Dir, x.inst)
	if err := os.MkdirAll(dir, 0700); err != nil {
		return err
	}
	sim.Cur.GapLimit = x.gap
	w, err := sim.OpenWallet(x.h.N, dir, nil, true)
	if err != nil {
		x.h.W = nil
		return fmt.Errorf("open instance: %v", err)
	}
	x.h.W = w
	x.configure()
	x.openLine()
	return nil
}

func (x *X) opExport(w *wal) {
	x.ops = append(x.ops, fmt.Sprintf("export %d", w.num))
	js, err := x.h.W.WM.ExportWallet(w.id, w.fam.pass)
	if err == nil {
		w.fam.keyfile = js
	}
}

// opRestore imports family f into the current instance (mode m: mnemonic with hints; k: keystore file).
func (x *X) opRestore(f *family, mode string, hintE, hintI uint32) (*wal, error) {
	x.ops = append(x.ops, fmt.Sprintf("restore %d %s %d %d", f.num, mode, hintE, hintI))
	x.settle()
	x.nextW++
	w := &wal{num: x.nextW, fam: f, cls: map[int]int{}}
	var id string
	var err error
	if mode == "k" {
		var kst struct {
			HDpath struct{ ExternalChildNum, InternalChildNum uint32 } `json:"hdPath"`
		}
		jsonUnmarshal(f.keyfile, &kst)
		hintE, hintI = kst.HDpath.ExternalChildNum, kst.HDpath.InternalChildNum
		s, e := x.h.W.WM.ImportWallet(f.keyfile, f.pass)
		err = e
		if e == nil {
			id = s.WalletID
		}
	} else {
		s, e := x.h.W.WM.ImportWalletWithMnemonic(&keystore.WalletParams{
			Version: keystore.KeystoreVersionLatest, Mnemonic: f.mnemonic, PrivatePassphrase: []byte(f.pass),
			ExternalIndex: hintE, InternalIndex: hintI, AddressGapLimit: x.gap, Remarks: "restored"})
		err = e
		if e == nil {
			id = s.WalletID
		}
	}
	if err != nil {
		x.h.AEmit("RX %d %d %s %d %d err:%s", w.num, f.num, mode, hintE, hintI, errText(err))
		return nil, nil
	}
	if !x.h.W.WaitTasks(20 * time.Second) {
		return nil, fmt.Errorf("import task did not finish")
	}
	w.id = id
	x.live = append(x.live, w)
	x.h.AEmit("RX %d %d %s %d %d ok", w.num, f.num, mode, hintE, hintI)
	x.flag("restores")
	if hintI > 0 {
		x.flag("restores_with_internal_hint")
	}
	return w, nil
}

// ---------------------------------------------------------------- generator

func (x *X) pickTarget(allowCross bool) target {
	// an issued address of a live wallet, biased to the most recent ones (they decide the gap rule)
	var cands []*wal
	for _, w := range x.live {
		if len(w.issued) > 0 {
			cands = append(cands, w)
		}
	}
	if len(cands) == 0 || x.r.Chance(8) {
		return target{kind: "str"}
	}
	w := cands[x.r.Intn(len(cands))]
	var idx int
	if x.r.Chance(60) {
		k := int(x.gap)
		if k > len(w.issued) {
			k = len(w.issued)
		}
		idx = w.issued[len(w.issued)-1-x.r.Intn(k)]
	} else {
		idx = w.issued[x.r.Intn(len(w.issued))]
	}
	kind := "std"
	if w.cls[idx] == 1 {
		kind = "stk"
	} else if x.r.Chance(12) {
		kind = "bnd"
	}
	if allowCross && x.r.Chance(30) {
		// a payment to the other class' form of the same key (an address string never handed out)
		if kind == "stk" {
			kind = "std"
		} else {
			kind = "stk"
		}
		x.flag("cross_class_payments")
	}
	return target{fam: w.fam, index: idx, kind: kind}
}

func (x *X) randomBlock(allowCross bool, quiet bool) error {
	n := 0
	switch k := x.r.Intn(100); {
	case k < 15:
		n = 0
	case k < 75:
		n = 1
	case k < 92:
		n = 2
	default:
		n = 3
	}
	var ts []target
	for i := 0; i < n; i++ {
		ts = append(ts, x.pickTarget(allowCross))
	}
	return x.opBlock(ts, x.r.Chance(30), quiet)
}

func (x *X) phase(steps int, allowCross bool) error {
	for s := 0; s < steps; s++ {
		if len(x.live) == 0 {
			return nil
		}
		w := x.live[x.r.Intn(len(x.live))]
		switch k := x.r.Intn(100); {
		case k < 42:
			cls := 0
			if x.r.Chance(30) {
				cls = 1
			}
			x.settle()
			x.opNew(w, cls, x.r.Chance(25))
		case k < 72:
			if err := x.randomBlock(allowCross, x.r.Chance(12)); err != nil {
				return err
			}
		case k < 86:
			if x.h.N.Height() < 1 {
				continue
			}
			d := 1 + x.r.Intn(3)
			if uint64(d) > x.h.N.Height() {
				d = int(x.h.N.Height())
			}
			if err := x.opDetach(d); err != nil {
				return err
			}
			nnew := d + x.r.Intn(2)
			tipOnly := x.r.Chance(35)
			for i := 0; i < nnew; i++ {
				if err := x.randomBlock(allowCross, tipOnly && i < nnew-1); err != nil {
					return err
				}
			}
		case k < 92:
			if err := x.opRestart(); err != nil {
				return err
			}
			x.observeAll()
		case k < 95:
			x.settle()
			x.opExport(w)
		default:
			x.settle()
			x.observeAll()
		}
	}
	x.settle()
	x.observeAll()
	return nil
}

func pickGap(r *rng.R) uint32 {
	switch k := r.Intn(100); {
	case k < 30:
		return 2
	case k < 60:
		return 3
	case k < 85:
		return 5
	}
	return 20
}

func runOne(seed uint64, n int, scriptText string) ([]byte, map[string]int, error) {
	var buf bytes.Buffer
	out := bufio.NewWriter(&buf)
	r := rng.New(seed*1000003 + uint64(n) + 0xC12)
	gap := pickGap(r)
	var ops []string
	if scriptText != "" {
		ops = strings.Split(scriptText, ";")
		if strings.HasPrefix(ops[0], "gap=") {
			g, _ := strconv.Atoi(ops[0][4:])
			gap = uint32(g)
			ops = ops[1:]
		}
	}
	sim.Cur.GapLimit = gap
	h, err := hist.New(r, out, n, hist.Options{}, nil)
	if err != nil {
		return nil, nil, err
	}
	defer func() {
		if h.W == nil {
			h.N.Close()
			os.RemoveAll(h.Dir)
		} else {
			h.Close()
		}
	}()
	x := &X{h: h, r: r, gap: gap, maxUn: maxUnusedFor(gap), flags: map[string]int{}}
	x.configure()
	h.AEmit("GAP %d %d", gap, x.maxUn)
	x.flags[fmt.Sprintf("gap%d", gap)]++
	if scriptText != "" {
		err = x.runScript(ops)
	} else {
		err = x.generate()
	}
	if err != nil {
		return nil, nil, err
	}
	h.End()
	out.Flush()
	if os.Getenv("VERIF_SHOW") != "" {
		fmt.Fprintf(os.Stderr, "history %d gap=%d: %s\n", n, gap, strings.Join(x.ops, "; "))
	}
	return buf.Bytes(), x.flags, nil
}

func (x *X) generate() error {
	r := x.r
	nW := 1
	if r.Chance(20) {
		nW = 2
	}
	for i := 0; i < nW; i++ {
		if _, err := x.opCreate(); err != nil {
			return err
		}
	}
	allowCross := r.Chance(20)
	d3 := r.Chance(12)
	if d3 {
		x.flag("d3_histories")
	}
	if err := x.phase(10+r.Intn(30), allowCross); err != nil {
		return err
	}
	fams := x.fams
	if d3 {
		// somebody pays internal-branch addresses of the family (the first wallet cannot know them)
		for i, n := 0, 1+r.Intn(3); i < n; i++ {
			f := fams[r.Intn(len(fams))]
			if err := x.opBlock([]target{{fam: f, branch: 1, index: r.Intn(6), kind: "std"}}, false, false); err != nil {
				return err
			}
		}
	}
	orig := append([]*wal{}, x.live...)
	for k, nr := 0, 1+r.Intn(3); k < nr; k++ {
		if err := x.opInstance(); err != nil {
			return err
		}
		src := orig[r.Intn(len(orig))]
		f := src.fam
		n := uint32(len(src.issued))
		mode := "m"
		var hintE, hintI uint32
		if f.keyfile != "" && r.Chance(20) {
			mode = "k"
		} else {
			switch c := r.Intn(100); {
			case c < 30:
				hintE = 0
			case c < 45:
				hintE = 1
			case c < 60:
				hintE = n
			case c < 70:
				hintE = n / 2
			default:
				hintE = uint32(r.Intn(int(n) + 4))
			}
			if d3 {
				hintI = uint32(1 + r.Intn(6))
			}
		}
		w, err := x.opRestore(f, mode, hintE, hintI)
		if err != nil {
			return err
		}
		if w == nil {
			continue
		}
		x.observeAll()
		if d3 || (mode == "k" && r.Chance(50)) {
			// make the in-memory index map deterministic (it is rebuilt from the database in key order)
			if err := x.opRestart(); err != nil {
				return err
			}
			x.observeAll()
		}
		if r.Chance(60) {
			if err := x.phase(3+r.Intn(10), allowCross); err != nil {
				return err
			}
		}
	}
	return nil
}

// ---------------------------------------------------------------- scripted histories (witness replay)

func (x *X) runScript(ops []string) error {
	famOf := func(s string) *family {
		n, _ := strconv.Atoi(s)
		if n < 1 || n > len(x.fams) {
			return nil
		}
		return x.fams[n-1]
	}
	for _, op := range ops {
		f := strings.Fields(strings.TrimSpace(op))
		if len(f) == 0 {
			continue
		}
		switch f[0] {
		case "create":
			if _, err := x.opCreate(); err != nil {
				return err
			}
		case "new": // new <w> <cls> [api]
			n, _ := strconv.Atoi(f[1])
			cls, _ := strconv.Atoi(f[2])
			w := x.wallet(n)
			if w == nil {
				return fmt.Errorf("script: wallet %d is not live", n)
			}
			x.settle()
			x.opNew(w, cls, len(f) > 3 && f[3] == "api")
		case "pay", "payq", "paytx": // pay <fam>:<[i]idx>:<kind>,...
			var ts []target
			if len(f) > 1 {
				for _, p := range strings.Split(f[1], ",") {
					q := strings.Split(p, ":")
					if q[0] == "str" {
						ts = append(ts, target{kind: "str"})
						continue
					}
					t := target{fam: famOf(q[0]), kind: q[2]}
					if t.fam == nil {
						return fmt.Errorf("script: no family %s", q[0])
					}
					if strings.HasPrefix(q[1], "i") {
						t.branch = 1
						q[1] = q[1][1:]
					}
					t.index, _ = strconv.Atoi(q[1])
					ts = append(ts, t)
				}
			}
			if err := x.opBlock(ts, f[0] == "paytx", f[0] == "payq"); err != nil {
				return err
			}
		case "empty":
			if err := x.opBlock(nil, false, false); err != nil {
				return err
			}
		case "detach":
			d, _ := strconv.Atoi(f[1])
			if err := x.opDetach(d); err != nil {
				return err
			}
		case "restart":
			if err := x.opRestart(); err != nil {
				return err
			}
		case "observe":
			x.settle()
			x.observeAll()
		case "export":
			n, _ := strconv.Atoi(f[1])
			x.settle()
			x.opExport(x.wallet(n))
		case "instance":
			if err := x.opInstance(); err != nil {
				return err
			}
		case "restore": // restore <fam> <m|k> <hintE> <hintI>
			fm := famOf(f[1])
			if fm == nil {
				return fmt.Errorf("script: no family %s", f[1])
			}
			he, _ := strconv.Atoi(f[3])
			hi, _ := strconv.Atoi(f[4])
			if _, err := x.opRestore(fm, f[2], uint32(he), uint32(hi)); err != nil {
				return err
			}
		default:
			return fmt.Errorf("script: unknown op %q", op)
		}
	}
	x.settle()
	x.observeAll()
	return nil
}

func main() {
	count := flag.Int("n", 100, "number of histories")
	outPath := flag.String("out", "", "output file")
	workers := flag.Int("j", 12, "parallel worker processes")
	first := flag.Int("first", 0, "index of the first history (replay: -first k -n 1)")
	worker := flag.Bool("worker", false, "internal: run sequentially and print to stdout")
	script := flag.String("script", "", "run this scripted history instead of generated ones (ops separated by ';')")
	flag.Parse()
	if !*worker && *script == "" {
		// every history opens several wallet instances whose memory the process keeps: bound the
		// number of histories per worker process by running the workers in rounds
		const perProc = 8
		var out *os.File
		if *outPath != "" {
			f, err := os.Create(*outPath)
			if err != nil {
				fmt.Fprintln(os.Stderr, err)
				os.Exit(2)
			}
			defer f.Close()
			out = f
		}
		for off := 0; off < *count; off += perProc * *workers {
			n := perProc * *workers
			if off+n > *count {
				n = *count - off
			}
			tmp := ""
			if out != nil {
				tmp = fmt.Sprintf("%s.part", *outPath)
			}
			if err := hist.ParallelSelf(n, *first+off, *workers, tmp, os.Args[1:]); err != nil {
				fmt.Fprintln(os.Stderr, err)
				os.Exit(2)
			}
			if out != nil {
				b, err := os.ReadFile(tmp)
				if err != nil {
					fmt.Fprintln(os.Stderr, err)
					os.Exit(2)
				}
				out.Write(b)
				os.Remove(tmp)
			}
		}
		return
	}
	sim.Init(sim.Params{CoinbaseMaturity: 4, MinFrozenPeriod: 2, GapLimit: 20})
	seed := rng.Seed()
	w := bufio.NewWriter(os.Stdout)
	if *outPath != "" && *script != "" {
		f, err := os.Create(*outPath)
		if err != nil {
			fmt.Fprintln(os.Stderr, err)
			os.Exit(2)
		}
		defer f.Close()
		w = bufio.NewWriter(f)
	}
	total := map[string]int{}
	nh := *count
	if *script != "" {
		nh = 1
	}
	for i := 0; i < nh; i++ {
		res, flags, err := runOne(seed, *first+i, *script)
		if err != nil {
			fmt.Fprintf(w, "X %d harness-error %s\n", *first+i, errText(err))
			continue
		}
		w.Write(res)
		total["histories"]++
		for k, v := range flags {
			total[k] += v
		}
	}
	w.Flush()
	var keys []string
	for k := range total {
		keys = append(keys, k)
	}
	sort.Strings(keys)
	var sb strings.Builder
	for _, k := range keys {
		fmt.Fprintf(&sb, " %s=%d", k, total[k])
	}
	fmt.Fprintf(os.Stderr, "STATS%s\n", sb.String())
}
