// c15: runs api.StringToAmount, api.AmountToString, masswallet.AmountToString on
// generated inputs and prints one observation per line:
//   P <hex string>  -> ok <value> | err
//   F <int64>       -> ok <hex string> | err      (api formatter)
//   G <int64>       -> ok <hex string> | err      (masswallet formatter)
//   D <v1,v2,...>   -> ok <hex>,<hex>,... | err   (the API layer: DecodeRawTransaction of a transaction whose outputs carry
//                                                  these values; every output's "value" field, or the refusal of the call)
package main

import (
	"bufio"
	"context"
	"encoding/hex"
	"flag"
	"fmt"
	"math"
	"math/big"
	"os"
	"strings"

	"github.com/massnetorg/mass-core/consensus"
	"github.com/massnetorg/mass-core/wire"
	pb "massnet.org/mass-wallet/api/proto"
	"massnet.org/mass-wallet/api"
	"massnet.org/mass-wallet/masswallet"
	"verifharness/internal/rng"
)

var out *bufio.Writer
var dist = map[string]int{}

func parse(s string) {
	r := "err"
	func() {
		defer func() {
			if e := recover(); e != nil {
				r = "panic"
			}
		}()
		v, err := api.StringToAmount(s)
		if err == nil {
			r = fmt.Sprintf("ok %d", v.UintValue())
		}
	}()
	fmt.Fprintf(out, "P\t%s\t%s\n", hex.EncodeToString([]byte(s)), r)
}

func format(m int64) {
	for _, k := range []string{"F", "G"} {
		r := "err"
		func() {
			defer func() {
				if e := recover(); e != nil {
					r = "panic"
				}
			}()
			var s string
			var err error
			if k == "F" {
				s, err = api.AmountToString(m)
			} else {
				s, err = masswallet.AmountToString(m)
			}
			if err == nil {
				r = "ok " + hex.EncodeToString([]byte(s))
			}
		}()
		fmt.Fprintf(out, "%s\t%d\t%s\n", k, m, r)
	}
}

// decode runs the API's DecodeRawTransaction on a transaction with one standard output per value. The call needs no
// wallet and no chain: it deserialises the hex and formats every output.
func decode(vals []int64) {
	r := "err"
	func() {
		defer func() {
			if e := recover(); e != nil {
				r = "panic"
			}
		}()
		tx := wire.NewMsgTx()
		tx.AddTxIn(wire.NewTxIn(&wire.OutPoint{Index: 1}, nil))
		pk := append([]byte{0, 32}, make([]byte, 32)...)
		for i, v := range vals {
			sc := append([]byte(nil), pk...)
			sc[2] = byte(i + 1)
			tx.AddTxOut(wire.NewTxOut(v, sc))
		}
		raw, err := tx.Bytes(wire.Packet)
		if err != nil {
			r = "harness:" + err.Error()
			return
		}
		resp, err := (&api.APIServer{}).DecodeRawTransaction(context.Background(), &pb.DecodeRawTransactionRequest{Hex: hex.EncodeToString(raw)})
		if err != nil {
			return
		}
		if len(resp.Vout) != len(vals) {
			r = fmt.Sprintf("outputs:%d", len(resp.Vout))
			return
		}
		parts := make([]string, len(vals))
		for i, o := range resp.Vout {
			parts[i] = hex.EncodeToString([]byte(o.Value))
		}
		r = "ok " + strings.Join(parts, ",")
	}()
	ss := make([]string, len(vals))
	for i, v := range vals {
		ss[i] = fmt.Sprint(v)
	}
	fmt.Fprintf(out, "D\t%s\t%s\n", strings.Join(ss, ","), r)
}

func enumStrings(alpha string, maxLen int, f func(string)) {
	var rec func(prefix []byte, l int)
	rec = func(prefix []byte, l int) {
		f(string(prefix))
		if l == maxLen {
			return
		}
		for i := 0; i < len(alpha); i++ {
			rec(append(prefix, alpha[i]), l+1)
		}
	}
	rec(nil, 0)
}

func main() {
	tier := flag.String("tier", "quick", "quick|thorough")
	outPath := flag.String("out", "", "output file")
	replay := flag.String("replay", "", "replay a single case: P:<hex> or F:<int>")
	flag.Parse()
	f := os.Stdout
	if *outPath != "" {
		var err error
		f, err = os.Create(*outPath)
		if err != nil {
			panic(err)
		}
		defer f.Close()
	}
	out = bufio.NewWriterSize(f, 1<<20)
	defer out.Flush()

	if *replay != "" {
		if strings.HasPrefix(*replay, "P:") {
			b, _ := hex.DecodeString((*replay)[2:])
			parse(string(b))
		} else if strings.HasPrefix(*replay, "D:") {
			var vals []int64
			for _, x := range strings.Split((*replay)[2:], ",") {
				var m int64
				fmt.Sscanf(x, "%d", &m)
				vals = append(vals, m)
			}
			decode(vals)
		} else {
			var m int64
			fmt.Sscanf((*replay)[2:], "%d", &m)
			format(m)
		}
		return
	}

	r := rng.FromEnv(15)
	maxAmt := int64(consensus.MaxMass * consensus.MaxwellPerMass)
	per := int64(consensus.MaxwellPerMass)

	// --- corpus: cases that once disagreed or sit on a boundary (run first)
	for _, s := range []string{"", ".", "0", "1", "+1", "-0", "1.+5", "1.-0", "1.-5", "-1.", "1.100.", ".5", "1.",
		"1e3", "1_000", " 1", "1 ", "0x10", "1,5", "1.000000001", "1.0000000010", "1.123456780000000",
		"206438400", "206438400.00000001", "206438401", "00000000000000000000000000001.5",
		"9223372036854775807", "9223372036854775808", "99999999999999999999999999", "1.+", "1.-", "+", "-", "+.5", "-.5",
		"1.0000000+", "1.+0000000", "1.+00000001", "٣", "１"} {
		parse(s)
	}
	for _, m := range []int64{0, 1, 9, 10, per - 1, per, per + 1, 10 * per, 123456789012, maxAmt - 1, maxAmt, maxAmt + 1,
		-1, math.MinInt64, math.MaxInt64, 100000000000, 1000000010, 99999999, 100000001,
		// out of range on the negative side, incl. whole-MASS multiples (a "round number" fast path must not skip the range test)
		-per, -10 * per, -1024 * per, -maxAmt, -maxAmt - per, -per + 1, -per - 1, -(maxAmt + 1), 2 * maxAmt, maxAmt + per, math.MinInt64 + 1, math.MinInt64 / per * per} {
		format(m)
	}

	// --- exhaustive short strings
	exLen := 4
	if *tier == "thorough" {
		exLen = 6
	}
	enumStrings("019.+-e_ ", exLen, parse)

	// --- random structured strings (mostly valid numerals) and a malformed stream
	n := 20000
	if *tier == "thorough" {
		n = 400000
	}
	digits := "0123456789"
	for i := 0; i < n; i++ {
		var sb strings.Builder
		switch k := r.Intn(10); {
		case k < 5: // valid numeral, varied widths
			for j, li := 0, r.Intn(11); j < li; j++ {
				sb.WriteByte(r.Pick(digits))
			}
			if r.Chance(70) {
				sb.WriteByte('.')
				for j, lf := 0, r.Intn(11); j < lf; j++ {
					sb.WriteByte(r.Pick(digits))
				}
				if r.Chance(30) {
					sb.WriteString(strings.Repeat("0", r.Intn(5)))
				}
			}
			dist["numeral"]++
		case k < 7: // near the supply limit
			v := int64(consensus.MaxMass) - 2 + int64(r.Intn(5))
			fmt.Fprintf(&sb, "%d", v)
			if r.Bool() {
				fmt.Fprintf(&sb, ".%08d", r.Intn(3))
			}
			dist["limit"]++
		case k < 9: // a numeral with one foreign character spliced in
			base := fmt.Sprintf("%d.%d", r.Intn(100000), r.Intn(100000))
			pos := r.Intn(len(base) + 1)
			sb.WriteString(base[:pos])
			sb.WriteByte(r.Pick("+-e_ ,xE.\t"))
			sb.WriteString(base[pos:])
			dist["spliced"]++
		default: // arbitrary bytes
			sb.Write(r.Bytes(r.Intn(12)))
			dist["bytes"]++
		}
		parse(sb.String())
	}
	// --- overflow stream: long integral parts, and integral parts n for which n*10^8 wraps around
	// 2^63 / 2^64 / 2^32 into a small value (fixed-width arithmetic must not turn them into amounts)
	for i := 0; i < n/4; i++ {
		var sb strings.Builder
		sb.WriteByte(r.Pick("123456789"))
		for j, l := 0, 10+r.Intn(16); j < l; j++ {
			sb.WriteByte(r.Pick(digits))
		}
		if r.Bool() {
			fmt.Fprintf(&sb, ".%d", r.Intn(100000000))
		}
		dist["longint"]++
		parse(sb.String())
	}
	for _, bits := range []uint{32, 63, 64} {
		mod := new(big.Int).Lsh(big.NewInt(1), bits)
		for k := int64(1); k <= 60; k++ {
			base := new(big.Int).Mul(mod, big.NewInt(k))
			base.Div(base, big.NewInt(per))
			for d := int64(-1); d <= 2; d++ {
				v := new(big.Int).Add(base, big.NewInt(d))
				for _, frac := range []string{"", ".5", ".99999999", ".00000001"} {
					dist["wrap"]++
					parse(v.String() + frac)
				}
			}
		}
	}
	// --- integral parts that are THEMSELVES k*2^w + r with a small r (a hand-written digit loop without an overflow test
	// turns them into the amount r: seed C15f), with leading zeros and fractions
	for _, bits := range []uint{32, 63, 64, 65, 128} {
		mod := new(big.Int).Lsh(big.NewInt(1), bits)
		for k := int64(1); k <= 9; k++ {
			for _, rr := range []int64{0, 1, 2, 5, 2048, int64(consensus.MaxMass) - 1, int64(consensus.MaxMass), int64(consensus.MaxMass) + 1} {
				v := new(big.Int).Mul(mod, big.NewInt(k))
				v.Add(v, big.NewInt(rr))
				for _, frac := range []string{"", ".5", ".00000001", "."} {
					dist["wrapint"]++
					parse(v.String() + frac)
				}
				parse("000" + v.String())
			}
		}
	}
	// --- random amounts
	for i := 0; i < n; i++ {
		var m int64
		switch k := r.Intn(10); {
		case k < 4:
			m = int64(r.U64() % uint64(maxAmt+1))
		case k < 6:
			m = int64(r.Intn(1000)) * per / int64(1+r.Intn(1000))
		case k < 8:
			m = int64(r.Intn(100000)) * []int64{1, 10, 100, 1000, 10000, 100000, 1000000, 10000000, 100000000}[r.Intn(9)]
		case k < 9:
			m = maxAmt - 5 + int64(r.Intn(11))
		default:
			m = int64(r.U64())
		}
		if i%16 == 3 {
			// negative and beyond-the-supply amounts, whole-MASS multiples among them: must be refused, not formatted
			m = -m
			if i%32 == 3 {
				m = m / per * per
			}
		} else if i%16 == 7 {
			m = (maxAmt/per + 1 + int64(r.Intn(1000))) * per
		}
		format(m)
	}
	// --- the API layer: the amounts of every output of a decoded transaction (the range test is per output: a total kept
	// beside it must not replace it, and an out-of-range value must refuse the call wherever it stands — seed C15e)
	bound := []int64{0, 1, per, maxAmt - 1, maxAmt, maxAmt + 1, -1, -5, -per, -maxAmt, math.MinInt64, math.MaxInt64, 2 * maxAmt, 10, 99999999}
	for _, a := range bound {
		decode([]int64{a})
		for _, b := range bound {
			decode([]int64{a, b})
		}
	}
	for _, t := range [][]int64{{maxAmt, -1, 1}, {10, -5}, {maxAmt, 1}, {maxAmt, maxAmt}, {1, 2, -3}, {per, -per, per}, {maxAmt, 1, -1}, {5, math.MinInt64, math.MaxInt64}} {
		decode(t)
	}
	for i := 0; i < n/10; i++ {
		k := 1 + r.Intn(4)
		vals := make([]int64, k)
		for j := range vals {
			switch q := r.Intn(10); {
			case q < 5:
				vals[j] = int64(r.U64() % uint64(maxAmt+1))
			case q < 7:
				vals[j] = bound[r.Intn(len(bound))]
			case q < 8:
				vals[j] = -int64(r.U64() % uint64(maxAmt+1))
			case q < 9:
				vals[j] = int64(r.Intn(1000)) * per
			default:
				vals[j] = int64(r.U64())
			}
		}
		dist["decode"]++
		decode(vals)
	}
	fmt.Fprintf(os.Stderr, "dist %v\n", dist)
}
