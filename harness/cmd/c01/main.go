// c01: generates chain/wallet histories, runs them on the real wallet and prints them with the
// implementation's observations (format: internal/hist). Used by the C01 check.
package main

import (
	"bufio"
	"bytes"
	"flag"
	"fmt"
	"os"
	"sync"

	"github.com/massnetorg/mass-core/massutil"
	"github.com/massnetorg/mass-core/wire"
	"verifharness/internal/hist"
	"verifharness/internal/rng"
	"verifharness/internal/sim"
)

type stats struct {
	sync.Mutex
	hist, blocks, reorgs, maxDepth, queries, stale, txs, multiConnect int
}

var st stats

func runOne(seed uint64, n int, opt hist.Options) ([]byte, error) {
	var buf bytes.Buffer
	out := bufio.NewWriter(&buf)
	r := rng.New(rng.New(seed*1000003+uint64(n)).U64() ^ (uint64(n) * 0x9E3779B97F4A7C15))
	h, err := hist.New(r, out, n, opt, nil)
	if err != nil {
		return nil, err
	}
	defer h.Close()
	nW := 1 + r.Intn(3)
	for i := 0; i < nW; i++ {
		wi, err := h.NewWallet()
		if err != nil {
			return nil, err
		}
		for j, na := 0, 1+r.Intn(3); j < na; j++ {
			cls := uint16(0)
			if opt.Games && r.Chance(30) {
				cls = 1
			}
			if _, err := h.NewAddress(wi, cls); err != nil {
				return nil, err
			}
		}
	}
	var queue []*massutil.Block // announcements not yet processed (lag mode)
	announce := func(b *massutil.Block) {
		if opt.Lag && r.Chance(50) {
			queue = append(queue, b)
			return
		}
		for _, q := range queue {
			h.Process(q)
		}
		queue = nil
		h.Process(b)
	}
	steps := 8 + r.Intn(28)
	nb, nr, nq, ntx, md := 0, 0, 0, 0, 0
	for s := 0; s < steps; s++ {
		switch k := r.Intn(100); {
		case k < 58:
			var extra []*wire.MsgTx
			// re-mine a transaction of a detached block when its inputs are still there
			if len(h.Detached) > 0 && r.Chance(50) {
				tx := h.Detached[r.Intn(len(h.Detached))]
				ok := true
				for _, in := range tx.TxIn {
					if h.Utxo[in.PreviousOutPoint] == nil {
						ok = false
					}
				}
				if _, mined := h.N.Known[tx.TxHash()]; ok && !h.OnBest(tx.TxHash()) && mined {
					extra = append(extra, tx)
				}
			}
			b := h.BuildBlock(r.Intn(4), extra)
			ntx += len(b.MsgBlock().Transactions)
			if err := h.Attach(b); err != nil {
				return nil, err
			}
			nb++
			announce(b)
		case k < 75:
			if h.N.Height() < 2 {
				continue
			}
			d := 1 + r.Intn(opt.MaxReorg)
			if uint64(d) > h.N.Height()-1 {
				d = int(h.N.Height() - 1)
			}
			for i := 0; i < d; i++ {
				if _, err := h.Detach(); err != nil {
					return nil, err
				}
			}
			nnew := d + r.Intn(2)
			perBlock := r.Chance(60) // the node announces every block of the new branch
			var last *massutil.Block
			for i := 0; i < nnew; i++ {
				b := h.BuildBlock(r.Intn(3), nil)
				ntx += len(b.MsgBlock().Transactions)
				if err := h.Attach(b); err != nil {
					return nil, err
				}
				nb++
				last = b
				if perBlock {
					announce(b)
				}
			}
			if !perBlock && last != nil {
				announce(last)
				st.Lock()
				st.multiConnect++
				st.Unlock()
			}
			nr++
			if d > md {
				md = d
			}
		case k < 78:
			// a late, out-of-order announcement of a block that is (or was) on the node's chain
			if id := r.Intn(len(h.Blocks)); id > 0 {
				h.Process(h.Blocks[id])
				h.Stale = true
			}
		case k < 84:
			if len(h.Wallets) > 0 {
				wi := h.Wallets[r.Intn(len(h.Wallets))]
				if _, err := h.NewAddress(wi, 0); err != nil {
					return nil, err
				}
			}
		default:
			h.Query()
			nq++
		}
	}
	for _, q := range queue {
		h.Process(q)
	}
	if h.Stale {
		h.Process(h.N.Tip())
	}
	h.Query()
	nq++
	h.End()
	out.Flush()
	st.Lock()
	st.hist++
	st.blocks += nb
	st.reorgs += nr
	st.queries += nq
	st.txs += ntx
	if md > st.maxDepth {
		st.maxDepth = md
	}
	st.Unlock()
	return buf.Bytes(), nil
}

func main() {
	count := flag.Int("n", 100, "number of histories")
	outPath := flag.String("out", "", "output file")
	workers := flag.Int("j", 12, "parallel worker processes")
	lag := flag.Bool("lag", true, "let announcements lag")
	games := flag.Bool("games", true, "staking/binding outputs")
	unsup := flag.Bool("unsupported", true, "non-witness outputs")
	first := flag.Int("first", 0, "index of the first history (replay: -first k -n 1)")
	worker := flag.Bool("worker", false, "internal: run sequentially and print to stdout")
	flag.Parse()
	if !*worker {
		// the wallet database driver keeps one process-global write batch, so every
		// wallet instance lives in its own process
		err := hist.ParallelSelf(*count, *first, *workers, *outPath, os.Args[1:])
		if err != nil {
			fmt.Fprintln(os.Stderr, err)
			os.Exit(2)
		}
		return
	}
	sim.Init(sim.Params{CoinbaseMaturity: 4, MinFrozenPeriod: 2, GapLimit: 20})
	seed := rng.Seed()
	opt := hist.Options{Unsupported: *unsup, Games: *games, Lag: *lag, MaxReorg: 4}
	w := bufio.NewWriter(os.Stdout)
	for i := 0; i < *count; i++ {
		res, err := runOne(seed, *first+i, opt)
		if err != nil {
			fmt.Fprintf(w, "X %d harness-error %v\n", *first+i, err)
			continue
		}
		w.Write(res)
	}
	w.Flush()
	fmt.Fprintf(os.Stderr, "STATS histories=%d blocks=%d txs=%d reorgs=%d maxdepth=%d multi_block_connects=%d queries=%d\n",
		st.hist, st.blocks, st.txs, st.reorgs, st.maxDepth, st.multiConnect, st.queries)
}
