// cfdbg2: minimal reproduction — an issued address disappears from GetAddresses after the block
// that first paid it is reorganised away (TxStore.Rollback deletes the address record).
package main

import (
	"fmt"
	"os"

	"github.com/massnetorg/mass-core/massutil"
	"github.com/massnetorg/mass-core/txscript"
	"massnet.org/mass-wallet/config"
	"verifharness/internal/sim"
)

func must(err error) {
	if err != nil {
		panic(err)
	}
}

func main() {
	sim.Init(sim.Params{CoinbaseMaturity: 4, MinFrozenPeriod: 2, GapLimit: 20})
	dir, _ := os.MkdirTemp("/dev/shm", "dbg")
	defer os.RemoveAll(dir)
	n, err := sim.NewNode(dir)
	must(err)
	w, err := sim.OpenWallet(n, dir, nil, true)
	must(err)
	id, _, _, err := w.WM.CreateWallet("passphrase1@x", "", 128)
	must(err)
	_, err = w.WM.UseWallet(id)
	must(err)
	a1, err := w.WM.NewAddress(0)
	must(err)
	a2, err := w.WM.NewAddress(0)
	must(err)
	list := func(tag string) {
		l, err := w.WM.GetAddresses(0)
		must(err)
		fmt.Printf("%s:", tag)
		for _, d := range l {
			fmt.Printf(" %s(used=%v)", d.Address[:12], d.Used)
		}
		info, _ := w.WM.UseWallet(id)
		fmt.Printf("  keystore external keys=%d\n", info.ExternalKeyCount)
	}
	fmt.Println("issued", a1[:12], a2[:12])
	list("after issue")
	addr, _ := massutil.DecodeAddress(a1, config.ChainParams)
	pk, _ := txscript.PayToAddrScript(addr)
	b1 := n.MakeBlock(n.Tip(), []sim.Out{{Script: pk, Value: 500000000}}, nil)
	must(n.Attach(b1))
	w.Notify(b1)
	list("block 1 pays a1")
	_, err = n.Detach()
	must(err)
	b1x := n.MakeBlock(n.Tip(), nil, nil)
	must(n.Attach(b1x))
	b2x := n.MakeBlock(n.Tip(), nil, nil)
	must(n.Attach(b2x))
	w.Notify(b2x)
	list("block 1 reorganised away")
	w.Stop()
}
