module verifharness

go 1.13

require (
	github.com/btcsuite/btcd v0.20.1-beta
	github.com/btcsuite/go-flags v0.0.0-20150116065318-6c288d648c1c
	github.com/btcsuite/winsvc v1.0.0
	github.com/gogo/protobuf v1.3.1
	github.com/golang/protobuf v1.4.2
	github.com/grpc-ecosystem/grpc-gateway v1.14.5
	github.com/massnetorg/mass-core v0.0.0-20210809014450-d944e876e3fb
	github.com/patrickmn/go-cache v2.1.0+incompatible
	github.com/rs/cors v1.7.0
	github.com/sirupsen/logrus v1.2.0
	github.com/spf13/cobra v0.0.5
	github.com/spf13/jwalterweatherman v1.0.0
	github.com/spf13/viper v1.5.0
	github.com/stretchr/testify v1.7.0
	github.com/syndtr/goleveldb v1.0.1-0.20210305035536-64b5b1c73954
	github.com/tecbot/gorocksdb v0.0.0-20190705090504-162552197222
	golang.org/x/crypto v0.0.0-20210322153248-0c34fe9e7dc2
	golang.org/x/net v0.0.0-20210226172049-e18ecbb05110
	golang.org/x/text v0.3.3
	google.golang.org/genproto v0.0.0-20190927181202-20e1ac93f88c
	google.golang.org/grpc v1.24.0
	massnet.org/mass-wallet v0.0.0
)

replace massnet.org/mass-wallet => /repo
