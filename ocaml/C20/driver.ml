(* C20 driver over the extracted transition systems (coq/Sched/Handshake.v; check mode: coq/Sched/HandshakeRetry.v,
   the same system with refused import batches and the worker's retry wait).
   Trusted glue only: breadth-first enumeration, projection of paths to observable labels,
   subset simulation of an observed label sequence.  No model logic.

   usage:
     model enum  <found|repaired>            state-space statistics of the built-in scenarios
                                             (MODEL-CHECKING EVIDENCE ONLY; the theorems are in Coq)
     model sched <found|repaired> <limit> <seed>
                                             distinct observable projections of the maximal paths
                                             of the built-in scenarios = schedules for the harness
     model check                             stdin: result lines of harness/cmd/c20;
                                             stdout: the same lines + acceptance by both models *)

let rec nat_of_int i = if i <= 0 then O else S (nat_of_int (i - 1))
let rec int_of_nat = function O -> 0 | S n -> 1 + int_of_nat n

let mk_cfg found = if found then cfg_found else cfg_repaired

let task_of_string s : task =
  (* i0 = import with 1 batch, r1 = removal with 2 phase-2 rounds *)
  let k = if s.[0] = 'i' then Imp else Rem in
  { t_kind = k; t_more = nat_of_int (int_of_string (String.sub s 1 (String.length s - 1))) }

let tasks_of_string s = if s = "" || s = "-" then [] else List.map task_of_string (String.split_on_char ',' s)

let label_name = function
  | La -> "a" | Lpush Imp -> "ti" | Lpush Rem -> "tr" | Ltb -> "tb" | Ltp -> "tp" | Lte -> "te"
  | Lhb -> "hb" | Lhc -> "hc" | Lkb -> "kb" | Lkc -> "kc" | Ls -> "s" | Lz -> "z"
  | Tachk -> "_achk" | Thquit -> "_hquit" | Tkinit -> "_kinit" | Tkquit -> "_kquit" | Tktake -> "_ktake"
  | Tkabort -> "_kabort" | Tkres -> "_kres" | Tkpush -> "_kpush" | Tkchk -> "_kchk" | Tswait -> "_swait"

(* pre: blocks the harness mines before Start so that an import really needs t_more+1 batches;
   cap: at most that many schedules of the scenario are replayed on the real code (0 = none: the
   scenario is enumerated as model-checking evidence only) *)
type scen = { name : string; blocks : int; reqs : string; rst : string; stop : bool; pre : int; cap : int }
let scenarios tier =
  let base = [
    { name = "b1-i0-stop"; blocks = 1; reqs = "i0"; rst = ""; stop = true; pre = 0; cap = max_int };
    { name = "b1-r0-stop"; blocks = 1; reqs = "r0"; rst = ""; stop = true; pre = 0; cap = max_int };
    { name = "i0-r0-stop"; blocks = 0; reqs = "i0,r0"; rst = ""; stop = true; pre = 0; cap = max_int };
    { name = "b2-stop"; blocks = 2; reqs = ""; rst = ""; stop = true; pre = 0; cap = max_int };
    { name = "b1-i0-r0"; blocks = 1; reqs = "i0,r0"; rst = ""; stop = false; pre = 0; cap = max_int };
  ] in
  if tier = "thorough" then base @ [
    { name = "b1-i0-r0-stop"; blocks = 1; reqs = "i0,r0"; rst = ""; stop = true; pre = 0; cap = max_int };
    { name = "b2-r0-stop"; blocks = 2; reqs = "r0"; rst = ""; stop = true; pre = 0; cap = max_int };
    (* a two-batch import needs a chain of more than 1000 blocks: a few schedules only *)
    { name = "b2-i1"; blocks = 2; reqs = "i1"; rst = ""; stop = false; pre = 1003; cap = 24 };
    { name = "b1-i1-stop"; blocks = 1; reqs = "i1"; rst = ""; stop = true; pre = 1003; cap = 24 };
    (* two removal rounds need more than 20000 credits: enumerated only *)
    { name = "i1-r1-stop"; blocks = 0; reqs = "i1,r1"; rst = ""; stop = true; pre = 0; cap = 0 };
  ] else base

let init_of c (sc : scen) =
  init_state c.nilfix (nat_of_int sc.blocks) (tasks_of_string sc.reqs) (tasks_of_string sc.rst) sc.stop

(* ---------------------------------------------------------------- enumeration *)

type cls = Stopped | Idle | Deadlock | OtherEnd

let classify c s =
  if step c s <> [] then None
  else Some (match s.spc with
      | Sdone -> Stopped
      | Sidle -> Idle
      | _ -> Deadlock)

let enum c (sc : scen) =
  let seen = Hashtbl.create 4096 in
  let q = Queue.create () in
  let s0 = init_of c sc in
  Hashtbl.replace seen s0 0; Queue.add s0 q;
  let ntrans = ref 0 and maxd = ref 0 in
  let ends = Hashtbl.create 8 in
  let dead_example = ref None in
  let parent = Hashtbl.create 4096 in
  while not (Queue.is_empty q) do
    let s = Queue.pop q in
    let d = Hashtbl.find seen s in
    if d > !maxd then maxd := d;
    (match classify c s with
     | Some k ->
       Hashtbl.replace ends k (1 + (try Hashtbl.find ends k with Not_found -> 0));
       if k = Deadlock && !dead_example = None then dead_example := Some s
     | None -> ());
    List.iter (fun (l, s') ->
        incr ntrans;
        if not (Hashtbl.mem seen s') then begin
          Hashtbl.replace seen s' (d + 1); Hashtbl.replace parent s' (s, l); Queue.add s' q end)
      (step_l c s)
  done;
  let get k = try Hashtbl.find ends k with Not_found -> 0 in
  let trace_to s =
    let rec go s acc = match Hashtbl.find_opt parent s with
      | Some (p, l) -> go p (label_name l :: acc) | None -> acc in
    String.concat " " (go s []) in
  Printf.printf "M scenario=%s states=%d transitions=%d depth=%d rank0=%d end_stopped=%d end_idle=%d end_deadlock=%d%s\n"
    sc.name (Hashtbl.length seen) !ntrans !maxd (int_of_nat (rank s0)) (get Stopped) (get Idle) (get Deadlock)
    (match !dead_example with Some s -> " deadlock_trace=[" ^ trace_to s ^ "]" | None -> "")

(* ---------------------------------------------------------------- observable projections *)

module SS = Set.Make (String)

(* all distinct observable projections of maximal paths from s (memoised on the state) *)
let projections c s0 =
  let memo = Hashtbl.create 4096 in
  let rec go s =
    match Hashtbl.find_opt memo s with
    | Some r -> r
    | None ->
      let succ = step_l c s in
      let r =
        if succ = [] then SS.singleton ""
        else List.fold_left (fun acc (l, s') ->
            let tails = go s' in
            if observable l then
              SS.fold (fun t acc -> SS.add (if t = "" then label_name l else label_name l ^ "," ^ t) acc) tails acc
            else SS.union tails acc) SS.empty succ in
      Hashtbl.replace memo s r; r in
  go s0

(* ---------------------------------------------------------------- subset simulation *)

(* The check mode runs on the system WITH retry waits (coq/Sched/HandshakeRetry.v): a state of Handshake.v plus the
   retry extension; [refuse] = the refusals the environment may cause (the harness reports the number of rolled-back
   import batches it saw, "kx"; 0 for every family that has none: then the system has exactly the steps of
   Handshake.v, C20_retry_embeds_handshake). *)
let rlabel_name = function
  | Lb l -> label_name l | Lkx -> "kx" | Tkresx -> "_kresx" | Trtick -> "_rtick" | Trquit -> "_rquit"

let rcfg_of c seeded = { bcfg = c; wait_while_queued = seeded }

module StS = Set.Make (struct type t = rstate let compare = compare end)

let tau_closure c set =
  let res = ref set in
  let q = Queue.create () in
  StS.iter (fun s -> Queue.add s q) set;
  while not (Queue.is_empty q) do
    let s = Queue.pop q in
    List.iter (fun (l, s') ->
        if not (robservable l) && not (StS.mem s' !res) then begin res := StS.add s' !res; Queue.add s' q end)
      (rstep_l c s)
  done;
  !res

(* the states the model can be in after the observed sequence (None: no path; the count of events consumed) *)
let final_states c s0 (obs : string list) =
  let cur = ref (tau_closure c (StS.singleton s0)) in
  let ok = ref true and consumed = ref 0 in
  List.iter (fun o ->
      if !ok then begin
        let next = StS.fold (fun s acc ->
            List.fold_left (fun acc (l, s') -> if robservable l && rlabel_name l = o then StS.add s' acc else acc) acc (rstep_l c s))
            !cur StS.empty in
        if StS.is_empty next then ok := false
        else begin cur := tau_closure c next; incr consumed end
      end) obs;
  ((!ok, !consumed), (if !ok then !cur else StS.empty))

(* the livelock of the seeded variant (C20_retry_wait_while_queued_refuted): handler gone, blocks still queued, the
   worker in a retry wait that only an empty queue ends *)
let spinning c s =
  c.wait_while_queued && s.ext.rwait && s.base.hpc = Hdone && s.base.spc = Swait && s.base.qb <> O

let accepts c s0 (obs : string list) (outcome : string) =
  let ((ok0, consumed0), fin) = final_states c s0 obs in
  let ok = ref ok0 and consumed = ref consumed0 and cur = ref fin in
  if not !ok then (false, Printf.sprintf "no-path-after-%d-events" !consumed)
  else begin
    let ex p = StS.exists p !cur in
    match outcome with
    | "stopped" -> if ex (fun s -> s.base.spc = Sdone) then (true, "") else (false, "not-stopped-in-model")
    | "hang" ->
      if ex (fun s -> rstep_l c s = [] && s.base.spc <> Sdone && s.base.spc <> Sidle) then (true, "model-deadlock")
      else if ex (spinning c) then (true, "model-spin")
      else (false, "hang-not-a-model-deadlock")
    | "idle" -> if ex (fun s -> rstep_l c s = [] && s.base.spc = Sidle) then (true, "") else (false, "idle-not-terminal-in-model")
    | "panic" -> if ex (fun s -> s.base.panicked) then (true, "model-panic") else (false, "panic-not-in-model")
    | _ -> (false, "unknown-outcome")
  end

let field line key =
  let fs = String.split_on_char ' ' line in
  let pre = key ^ "=" in
  let n = String.length pre in
  List.fold_left (fun acc f -> if String.length f >= n && String.sub f 0 n = pre then Some (String.sub f n (String.length f - n)) else acc) None fs

let () =
  let mode = if Array.length Sys.argv > 1 then Sys.argv.(1) else "enum" in
  match mode with
  | "enum" ->
    let found = Array.length Sys.argv > 2 && Sys.argv.(2) = "found" in
    let tier = if Array.length Sys.argv > 3 then Sys.argv.(3) else "quick" in
    List.iter (fun sc -> enum (mk_cfg found) sc) (scenarios tier)
  | "sched" ->
    let found = Sys.argv.(2) = "found" in
    let limit = int_of_string Sys.argv.(3) in
    let seed = int_of_string Sys.argv.(4) in
    let tier = if Array.length Sys.argv > 5 then Sys.argv.(5) else "quick" in
    let c = mk_cfg found in
    let scs = scenarios tier in
    let per = max 1 (limit / List.length scs) in
    Random.init seed;
    List.iter (fun sc ->
        let all = SS.elements (projections c (init_of c sc)) in
        let n = List.length all in
        let arr = Array.of_list all in
        (* deterministic sample: shuffle with the seeded generator, keep the first [per] *)
        for i = n - 1 downto 1 do
          let j = Random.int (i + 1) in let t = arr.(i) in arr.(i) <- arr.(j); arr.(j) <- t done;
        let k = min (min per n) sc.cap in
        Printf.printf "P scenario=%s projections=%d emitted=%d\n" sc.name n k;
        for i = 0 to k - 1 do
          Printf.printf "S id=%s/%d blocks=%d reqs=%s stop=%d pre=%d seq=%s\n" sc.name i sc.blocks
            (if sc.reqs = "" then "-" else sc.reqs) (if sc.stop then 1 else 0) sc.pre arr.(i)
        done) scs
  | "check" ->
    (try while true do
         let line = input_line stdin in
         if String.length line > 2 && String.sub line 0 2 = "R " then begin
           let g k d = match field line k with Some v -> v | None -> d in
           let sc = { name = g "id" "?"; blocks = int_of_string (g "blocks" "0"); reqs = g "reqs" "-";
                      rst = g "restart" "-"; stop = (g "stop" "0" = "1"); pre = 0; cap = 0 } in
           let obs = match g "obs" "" with "" | "-" -> [] | s -> String.split_on_char ',' s in
           let outcome = g "outcome" "?" in
           (* queue-pressure lines carry the number of wallet status rows Start() read: the model's queue then has
              the capacity its start-up rule gives (start_cap), and the repaired model starts in start_state
              (the pushes of initTaskChan spelled out) *)
           let nw = match field line "wallets" with Some w -> Some (nat_of_int (int_of_string w)) | None -> None in
           let init c = match nw with
             | Some _ when c.nilfix ->
               start_state c (nat_of_int sc.blocks) (tasks_of_string sc.reqs) (tasks_of_string sc.rst) sc.stop
             | _ -> init_of c sc in
           let show (ok, why) = (if ok then "acc" else "rej") ^ (if why = "" then "" else ":" ^ why) in
           let refuse = nat_of_int (int_of_string (g "refuse" "0")) in
           let rinit_of c = rinit (init c) refuse in
           let res found =
             let c = match nw with Some w -> { (mk_cfg found) with cap = start_cap w } | None -> mk_cfg found in
             show (accepts (rcfg_of c false) (rinit_of c) obs outcome) in
           (match nw with
            | None when field line "rs" <> None ->
              (* retry-stop lines: also, would the seeded variant (pause repeated while the block queue is non-empty)
                 explain the observation?  diagnosis only *)
              let c = mk_cfg false in
              Printf.printf "%s found=%s repaired=%s seeded=%s\n" line (res true) (res false)
                (show (accepts (rcfg_of c true) (rinit_of c) obs outcome))
            | None -> Printf.printf "%s found=%s repaired=%s\n" line (res true) (res false)
            | Some _ ->
              (* diagnosis only: would a queue of max MaxWaitingTaskNum (unfinished tasks) slots explain the
                 observation, with a dropped task in its final state?  (C20_requeue_dropped_refuted) *)
              let nrst = List.length (tasks_of_string sc.rst) in
              let ct = cfg_cap (nat_of_int (max (int_of_nat busy_threshold) nrst)) in
              let rct = rcfg_of ct false in
              let (ok, why) = accepts rct (rinit_of ct) obs outcome in
              let dropped = ok && (let (_, fin) = final_states rct (rinit_of ct) obs in
                                   StS.exists (fun s -> rstep_l rct s = [] && int_of_nat s.base.gh.n_drop > 0) fin) in
              Printf.printf "%s found=%s repaired=%s tight=%s%s\n" line (res true) (res false) (show (ok, why))
                (if dropped then ":dropped" else ""))
         end else print_endline line
       done with End_of_file -> ())
  | _ -> prerr_endline "usage: model enum|sched|check"; exit 2
