(* C16 driver: reads the harness' lines on stdin and prints, for the same inputs, what the
   extracted model computes, in the harness' projection (see harness/cmd/c16/main.go):
     S kind hex  ->  S kind hex P X C A T      T = wallet_spec (the byte-level specification)
     BW/BK/BL/BB …  ->  same tag and inputs, R P [tv]
     K name value ->  K name model-value
   Trusted glue: conversions and printing only, no model logic. *)
let bytes_of_hex h = zlist_of_string (unhex h)
let hex_of_bytes b = hex (string_of_zlist b)

let class_num = function
  | NonStandardTy -> 0 | WitnessV0ScriptHashTy -> 1 | StakingScriptHashTy -> 2
  | BindingScriptHashTy -> 3 | MultiSigTy -> 4 | NullDataTy -> 5

let show_addr = function
  | AWsh (e, p) -> Printf.sprintf "w%s:%s" (string_of_z e) (hex_of_bytes p)
  | APkh h -> "pkh:" ^ hex_of_bytes h
  | ABind t -> "bt:" ^ hex_of_bytes t
  | APubKey k -> "pk:" ^ hex_of_bytes k
let show_oaddr = function Some a -> show_addr a | None -> "-"

let show_psite = function
  | PAddrsIndex1 -> "panic|index" | PNilAddrPubKey -> "panic|nil"
  | PPopsIndex -> "panic|index" | PDataIndex -> "panic|index"

let show_pk (i : pkinfo) =
  Printf.sprintf "ok|%d|%s|%s|%s|%s" (class_num i.pk_class) (string_of_z i.pk_addrclass)
    (string_of_z i.pk_maturity) (show_addr i.pk_std) (show_oaddr i.pk_second)

let show_parse = function
  | Ok i -> show_pk i
  | Err EUnsupported -> "err|unsup"
  | Err EFuel -> "err|fuel"
  | Err _ -> "err|other"
  | Panic p -> show_psite p

let show_spec = function Some i -> show_pk i | None -> "none"

let show_extract = function
  | Ok (x : xinfo) ->
      let ba, bt, bs = match x.x_binding with
        | Some ((a, chia), size) -> show_addr a, (if chia then "Chia" else "MASS"), string_of_z size
        | None -> "-", "-", "-" in
      Printf.sprintf "ok|%d|%s|%s|%s|%s|%s|%s" (class_num x.x_class) (string_of_z x.x_reqsigs)
        (show_oaddr x.x_recipient) (show_oaddr x.x_staking) ba bt bs
  | Err EFuel -> "err|fuel"
  | Err _ -> "err"
  | Panic p -> show_psite p

let show_addrs = function
  | Ok ((c, addrs), req) ->
      Printf.sprintf "ok|%d|%s|%s" (class_num c) (string_of_z req) (String.concat "," (List.map show_addr addrs))
  | Err EFuel -> "err|fuel"
  | Err _ -> "err"
  | Panic p -> show_psite p

let show_build = function
  | Ok s -> "ok|" ^ hex_of_bytes s
  | Err _ -> "err"
  | Panic p -> show_psite p

exception Oracle_miss of string

(* btcec.ParsePubKey's verdicts recorded by the harness for this script *)
let oracle_of (o : string) : z list -> bool =
  let tbl = Hashtbl.create 8 in
  if o <> "-" then
    List.iter (fun kv ->
        match String.split_on_char '=' kv with
        | [k; v] -> Hashtbl.replace tbl k (v = "1")
        | _ -> ()) (String.split_on_char ',' o);
  fun key ->
    let h = hex_of_bytes key in
    match Hashtbl.find_opt tbl h with
    | Some b -> b
    | None -> raise (Oracle_miss h)

let addr_of_data (d : string) : addr option =
  match String.index_opt d ':' with
  | None -> None
  | Some i ->
      let k = String.sub d 0 i and b = bytes_of_hex (String.sub d (i + 1) (String.length d - i - 1)) in
      (match k with
       | "w0" -> Some (AWsh (z_of_int 0, b))
       | "w1" -> Some (AWsh (z_of_int 1, b))
       | "pkh" -> Some (APkh b)
       | "bt" -> Some (ABind b)
       | _ -> None)

let parse_of_build r = match r with Ok s -> show_parse (parse_pk_script s) | _ -> "-"

let () =
  iter_lines (fun line ->
    match split_tab line with
    | "K" :: name :: _ ->
        let v = match name with
          | "MinFrozenPeriod" -> string_of_z minFrozenPeriod
          | "SequenceLockTimeMask" -> string_of_z sequenceLockTimeMask
          | "BindingLockedPeriod" -> string_of_z bindingLockedPeriod
          | "MaxDataCarrierSize" -> string_of_z maxDataCarrierSize
          | "MaxScriptElementSize" -> string_of_z maxScriptElementSize
          | _ -> "?" in
        Printf.printf "K\t%s\t%s\n" name v
    | "S" :: kind :: h :: _p :: _x :: _c :: _a :: o :: _ ->
        let s = bytes_of_hex h in
        let pk_ok = oracle_of o in
        let x = try show_extract (extract_address_infos_gen e2_fixed e3_guarded pk_ok s) with Oracle_miss k -> "oracle-miss:" ^ k in
        let a = try show_addrs (extract_pk_script_addrs pk_ok s) with Oracle_miss k -> "oracle-miss:" ^ k in
        Printf.printf "S\t%s\t%s\t%s\t%s\t%d\t%s\t%s\n" kind h (show_parse (parse_pk_script s)) x
          (class_num (script_class s)) a (show_spec (wallet_spec s))
    | "BW" :: d :: _ ->
        let r = wallet_pay_to_witness_v0 (addr_of_data d) in
        Printf.printf "BW\t%s\t%s\t%s\n" d (show_build r) (parse_of_build r)
    | "BK" :: d :: p :: _ ->
        let r = wallet_staking_script (addr_of_data d) (z_of_string p) in
        Printf.printf "BK\t%s\t%s\t%s\t%s\n" d p (show_build r) (parse_of_build r)
    | "BL" :: d :: p :: _ ->
        let r = match addr_of_data d with
          | Some a -> pay_to_staking_addr_script a (z_of_string p)
          | None -> Err EAddress in
        Printf.printf "BL\t%s\t%s\t%s\t%s\n" d p (show_build r) (parse_of_build r)
    | "BB" :: h :: t :: _ ->
        let hb = bytes_of_hex h and tb = bytes_of_hex t in
        let r = pay_to_binding_script hb tb in
        Printf.printf "BB\t%s\t%s\t%s\t%s\t%d\n" h t (show_build r) (parse_of_build r) (if valid_target tb then 1 else 0)
    | _ -> print_string "?\n")
