(* C14 driver: reads the harness' lines (kind \t input \t impl \t ref \t shape \t table), prints
   kind \t model-result \t spec-result.
   The Section variables of Codec/Bip32.v (HMAC-SHA512, the curve operations, hash160,
   double SHA-256, base58) are instantiated with lookups in the line's table of true
   primitive input->output pairs; a miss means the model asked a primitive a question nobody
   anticipated and is printed as MISS (a correspondence break).
   A point is the 128 hex digits x||y the harness uses; btcec's infinity is (0,0).
   Trusted driver code: parsing, formatting, table lookup; no model logic. *)
exception Miss of string
let tbl : (string, string) Hashtbl.t = Hashtbl.create 256
let look k = try Hashtbl.find tbl k with Not_found -> raise (Miss k)
let hexl (l : z list) = hex (string_of_zlist l)
let unhexl (h : string) : z list = zlist_of_string (unhex h)

(* OBJ / OBJN only: while the script interpreter runs, a question that is not in the line's table (the
   harness tabulates the primitives of the observed key B, not those of the siblings / grandchildren
   a script derives and zeroes around it) gets a fixed dummy answer instead of MISS.  Lookup-then-dummy
   is still a function of the question, and C14_key_object_value_semantics holds for every
   instance of the primitives: what B reads cannot depend on the dummies unless the object model is
   wrong — which then shows as model <> impl.  Everywhere else a miss stays a MISS. *)
let lenient = ref false
let look_or k (dummy : string) = try Hashtbl.find tbl k with Not_found -> if !lenient then dummy else raise (Miss k)
let dummy_point = String.make 128 '1'
let dummy_hex n = String.concat "" (List.init n (fun _ -> "01"))

let p_hmac k d = unhexl (look_or ("K:" ^ hexl k ^ "," ^ hexl d) (dummy_hex 64))
let p_mulG (k : z) : string = look_or ("M:" ^ ZA.format "%x" (za_of_z k)) dummy_point
let p_add (a : string) (b : string) : string = look_or ("A:" ^ a ^ "," ^ b) dummy_point
let p_ser (a : string) = unhexl (look_or ("S:" ^ a) ("02" ^ dummy_hex 32))
let p_parse b = match look_or ("D:" ^ hexl b) dummy_point with "err" -> None | s -> Some s
let zeros64 = String.make 64 '0'
let p_coord_zero (a : string) = String.sub a 0 64 = zeros64 || String.sub a 64 64 = zeros64
let p_is_inf (a : string) = String.sub a 0 64 = zeros64 && String.sub a 64 64 = zeros64
let p_hash160 b = unhexl (look_or ("H:" ^ hexl b) (dummy_hex 20))
let p_dsha b = unhexl (look_or ("C:" ^ hexl b) (dummy_hex 32))
let p_b58enc b = unhexl (look_or ("E:" ^ hexl b) (hexl b))
let p_b58dec s = unhexl (look ("B:" ^ hexl s))

(* the model and the specification, applied to the primitives *)
let m_master = new_master p_hmac
let m_child = child p_hmac p_mulG p_add p_ser p_parse p_coord_zero p_hash160
let m_neuter = neuter p_mulG p_ser
let m_string = to_string p_mulG p_ser p_dsha p_b58enc
let unfixed = Array.length Sys.argv > 1 && Sys.argv.(1) = "unfixed"
let m_parse = (if unfixed then from_string_unfixed else from_string) p_parse p_dsha p_b58dec
let m_api_pub = api_pub p_mulG p_ser p_parse
let m_path = derive_path p_hmac p_mulG p_add p_ser p_parse p_coord_zero p_hash160
let m_coin = derive_coin_type_key p_hmac p_mulG p_add p_ser p_parse p_coord_zero p_hash160
let m_acct = derive_account_key p_hmac p_mulG p_add p_ser p_parse p_coord_zero p_hash160
let m_branch = check_branch_keys p_hmac p_mulG p_add p_ser p_parse p_coord_zero p_hash160
(* Codec/Bip32Obj.v: the script interpreter on key OBJECTS (heap of buffers, Zero wipes in place), with the
   copying Neuter of the repaired tree (nfix = true) *)
let m_script neu = run_script p_hmac p_mulG p_add p_ser p_parse p_coord_zero p_hash160 p_dsha p_b58enc true neu
let s_master : z list -> z list -> string xKey outcome = spec_master p_hmac
let s_ckd = spec_ckd p_hmac p_mulG p_add p_ser p_is_inf p_hash160
let s_neuter : string xKey -> string xKey outcome = spec_neuter p_mulG
let s_string = spec_string p_ser p_dsha p_b58enc
let s_parse = spec_parse p_parse p_dsha p_b58dec
let s_path = spec_derive_path p_hmac p_mulG p_add p_ser p_is_inf p_hash160
let s_coin = spec_coin_type_key p_hmac p_mulG p_add p_ser p_is_inf p_hash160
let s_acct = spec_account_key p_hmac p_mulG p_add p_ser p_is_inf p_hash160
let s_abs = abs p_parse

let err_name = function
  | EInvalidSeedLen -> "EInvalidSeedLen" | EUnusableSeed -> "EUnusableSeed"
  | EDeriveHardFromPublic -> "EDeriveHardFromPublic" | EDeriveBeyondMaxDepth -> "EDeriveBeyondMaxDepth"
  | EInvalidChild -> "EInvalidChild" | EBadChecksum -> "EBadChecksum" | EInvalidKeyLen -> "EInvalidKeyLen"
  | EPubKeyParse -> "EPubKeyParse" | EUnknownHDKeyID -> "EUnknownHDKeyID"
  | EInvalidCoinType -> "EInvalidCoinType" | EInvalidAccountNumber -> "EInvalidAccountNumber"

let b2i b = if b then "1" else "0"
let fmt_key (k : extendedKey) : string =
  Printf.sprintf "ok %s:%s:%s:%s:%s:%s:%s|%s|%s|%s" (hexl k.ek_version) (hexl k.ek_key) (hexl k.ek_chain) (hexl k.ek_fp)
    (string_of_z k.ek_depth) (string_of_z k.ek_num) (b2i k.ek_priv)
    (hexl (api_key k)) (match m_api_pub k with Some b -> hexl b | None -> "-") (hexl (m_string k))
let res = function Ok k -> fmt_key k | Err e -> "err " ^ err_name e
let fmt_x (x : string xKey) : string =
  let priv = (match x.x_key with SPriv _ -> true | SPub _ -> false) in
  Printf.sprintf "ok %s:-:%s:%s:%s:%s:%s|%s|%s|%s" (hexl x.x_version) (hexl x.x_chain) (hexl x.x_fp)
    (string_of_z x.x_depth) (string_of_z x.x_num) (b2i priv)
    (hexl (spec_api_key p_ser x)) (hexl (p_ser (spec_point_of p_mulG x.x_key))) (hexl (s_string x))
let res_x = function Ok x -> fmt_x x | Err e -> "err " ^ err_name e

let dec_fields (s : string) : extendedKey =
  match String.split_on_char ':' s with
  | [v; k; c; fp; d; n; p] ->
      { ek_version = unhexl v; ek_key = unhexl k; ek_chain = unhexl c; ek_fp = unhexl fp;
        ek_depth = z_of_string d; ek_num = z_of_string n; ek_priv = (p = "1") }
  | _ -> failwith ("bad key fields: " ^ s)
let dec_path (s : string) : z list =
  if s = "" then [] else List.map z_of_string (String.split_on_char '/' s)
let commas s = String.split_on_char ',' s

(* the script language of runObjScript: ops joined by '.', a letter and an optional uint32 argument
   (strconv.ParseUint(op[1:], 10, 32) with the error ignored: 0 on a syntax error, 2^32-1 on overflow) *)
let script_arg (o : string) : z =
  let a = String.sub o 1 (String.length o - 1) in
  let digits = a <> "" && (let ok = ref true in String.iter (fun c -> if c < '0' || c > '9' then ok := false) a; !ok) in
  if not digits then z_of_int 0
  else let v = ZA.of_string a in
       let mx = ZA.pred (ZA.shift_left ZA.one 32) in
       z_of_za (if ZA.gt v mx then mx else v)
let dec_script (s : string) : op list =
  List.filter_map (fun o ->
    if o = "" then None
    else match o.[0] with
      | 'B' -> Some OpB | 'a' -> Some (OpA (script_arg o)) | 'u' -> Some (OpU (script_arg o)) | 'n' -> Some OpN
      | 'c' -> Some (OpC (script_arg o)) | 'm' -> Some OpM | 's' -> Some OpS | 'p' -> Some OpP
      | _ -> None) (String.split_on_char '.' s)
(* the object the script observes at its end; None = B was never assigned (the harness then panics on nil) *)
let run_obj neu f i script : extendedKey outcome option =
  lenient := true;
  let r = (try m_script neu f i (dec_script script) with e -> lenient := false; raise e) in
  lenient := false; r
let res_obj = function None -> "panic" | Some r -> res r

let load_table (t : string) =
  Hashtbl.reset tbl;
  if t <> "" then
    List.iter (fun e ->
      match String.index_opt e '=' with
      | Some i -> Hashtbl.replace tbl (String.sub e 0 i) (String.sub e (i + 1) (String.length e - i - 1))
      | None -> ()) (String.split_on_char ';' t)

let guard (f : unit -> string) : string =
  try f () with Miss k -> "MISS " ^ (if String.length k > 80 then String.sub k 0 80 else k)
let with_abs f (k : extendedKey) = match s_abs k with None -> "err EPubKeyParse" | Some x -> f x

let model kind input : string = guard (fun () ->
  match kind, commas input with
  | "MASTER", [v; s] -> res (m_master (unhexl v) (unhexl s))
  | "CHILD", [f; i] -> res (m_child (dec_fields f) (z_of_string i))
  | "OBJ", [f; i; sc] -> res_obj (run_obj false (dec_fields f) (z_of_string i) sc)
  | "OBJN", [f; sc] -> res_obj (run_obj true (dec_fields f) (z_of_int 0) sc)
  | "PCHILD", [s; i] -> (match m_parse (unhexl s) with Err e -> "err " ^ err_name e | Ok k -> res (m_child k (z_of_string i)))
  | "NEUTER", [f] -> res (m_neuter (dec_fields f))
  | "STRING", [f] -> "ok " ^ hexl (m_string (dec_fields f))
  | "PARSE", [_; s] -> res (m_parse (unhexl s))
  | "PATH", [v; s; p] ->
      (match m_master (unhexl v) (unhexl s) with
       | Err e -> "err " ^ err_name e ^ ";-"
       | Ok m -> (match m_path m (dec_path p) with
                  | Err e -> "err " ^ err_name e ^ ";-"
                  | Ok k -> fmt_key k ^ ";" ^ res (m_neuter k)))
  | "COMMUTE", [f; i] ->
      let k = dec_fields f and i = z_of_string i in
      let a = (match m_child k i with Err e -> "err " ^ err_name e | Ok c -> res (m_neuter c)) in
      let b = (match m_neuter k with Err e -> "err " ^ err_name e | Ok n -> res (m_child n i)) in
      a ^ ";" ^ b
  | "HD", [s; p; c; a] ->
      (match m_master hd_private_key_id (unhexl s) with
       | Err e -> "err " ^ err_name e ^ ";-;-"
       | Ok m -> (match m_coin m (z_of_string p) (z_of_string c) with
                  | Err e -> "err " ^ err_name e ^ ";-;-"
                  | Ok ck -> (match m_acct ck (z_of_string a) with
                              | Err e -> fmt_key ck ^ ";err " ^ err_name e ^ ";-"
                              | Ok ak -> fmt_key ck ^ ";" ^ fmt_key ak ^ ";" ^
                                         (match m_branch ak with None -> "ok" | Some e -> "err " ^ err_name e))))
  | _ -> "?")

let spec kind input : string = guard (fun () ->
  match kind, commas input with
  | "MASTER", [v; s] -> res_x (s_master (unhexl v) (unhexl s))
  | "CHILD", [f; i] -> with_abs (fun x -> res_x (s_ckd x (z_of_string i))) (dec_fields f)
  | "OBJ", [f; i; _] -> with_abs (fun x -> res_x (s_ckd x (z_of_string i))) (dec_fields f)
  | "OBJN", [f; _] -> with_abs (fun x -> res_x (s_neuter x)) (dec_fields f)
  | "PCHILD", [s; i] -> (match s_parse (unhexl s) with Err e -> "err " ^ err_name e | Ok x -> res_x (s_ckd x (z_of_string i)))
  | "NEUTER", [f] -> with_abs (fun x -> res_x (s_neuter x)) (dec_fields f)
  | "STRING", [f] -> with_abs (fun x -> "ok " ^ hexl (s_string x)) (dec_fields f)
  | "PARSE", [_; s] -> res_x (s_parse (unhexl s))
  | "PATH", [v; s; p] ->
      (match s_master (unhexl v) (unhexl s) with
       | Err e -> "err " ^ err_name e ^ ";-"
       | Ok m -> (match s_path m (dec_path p) with
                  | Err e -> "err " ^ err_name e ^ ";-"
                  | Ok x -> fmt_x x ^ ";" ^ res_x (s_neuter x)))
  | "COMMUTE", [f; i] ->
      let i = z_of_string i in
      (match s_abs (dec_fields f) with
       | None -> "err EPubKeyParse;err EPubKeyParse"
       | Some x ->
           let a = (match s_ckd x i with Err e -> "err " ^ err_name e | Ok c -> res_x (s_neuter c)) in
           let b = (match s_neuter x with Err e -> "err " ^ err_name e | Ok n -> res_x (s_ckd n i)) in
           a ^ ";" ^ b)
  | "HD", [s; p; c; a] ->
      (match s_master hd_private_key_id (unhexl s) with
       | Err e -> "err " ^ err_name e ^ ";-;-"
       | Ok m -> (match s_coin m (z_of_string p) (z_of_string c) with
                  | Err e -> "err " ^ err_name e ^ ";-;-"
                  | Ok ck -> (match s_acct ck (z_of_string a) with
                              | Err e -> fmt_x ck ^ ";err " ^ err_name e ^ ";-"
                              | Ok ak ->
                                  let br = (match s_ckd ak external_branch with
                                            | Err e -> "err " ^ err_name e
                                            | Ok _ -> (match s_ckd ak internal_branch with Err e -> "err " ^ err_name e | Ok _ -> "ok")) in
                                  fmt_x ck ^ ";" ^ fmt_x ak ^ ";" ^ br)))
  | _ -> "?")

let () =
  iter_lines (fun line ->
    match split_tab line with
    | "CONST" :: _ ->
        Printf.printf "CONST\tn=%s,p=%s,hardened=%s,minseed=%d,maxseed=%d,serlen=%d,master=%s,priv=%s,pub=%s,maxcoin=%s,maxacct=%s,ext=%s,int=%s\n"
          (string_of_z curve_n) (string_of_z curve_p) (string_of_z hardened_start) (int_of_nat min_seed_bytes) (int_of_nat max_seed_bytes)
          (int_of_nat serialized_key_len) (hexl master_key) (hexl hd_private_key_id) (hexl hd_public_key_id)
          (string_of_z max_coin_type) (string_of_z max_account_num) (string_of_z external_branch) (string_of_z internal_branch)
    | kind :: input :: _impl :: _ref :: _shape :: rest ->
        load_table (match rest with t :: _ -> t | [] -> "");
        let m = model kind input in
        let s = spec kind input in
        Printf.printf "%s\t%s\t%s\n" kind m s
    | _ -> ())
