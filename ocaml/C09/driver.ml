(* replays the histories written by harness/cmd/c09 (internal/hist: hist.go + pending.go) on the
   extracted model coq/Ledger/Pending.v (which wraps the frozen Ledger/Model.v) and evaluates the
   specification functions of Pending.v (ideal_pending, spec_flag, spec_*_history) and Spec.v on
   the same history.
   stdin: history lines; stdout, tab separated, one line per observation:
     P hist k bid impl model
     U hist k txid impl model
     Q hist k wid quiet impl model spec consensus_withdrawable(staking binding)
     F hist k wid quiet impl model spec_must spec_may
     S|Y hist k wid quiet excl impl model spec_must spec_may
     M hist k impl model
     R hist k quiet impl model spec_must spec_may
     B hist k bucket impl model          (store dumps: UC unmined credits, UI unmined inputs, GR / GU deposit rows)
     C hist k wid quiet implE modelE all half implInputs modelEligible
     W hist k wid txid vout locktime implres implseq modelseq required csvok
     X ... (harness errors are passed through) *)
let n_of_int i : n = if i = 0 then N0 else Npos (pos_of_za (ZA.of_int i))
let int_of_n (x : n) : int = match x with N0 -> 0 | Npos p -> ZA.to_int (za_of_pos p)
let zs s = z_of_string s
let a3fix = not (Array.length Sys.argv > 1 && Sys.argv.(1) = "unfixed")

let cls_of code param : oclass =
  match code with
  | 0 -> CStd | 1 -> CStaking (zs param) | 2 -> CBindingOld | 3 -> CBindingNew | _ -> CUnsupported

let u32 (x : z) : string = ZA.to_string (ZA.logand (za_of_z x) (ZA.of_string "4294967295"))

let show_report (r : report) : string =
  let rows = List.map (fun u ->
      (int_of_n u.u_tx, int_of_n u.u_vout,
       Printf.sprintf "%d:%d:%s:%s:%d:%s:%s:%d" (int_of_n u.u_tx) (int_of_n u.u_vout) (string_of_z u.u_amount)
         (string_of_z u.u_height) (int_of_n u.u_sh) (u32 u.u_maturity) (u32 u.u_confs)
         (if u.u_spendable then 1 else 0))) r.r_rows in
  let rows = List.sort compare rows in
  String.concat " " ([string_of_z r.r_synced; string_of_z r.r_total; string_of_z r.r_spendable;
                      string_of_z r.r_wstaking; string_of_z r.r_wbinding; string_of_int (List.length rows)]
                     @ List.map (fun (_, _, s) -> s) rows)

let b01 b = if b then 1 else 0

let show_hrows ~(binding : bool) (rows : hrow list) : string =
  let l = List.map (fun r ->
      let base = Printf.sprintf "%d:%d:%s:%d:%s:%s:%d:%d:%d" (int_of_n r.hr_tx) (int_of_n r.hr_vout) (string_of_z r.hr_amount)
          (int_of_n r.hr_sh) (u32 r.hr_frozen) (string_of_z r.hr_height) (b01 r.hr_spent) (b01 r.hr_sbu) (b01 r.hr_pending) in
      if binding then base ^ ":1" else base) rows in
  let l = List.sort compare l in
  String.concat " " (string_of_int (List.length l) :: l)

let () =
  let hist = ref "" in
  let params = ref { p_cbmat = zs "1000"; p_bindlock = zs "4294967294" } in
  let warmup = ref (zs "1398801") in
  let sim : psim option ref = ref None in
  let blocks : (int, block) Hashtbl.t = Hashtbl.create 64 in
  let txs : (int, tx) Hashtbl.t = Hashtbl.create 64 in           (* every transaction ever defined *)
  let accepted : (int, unit) Hashtbl.t = Hashtbl.create 64 in    (* delivered and reported relevant by the implementation *)
  let seen_blocks : (int, unit) Hashtbl.t = Hashtbl.create 64 in (* blocks on a chain whose tip the wallet accepted *)
  let k = ref 0 in
  let cur_b : (int * int * string * int) option ref = ref None in
  let cur_txs : tx list ref = ref [] in
  let cur_t : (int * bool * bool) option ref = ref None in   (* id, coinbase, standalone *)
  let cur_ins : (n * n) list ref = ref [] in
  let cur_outs : txout list ref = ref [] in
  let flush_tx () =
    match !cur_t with
    | None -> ()
    | Some (tid, cb, standalone) ->
        let t = { t_id = n_of_int tid; t_cb = cb; t_ins = List.rev !cur_ins; t_outs = List.rev !cur_outs } in
        Hashtbl.replace txs tid t;
        if not standalone then cur_txs := t :: !cur_txs;
        cur_t := None; cur_ins := []; cur_outs := [] in
  let flush_block () =
    flush_tx ();
    match !cur_b with
    | None -> ()
    | Some (bid, prev, h, _) ->
        Hashtbl.replace blocks bid { b_id = n_of_int bid; b_prev = n_of_int prev; b_height = zs h; b_txs = List.rev !cur_txs };
        cur_b := None; cur_txs := [] in
  let get_sim () = match !sim with Some s -> s | None -> failwith "no history" in
  let do_step e = sim := Some (pstep !params a3fix (get_sim ()) e) in
  let universe (h : n) : tx option = Hashtbl.find_opt txs (int_of_n h) in
  (* every non-coinbase transaction that has been broadcast: contained in a block the node attached,
     or delivered to the wallet as unconfirmed; creation order *)
  let broadcast : (int, unit) Hashtbl.t = Hashtbl.create 64 in
  let sorted_txs (ids : (int, unit) Hashtbl.t) : tx list =
    let l = Hashtbl.fold (fun tid () acc -> tid :: acc) ids [] in
    List.filter_map (fun tid -> Hashtbl.find_opt txs tid) (List.sort compare l) in
  (* the transactions the wallet has been shown, restricted to those that concern it *)
  let known_ids () : (int, unit) Hashtbl.t =
    let s = get_sim () in
    let own = own_of s.q_own in
    let ids = Hashtbl.create 64 in
    Hashtbl.iter (fun tid () -> Hashtbl.replace ids tid ()) accepted;
    Hashtbl.iter (fun bid () ->
        match Hashtbl.find_opt blocks bid with
        | Some b -> List.iter (fun t -> if not t.t_cb then Hashtbl.replace ids (int_of_n t.t_id) ()) b.b_txs
        | None -> ()) seen_blocks;
    let res = Hashtbl.create 64 in
    Hashtbl.iter (fun tid () -> match Hashtbl.find_opt txs tid with
        | Some t when spec_relevant own universe t -> Hashtbl.replace res tid ()
        | _ -> ()) ids;
    res in
  let rec mark_seen bid =
    if not (Hashtbl.mem seen_blocks bid) then begin
      Hashtbl.replace seen_blocks bid ();
      match Hashtbl.find_opt blocks bid with
      | Some b when bid <> 0 -> mark_seen (int_of_n b.b_prev)
      | _ -> ()
    end in
  (* a transaction that was invalid with respect to a chain the wallet accepted (an input spent by
     another transaction, or missing) is dropped by wallets and mempools alike and does not return by
     itself when that chain is reorganised away: from then on it is undetermined *)
  let was_dead : (int, unit) Hashtbl.t = Hashtbl.create 64 in
  let rec chain_to bid acc =
    match Hashtbl.find_opt blocks bid with
    | Some b -> if bid = 0 then b :: acc else chain_to (int_of_n b.b_prev) (b :: acc)
    | None -> acc in
  let note_dead bid =
    let c = chain_to bid [] in
    let bc = sorted_txs broadcast in
    let upper = ideal_pending c bc [] in
    List.iter (fun t ->
        let id = int_of_n t.t_id in
        if not (tx_on_chain c t.t_id) && not (List.exists (fun q -> int_of_n q.t_id = id) upper) then Hashtbl.replace was_dead id ()) bc in
  (* what should be pending in the wallet: the broadcast transactions that are still valid and
     unconfirmed with respect to the best chain, as far as the wallet has been shown them.
     Returns (must be pending, may be pending). *)
  let ideal () : tx list * tx list =
    let s = get_sim () in
    let k = known_ids () in
    let upper = ideal_pending s.q_node (sorted_txs broadcast) [] in
    let lower = settled_pending upper (List.filter (fun t -> not (Hashtbl.mem was_dead (int_of_n t.t_id))) upper) [] in
    let mine = List.filter (fun t -> Hashtbl.mem k (int_of_n t.t_id)) in
    (mine lower, mine upper) in
  iter_lines (fun line ->
    let f = String.split_on_char ' ' line in
    (match f with
     | ("T" | "I" | "O") :: _ -> ()
     | "D" :: _ -> flush_block ()
     | _ -> flush_block ());
    match f with
    | ["H"; n] -> hist := n; k := 0; Hashtbl.reset broadcast; Hashtbl.reset was_dead; Hashtbl.reset blocks; Hashtbl.reset txs; Hashtbl.reset accepted; Hashtbl.reset seen_blocks; sim := None
    | ["K"; cb; bl] -> params := { p_cbmat = zs cb; p_bindlock = zs bl }
    | ["K2"; w] -> warmup := zs w
    | ["G"; g] ->
        let gb = { b_id = n_of_int (int_of_string g); b_prev = n_of_int 0; b_height = zs "0"; b_txs = [] } in
        Hashtbl.replace blocks (int_of_string g) gb;
        Hashtbl.replace seen_blocks (int_of_string g) ();
        sim := Some (init_psim gb)
    | ["A"; sh; w] -> do_step (PvOwner (n_of_int (int_of_string sh), n_of_int (int_of_string w)))
    | ["B"; bid; prev; h; ntx] -> cur_b := Some (int_of_string bid, int_of_string prev, h, int_of_string ntx)
    | ["T"; tid; cb; _; _] -> flush_tx (); cur_t := Some (int_of_string tid, cb = "1", false)
    | ["D"; tid; _; _] -> flush_tx (); cur_t := Some (int_of_string tid, false, true)
    | ["I"; pt; pv] -> cur_ins := (n_of_int (int_of_string pt), n_of_int (int_of_string pv)) :: !cur_ins
    | ["O"; sh; v; c; p] -> cur_outs := { o_sh = n_of_int (int_of_string sh); o_val = zs v; o_class = cls_of (int_of_string c) p } :: !cur_outs
    | ["N"; "attach"; bid] ->
        let b = Hashtbl.find blocks (int_of_string bid) in
        List.iter (fun t -> if not t.t_cb then Hashtbl.replace broadcast (int_of_n t.t_id) ()) b.b_txs;
        do_step (PvAttach b)
    | ["N"; "detach"] -> do_step PvDetach
    | ["Z"; "restart"] -> do_step PvRestart
    | ["P"; bid; impl] ->
        let s = get_sim () in
        let b = Hashtbl.find blocks (int_of_string bid) in
        let r = pprocess !params a3fix (own_of s.q_own) s.q_node s.q_h b in
        incr k;
        Printf.printf "P\t%s\t%d\t%s\t%s\t%s\n" !hist !k bid impl (match r with POk _ -> "ok" | PErr _ -> "err");
        if impl = "ok" then (mark_seen (int_of_string bid); note_dead (int_of_string bid));
        do_step (PvProcess b)
    | ["U"; tid; impl] ->
        let s = get_sim () in
        let t = Hashtbl.find txs (int_of_string tid) in
        let (_, r) = receive_tx !params (own_of s.q_own) s.q_node s.q_h t in
        incr k;
        Printf.printf "U\t%s\t%d\t%s\t%s\t%s\n" !hist !k tid impl (match r with RRelevant -> "rel" | RNot -> "no" | RError -> "err");
        if impl = "rel" then Hashtbl.replace accepted (int_of_string tid) ();
        Hashtbl.replace broadcast (int_of_string tid) ();
        do_step (PvReceive t)
    | "Q" :: w :: q :: rest ->
        let s = get_sim () in
        let wn = n_of_int (int_of_string w) in
        incr k;
        let bp = { bp_warmup = !warmup; bp_bindlock = !params.p_bindlock } in
        let own = own_of s.q_own in
        Printf.printf "Q\t%s\t%d\t%s\t%s\t%s\t%s\t%s\t%s %s\n" !hist !k w q (String.concat " " rest)
          (show_report (model_report s.q_h.h_store.ps_w wn))
          (show_report (spec_report !params own s.q_node wn))
          (string_of_z (spec_withdrawable !params bp own s.q_node wn false))
          (string_of_z (spec_withdrawable !params bp own s.q_node wn true))
    | "F" :: w :: q :: rest ->
        let s = get_sim () in
        let wn = n_of_int (int_of_string w) in
        let rows = flag_rows s.q_h.h_store wn in
        let show l = let l = List.sort compare l in
          String.concat " " (string_of_int (List.length l) :: List.map (fun (a, b, c) -> Printf.sprintf "%d:%d:%d" a b c) l) in
        let m = show (List.map (fun ((a, b), fl) -> (int_of_n a, int_of_n b, b01 fl)) rows) in
        let (lo, hi) = ideal () in
        let sp pend = show (List.map (fun ((a, b), _) -> (int_of_n a, int_of_n b, b01 (spec_flag pend (a, b)))) rows) in
        incr k;
        Printf.printf "F\t%s\t%d\t%s\t%s\t%s\t%s\t%s\t%s\n" !hist !k w q (String.concat " " rest) m (sp lo) (sp hi)
    | (("S" | "Y") as kind) :: w :: q :: excl :: rest ->
        let s = get_sim () in
        let wn = n_of_int (int_of_string w) in
        let binding = kind = "Y" in
        let ex = excl = "1" in
        let m = show_hrows ~binding (game_history s.q_node s.q_h.h_store wn binding ex) in
        let own = own_of s.q_own in
        let (lo, hi) = ideal () in
        let sp pend =
          let mined = spec_mined_history own s.q_node pend wn binding in
          let mined = if ex then List.filter (fun r -> not r.hr_spent) mined else mined in
          show_hrows ~binding (spec_unmined_history own pend wn binding @ mined) in
        incr k;
        Printf.printf "%s\t%s\t%d\t%s\t%s\t%s\t%s\t%s\t%s\t%s\n" kind !hist !k w q excl (String.concat " " (List.filter (fun x -> x <> "") rest)) m (sp lo) (sp hi)
    | "M" :: rest ->
        let s = get_sim () in
        let l = List.sort_uniq compare (List.map int_of_n s.q_h.h_mempool) in
        incr k;
        Printf.printf "M\t%s\t%d\t%s\t%s\n" !hist !k (String.concat " " rest)
          (String.concat " " (string_of_int (List.length l) :: List.map string_of_int l))
    | "R" :: q :: n :: rest ->
        let s = get_sim () in
        let (lo, hi) = ideal () in
        let ids = List.map (fun e -> int_of_string (List.hd (String.split_on_char ':' e))) (List.filter (fun x -> x <> "") rest) in
        let m = List.map (fun tid ->
            let st = match read_unmined s.q_h.h_store (n_of_int tid) with
              | RdNone -> "none"
              | RdBad -> "bad"
              | RdOk t -> (match Hashtbl.find_opt txs tid with Some t0 when t0 = t -> "ok" | _ -> "bad") in
            Printf.sprintf "%d:%s" tid st) ids in
        let sp pend = String.concat " " (n :: List.map (fun tid ->
            Printf.sprintf "%d:%s" tid (if List.exists (fun t -> int_of_n t.t_id = tid) pend then "ok" else "none")) ids) in
        incr k;
        Printf.printf "R\t%s\t%d\t%s\t%s\t%s\t%s\t%s\n" !hist !k q (String.concat " " (n :: List.filter (fun x -> x <> "") rest))
          (String.concat " " (n :: m)) (sp lo) (sp hi)
    | (("UC" | "UI" | "GR" | "GU") as kind) :: rest ->
        let s = get_sim () in
        let st = s.q_h.h_store in
        let l = match kind with
          | "UC" -> List.map (fun c -> Printf.sprintf "%d:%d" (int_of_n (fst c.uc_op)) (int_of_n (snd c.uc_op))) st.ps_ucredits
          | "UI" -> List.filter_map (fun (o, sps) ->
                        if sps = [] then None
                        else Some (Printf.sprintf "%d:%d=%s" (int_of_n (fst o)) (int_of_n (snd o))
                                     (String.concat "," (List.map (fun x -> string_of_int (int_of_n x)) sps)))) st.ps_uinputs
          | "GR" -> List.map (fun r -> Printf.sprintf "%d:%d:%d:%d:%s:%d" (int_of_n r.g_wallet) (b01 r.g_binding) (b01 r.g_withdrawn)
                                 (int_of_n r.g_tx) (string_of_z r.g_height) (int_of_n r.g_vout)) st.ps_game
          | _ -> List.map (fun r -> Printf.sprintf "%d:%d:0:%d:0:%d" (int_of_n r.ug_wallet) (b01 r.ug_binding) (int_of_n r.ug_tx) (int_of_n r.ug_vout)) st.ps_ugame in
        let l = List.sort compare l in
        incr k;
        Printf.printf "B\t%s\t%d\t%s\t%s\t%s\n" !hist !k kind (String.concat " " (List.filter (fun x -> x <> "") rest))
          (String.concat " " (string_of_int (List.length l) :: l))
    | "C" :: w :: q :: e :: all :: half :: _ :: ins ->
        let s = get_sim () in
        let wn = n_of_int (int_of_string w) in
        let el = eligible_list s.q_h.h_store wn in
        let me = List.fold_left (fun a c -> ZA.add a (za_of_z c.c_amount)) ZA.zero el in
        let ml = List.sort compare (List.map (fun c -> Printf.sprintf "%d:%d" (int_of_n c.c_tx) (int_of_n c.c_vout)) el) in
        incr k;
        Printf.printf "C\t%s\t%d\t%s\t%s\t%s\t%s\t%s\t%s\t%s\t%s\n" !hist !k w q e (ZA.to_string me) all half
          (String.concat " " (List.filter (fun x -> x <> "") ins)) (String.concat " " ml)
    | ["W"; w; tid; vout; lock; res; seq] ->
        let s = get_sim () in
        let wn = n_of_int (int_of_string w) in
        let bp = { bp_warmup = !warmup; bp_bindlock = !params.p_bindlock } in
        let c = List.find_opt (fun c -> int_of_n c.c_tx = int_of_string tid && int_of_n c.c_vout = int_of_string vout
                                        && int_of_n c.c_wallet = int_of_n wn && c.c_spent = None) s.q_h.h_store.ps_w.credits in
        incr k;
        (match c with
         | None -> Printf.printf "W\t%s\t%d\t%s\t%s\t%s\t%s\t%s\t%s\tnocredit\t-\t-\n" !hist !k w tid vout lock res seq
         | Some c ->
             let ms = built_sequence bp (zs lock) c.c_class c.c_height in
             let req = required_sequence bp c.c_class c.c_height in
             Printf.printf "W\t%s\t%d\t%s\t%s\t%s\t%s\t%s\t%s\t%s\t%s\t%d\n" !hist !k w tid vout lock res seq (string_of_z ms)
               (match req with Some v -> string_of_z v | None -> "any") (b01 (csv_ok req (zs seq))))
    | "X" :: _ -> print_endline ("X\t" ^ line)
    | _ -> ())
