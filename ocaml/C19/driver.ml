(* C19 driver: reads the harness' R lines on stdin (format: harness/cmd/c19/modelline.go) and prints,
   for the same request and the same store answers, what the extracted model coq/Api/Panic.v
   [handle trim_ascii current_code] computes:   R <caseid> <outcome>[|<outcome>…]
   outcome = ok | err:<code> | panic:<Site>.  Several outcomes = the request holds a map
   (amounts) whose iteration order Go randomises: one outcome per order.
   Trusted glue: parsing, building the record values, printing. No model logic. *)
let str_of_hex h = if h = "-" then [] else zlist_of_string (unhex h)
let str_of_plain s = zlist_of_string s

let site_name = function
  | PAmountS1 -> "PAmountS1" | PAmountRepeat -> "PAmountRepeat" | PAmountSInt0 -> "PAmountSInt0"
  | PAmountSFrac0 -> "PAmountSFrac0" | PFormatSlice -> "PFormatSlice" | PCtiIndex -> "PCtiIndex"
  | PCtiBlockNil -> "PCtiBlockNil" | PSenders0 -> "PSenders0" | PEstIndex -> "PEstIndex"
  | PEstAddrs0 -> "PEstAddrs0" | PSignIndex -> "PSignIndex" | PSignMetaNil -> "PSignMetaNil"
  | PAddIndex -> "PAddIndex" | PAddBlockNil -> "PAddBlockNil" | PFindMaNil -> "PFindMaNil"
  | PSignScriptCurNil -> "PSignScriptCurNil"
  | PPubkeyCurNil -> "PPubkeyCurNil" | PMas0 -> "PMas0" | PSelectSlice -> "PSelectSlice"
  | PExistsTxCurNil -> "PExistsTxCurNil" | PExistsUtxoCurNil -> "PExistsUtxoCurNil"
  | PBalanceCurNil -> "PBalanceCurNil" | PUnspentsCurNil -> "PUnspentsCurNil"
  | PImportRecNil -> "PImportRecNil" | PTaskChanNil -> "PTaskChanNil" | PFilterTxIndex -> "PFilterTxIndex"
  | PFilterImpIndex -> "PFilterImpIndex" | PTxLocsIndex -> "PTxLocsIndex"
  | PTargetIdx -> "PTargetIdx" | PBindHistIndex -> "PBindHistIndex" | PBindHistTargetNil -> "PBindHistTargetNil"
  | PBindHistPrevIndex -> "PBindHistPrevIndex" | PTxTypeIndex -> "PTxTypeIndex" | PVinIndex -> "PVinIndex"
  | PRewardTxOut -> "PRewardTxOut" | PCurEvictedNil -> "PCurEvictedNil"

let show = function
  | Ok _ -> "ok"
  | Err c -> "err:" ^ string_of_z c
  | Panic p -> "panic:" ^ site_name p

let rec permutations = function
  | [] -> [ [] ]
  | l ->
    List.concat (List.mapi (fun i x ->
      let rest = List.filteri (fun j _ -> j <> i) l in
      List.map (fun p -> x :: p) (permutations rest)) l)

(* which switch setting the implementation under test corresponds to: the code as it stands ([current_code]) or,
   for a worktree that carries the proposed repair of GetBindingHistoryDetail, C19_MODEL_FIXES=all_fixed *)
let code_under_test =
  match Sys.getenv_opt "C19_MODEL_FIXES" with
  | Some "all_fixed" -> all_fixed
  | Some "as_found" -> as_found
  | _ -> current_code

let () =
  iter_lines (fun line ->
    let f = Array.of_list (split_tab line) in
    if Array.length f > 4 && f.(0) = "R" then begin
      let pos = ref 5 in
      let next () = let v = f.(!pos) in incr pos; v in
      let nstr () = str_of_hex (next ()) in
      let nz () = z_of_string (next ()) in
      let nint () = int_of_string (next ()) in
      let nbool () = next () = "1" in
      let nlist g = let n = nint () in List.init n (fun _ -> g ()) in
      let id = f.(1) and meth = f.(2) in
      let cur = f.(3) = "1" and tc = f.(4) = "1" in
      let inputs () = nlist (fun () -> let t = nstr () in let v = nz () in { in_txid = t; in_vout = v }) in
      let amounts () = nlist (fun () -> let k = nstr () in let v = nstr () in (k, v)) in
      let decoded = ref None in
      try
        (* the request; [variants] = one request per order of a map argument *)
        let variants : request list =
          match meth with
          | "UseWallet" -> [ RUseWallet (nstr ()) ]
          | "ExportWallet" -> let a = nstr () in let b = nstr () in [ RExportWallet (a, b) ]
          | "RemoveWallet" -> let a = nstr () in let b = nstr () in [ RRemoveWallet (a, b) ]
          | "GetWalletMnemonic" -> let a = nstr () in let b = nstr () in [ RGetWalletMnemonic (a, b) ]
          | "ImportWallet" -> let a = nstr () in let b = nstr () in [ RImportWallet (a, b) ]
          | "ImportMnemonic" ->
            let a = nstr () in let b = nstr () in let c = nstr () in let d = nz () in let e = nz () in
            [ RImportMnemonic (a, b, c, d, e) ]
          | "CreateWallet" -> let a = nstr () in let b = nstr () in let c = nz () in [ RCreateWallet (a, b, c) ]
          | "ValidateAddress" -> [ RValidateAddress (nstr ()) ]
          | "GetAddressBalance" -> let c = nz () in let l = nlist nstr in [ RGetAddressBalance (c, l) ]
          | "GetWalletBalance" -> let c = nz () in let d = nbool () in [ RGetWalletBalance (c, d) ]
          | "GetUtxo" -> [ RGetUtxo (nlist nstr) ]
          | "CreateAddress" -> [ RCreateAddress (nz ()) ]
          | "GetAddresses" -> [ RGetAddresses (nz ()) ]
          | "TxHistory" -> let c = nz () in let a = nstr () in [ RTxHistory (c, a) ]
          | "GetTxStatus" -> [ RGetTxStatus (nstr ()) ]
          | "GetRawTransaction" -> [ RGetRawTransaction (nstr ()) ]
          | "DecodeRawTransaction" -> [ RDecodeRawTransaction (nstr ()) ]
          | "CreateRawTransaction" ->
            let lt = nz () in let ch = nstr () in let ins = inputs () in let am = amounts () in let sub = nlist nstr in
            List.map (fun a -> RCreateRawTransaction (ins, a, lt, ch, sub)) (permutations am)
          | "AutoCreateTransaction" ->
            let lt = nz () in let fee = nstr () in let fr = nstr () in let ch = nstr () in let am = amounts () in
            List.map (fun a -> RAutoCreateTransaction (a, lt, fee, fr, ch)) (permutations am)
          | "CreateStakingTransaction" ->
            let fr = nstr () in let st = nstr () in let am = nstr () in let fz = nz () in let fee = nstr () in
            [ RCreateStakingTransaction (fr, st, am, fz, fee) ]
          | "GetTransactionFee" ->
            let hb = nbool () in let am = amounts () in let ins = inputs () in
            List.map (fun a -> RGetTransactionFee (a, ins, hb)) (if List.length am <= 4 then permutations am else [ am ])
          | "SignRawTransaction" ->
            let raw = nstr () in let pass = nstr () in let fl = nstr () in
            let dec = nbool () in
            let ins = nlist (fun () -> let h = next () in let v = nz () in (h, v)) in
            if dec then
              decoded := Some (List.filter_map (fun (h, v) ->
                match hash_from_str (str_of_plain h) with Some n -> Some (n, v) | None -> None) ins);
            [ RSignRawTransaction (raw, pass, fl) ]
          | "WM.CreateRawTransaction" ->
            let ce = nbool () in let na = nz () in let ins = inputs () in [ RWmCreateRawTransaction (ins, na, ce) ]
          | "WM.EstimateManualTxFee" -> [ RWmEstimateManualTxFee (inputs ()) ]
          | "WM.GetTxHistory" -> [ RWmGetTxHistory (nz ()) ]
          | "CreateBindingTransaction" ->
            let fr = nstr () in let fee = nstr () in
            let outs = nlist (fun () -> let h = nstr () in let b = nstr () in let a = nstr () in
                                        { bo_holder = h; bo_binding = b; bo_amount = a }) in
            [ RCreateBindingTransaction (outs, fr, fee) ]
          | "CreatePoolPkCoinbaseTransaction" -> let fr = nstr () in let pl = nstr () in [ RCreatePoolPkCoinbaseTransaction (fr, pl) ]
          | "GetStakingHistory" -> [ RGetStakingHistory (nstr ()) ]
          | "GetBindingHistory" -> [ RGetBindingHistory (nstr ()) ]
          | "SendRawTransaction" ->
            let raw = nstr () in
            if nbool () then decoded := Some [];
            [ RSendRawTransaction raw ]
          | "GetNetworkBinding" -> [ RGetNetworkBinding (nz ()) ]
          | "CheckPoolPkCoinbase" -> [ RCheckPoolPkCoinbase (nlist nstr) ]
          | "CheckTargetBinding" -> [ RCheckTargetBinding (nlist nstr) ]
          | "GetBlockByHeight" -> [ RGetBlockByHeight (nz ()) ]
          | "GetBestBlock" -> [ RGetBestBlock ]
          | "GetBlockStakingReward" -> [ RGetBlockStakingReward (nz ()) ]
          | "Wallets" -> [ RWallets ]
          | _ -> raise Exit
        in
        if next () <> "#" then failwith "separator";
        let looks = nlist (fun () ->
          let t = next () in let v = nz () in let c = next () in let h = nz () in let u = next () in
          (hash_from_str (str_of_plain t), v, c, h, u)) in
        let txs = nlist (fun () ->
          let t = next () in let unm = nbool () in
          let outs = nlist (fun () ->
            let p = next () in let mine = nbool () in let a = nint () in let k = nbool () in
            { ov_parse = (match p with "0" -> Some PkStd | "1" -> Some PkStaking | "2" -> Some PkBinding | _ -> None);
              ov_mine = mine; ov_addrs = (if a < 0 then None else Some (nat_of_int a)); ov_keys = k }) in
          (hash_from_str (str_of_plain t), unm, outs)) in
        let tx_of h = List.find_opt (fun (k, _, _) -> k = Some h) txs in
        let st = {
          st_credit = (fun h i ->
            match List.find_opt (fun (k, v, _, _, _) -> k = Some h && v = i) looks with
            | Some (_, _, "F", ht, _) -> (match tx_of h with Some (_, _, outs) -> Found (outs, ht) | None -> LookErr)
            | Some (_, _, "E", _, _) -> LookErr
            | _ -> NotFound);
          st_unmined = (fun h -> match tx_of h with Some (_, true, outs) -> Some outs | _ -> None);
          st_utxo = (fun h i ->
            match List.find_opt (fun (k, v, _, _, _) -> k = Some h && v = i) looks with
            | Some (_, _, _, _, "0") -> Some false
            | Some (_, _, _, _, "1") -> Some true
            | _ -> None) } in
        let c = if cur then Some (Npos XH) else None in
        let evicted = ref false in
        (* the codec answers and the node-side facts of the second group (optional section "$") *)
        let addr_tab = ref [] and pay_tab = ref [] in
        let best = ref (z_of_int 0) and block = ref None and reward = ref None and rows = ref [] in
        if !pos < Array.length f && f.(!pos) = "$" then begin
          incr pos;
          addr_tab := nlist (fun () -> let a = nstr () in let c = next () in
            let cls = match c.[0] with
              | 'E' -> ADecErr | 'P' -> APubKeyHash | 'T' -> ABindingTarget
              | 'W' -> (match String.split_on_char '.' (String.sub c 1 (String.length c - 1)) with
                        | [ a; b ] -> AWitness (z_of_string a, z_of_string b) | _ -> failwith "address class")
              | 'O' -> AOther (z_of_string (String.sub c 1 (String.length c - 1)))
              | _ -> failwith "address class" in
            (a, cls));
          pay_tab := nlist (fun () -> let h = nstr () in let b = nbool () in (h, b));
          best := nz ();
          (match next () with "1" -> block := Some [] | _ -> block := None);
          (match next () with
           | "-" -> reward := None
           | v -> (match String.split_on_char ',' v with
                   | [ a; b ] -> reward := Some (z_of_string a, z_of_string b) | _ -> failwith "reward"));
          let bins () = nlist (fun () ->
            let pv = next () in let ix = nz () in let g = nbool () in let ok = nbool () in
            { bi_prev = (if pv = "-" then None else Some (z_of_string pv)); bi_index = ix; bi_game = g; bi_addr_ok = ok }) in
          rows := nlist (fun () ->
            let mined = nbool () in let vout = nz () in let same = nbool () in
            let fetched = nbool () in
            let outs = nlist (fun () -> match next () with "-" -> None | "1" -> Some true | _ -> Some false) in
            let amt = nz () in let cb = nbool () in let ins = bins () in
            { br_mined = mined; br_vout = vout; br_same = same; br_tx = (if fetched then Some outs else None);
              br_amount = amt; br_coinbase = cb; br_ins = ins });
          evicted := nbool ()
        end;
        let w = { cur = c; cur2 = c; cur3 = c; st = st; taskchan = tc; evicted = !evicted } in
        let cd = {
          c_addr = (fun s -> match List.assoc_opt s !addr_tab with
                             | Some c -> c
                             | None -> failwith ("address not in the codec table: " ^ string_of_zlist s));
          c_payload_pool = (fun raw -> match List.assoc_opt raw !pay_tab with
                                       | Some b -> b
                                       | None -> failwith "payload not in the codec table") } in
        let e = { e_rest_ok = true; e_decode_tx = (fun _ -> !decoded); e_sign_ok = true; e_selected = [];
                  e_next_addr = Some [ () ]; e_history_batches = [];
                  e_block = !block; e_rawtx = None; e_best = !best; e_reward = !reward; e_stake_rows = []; e_bind_rows = !rows } in
        let outs = List.sort_uniq compare (List.map (fun r ->
          match r with
          | RGetRawTransaction _ when (match prologue trim_ascii cd r with Ok _ -> true | _ -> false) -> "ok"   (* the served transaction is not rendered here *)
          | _ -> show (handle trim_ascii cd code_under_test e w r)) variants) in
        Printf.printf "R\t%s\t%s\n" id (String.concat "|" outs)
      with
      | Exit -> Printf.printf "R\t%s\tskip\n" id
      | ex -> Printf.printf "R\t%s\tdriver-error:%s\n" id (Printexc.to_string ex)
    end)
