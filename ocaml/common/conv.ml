(* glue between OCaml values and the extracted inductive numbers (positive, z, n, nat).
   Trusted driver code: conversions only, no model logic. *)
let rec pos_of_za (n : ZA.t) : positive =
  if ZA.equal n ZA.one then XH
  else if ZA.is_even n then XO (pos_of_za (ZA.shift_right n 1))
  else XI (pos_of_za (ZA.shift_right n 1))
let rec za_of_pos (p : positive) : ZA.t =
  match p with
  | XH -> ZA.one
  | XO q -> ZA.shift_left (za_of_pos q) 1
  | XI q -> ZA.succ (ZA.shift_left (za_of_pos q) 1)
let z_of_za (n : ZA.t) : z =
  if ZA.sign n = 0 then Z0 else if ZA.sign n > 0 then Zpos (pos_of_za n) else Zneg (pos_of_za (ZA.neg n))
let za_of_z (x : z) : ZA.t = match x with Z0 -> ZA.zero | Zpos p -> za_of_pos p | Zneg p -> ZA.neg (za_of_pos p)
let z_of_int (i : int) : z = z_of_za (ZA.of_int i)
let int_of_z (x : z) : int = ZA.to_int (za_of_z x)
let z_of_string (s : string) : z = z_of_za (ZA.of_string s)
let string_of_z (x : z) : string = ZA.to_string (za_of_z x)
let rec nat_of_int (i : int) : nat = if i <= 0 then O else S (nat_of_int (i - 1))
let rec int_of_nat (n : nat) : int = match n with O -> 0 | S m -> 1 + int_of_nat m

(* byte strings as lists of z codes *)
let zlist_of_string (s : string) : z list = List.init (String.length s) (fun i -> z_of_int (Char.code s.[i]))
let string_of_zlist (l : z list) : string =
  let b = Buffer.create 16 in
  List.iter (fun c -> Buffer.add_char b (Char.chr ((int_of_z c) land 255))) l; Buffer.contents b
let unhex (h : string) : string =
  let n = String.length h / 2 in
  String.init n (fun i -> Char.chr (int_of_string ("0x" ^ String.sub h (2 * i) 2)))
let hex (s : string) : string =
  let b = Buffer.create (2 * String.length s) in
  String.iter (fun c -> Buffer.add_string b (Printf.sprintf "%02x" (Char.code c))) s; Buffer.contents b
let split_tab (l : string) : string list = String.split_on_char '\t' l
let iter_lines (f : string -> unit) : unit =
  try while true do f (input_line stdin) done with End_of_file -> ()
