(* prepended to the extracted model: keeps zarith's Z reachable after the
   extracted code defines its own module Z *)
module ZA = Z
