(* replays the histories written by harness/internal/hist on the extracted Ledger model.
   stdin: history lines; stdout, tab separated:
     Q <hist> <k> <wid> <quiescent> <impl report> <model report> <spec report>
     P <hist> <k> <bid> <impl ok|err> <model ok|err>
     X <hist> ...   (harness errors are passed through) *)
let n_of_int i : n = if i = 0 then N0 else Npos (pos_of_za (ZA.of_int i))
let int_of_n (x : n) : int = match x with N0 -> 0 | Npos p -> ZA.to_int (za_of_pos p)
let zs s = z_of_string s
let a1fix = not (Array.length Sys.argv > 1 && Sys.argv.(1) = "unfixed")

let cls_of code param : oclass =
  match code with
  | 0 -> CStd | 1 -> CStaking (zs param) | 2 -> CBindingOld | 3 -> CBindingNew | _ -> CUnsupported

let show_report (r : report) : string =
  let rows = List.map (fun u ->
      (int_of_n u.u_tx, int_of_n u.u_vout,
       Printf.sprintf "%d:%d:%s:%s:%d:%s:%s:%d" (int_of_n u.u_tx) (int_of_n u.u_vout) (string_of_z u.u_amount)
         (string_of_z u.u_height) (int_of_n u.u_sh)
         (* maturity and confirmations are reported as uint32 by the API *)
         (ZA.to_string (ZA.logand (za_of_z u.u_maturity) (ZA.of_string "4294967295")))
         (ZA.to_string (ZA.logand (za_of_z u.u_confs) (ZA.of_string "4294967295")))
         (if u.u_spendable then 1 else 0))) r.r_rows in
  let rows = List.sort compare rows in
  String.concat " " ([string_of_z r.r_synced; string_of_z r.r_total; string_of_z r.r_spendable;
                      string_of_z r.r_wstaking; string_of_z r.r_wbinding; string_of_int (List.length rows)]
                     @ List.map (fun (_, _, s) -> s) rows)

let () =
  let hist = ref "" in
  let params = ref { p_cbmat = zs "1000"; p_bindlock = zs "4294967294" } in
  let sim = ref None in
  let blocks : (int, block) Hashtbl.t = Hashtbl.create 64 in
  let k = ref 0 in
  (* block under construction *)
  let cur_b : (int * int * string * int) option ref = ref None in
  let cur_txs : tx list ref = ref [] in
  let cur_t : (int * bool * int * int) option ref = ref None in
  let cur_ins : (n * n) list ref = ref [] in
  let cur_outs : txout list ref = ref [] in
  let flush_tx () =
    match !cur_t with
    | None -> ()
    | Some (tid, cb, _, _) ->
        cur_txs := { t_id = n_of_int tid; t_cb = cb; t_ins = List.rev !cur_ins; t_outs = List.rev !cur_outs } :: !cur_txs;
        cur_t := None; cur_ins := []; cur_outs := [] in
  let flush_block () =
    flush_tx ();
    match !cur_b with
    | None -> ()
    | Some (bid, prev, h, _) ->
        Hashtbl.replace blocks bid { b_id = n_of_int bid; b_prev = n_of_int prev; b_height = zs h; b_txs = List.rev !cur_txs };
        cur_b := None; cur_txs := [] in
  let get_sim () = match !sim with Some s -> s | None -> failwith "no history" in
  let do_step e = sim := Some (step !params a1fix (get_sim ()) e) in
  iter_lines (fun line ->
    let f = String.split_on_char ' ' line in
    (match f with
     | ("T" | "I" | "O") :: _ -> ()
     | "B" :: _ -> flush_block ()
     | _ -> flush_block ());
    match f with
    | ["H"; n] -> hist := n; k := 0; Hashtbl.reset blocks; sim := None
    | ["K"; cb; bl] -> params := { p_cbmat = zs cb; p_bindlock = zs bl }
    | ["G"; g] ->
        let gb = { b_id = n_of_int (int_of_string g); b_prev = n_of_int 0; b_height = zs "0"; b_txs = [] } in
        Hashtbl.replace blocks (int_of_string g) gb;
        sim := Some (init_sim gb)
    | ["A"; sh; w] -> do_step (EvOwner (n_of_int (int_of_string sh), n_of_int (int_of_string w)))
    | ["B"; bid; prev; h; ntx] -> cur_b := Some (int_of_string bid, int_of_string prev, h, int_of_string ntx)
    | ["T"; tid; cb; nin; nout] -> flush_tx (); cur_t := Some (int_of_string tid, cb = "1", int_of_string nin, int_of_string nout)
    | ["I"; pt; pv] -> cur_ins := (n_of_int (int_of_string pt), n_of_int (int_of_string pv)) :: !cur_ins
    | ["O"; sh; v; c; p] -> cur_outs := { o_sh = n_of_int (int_of_string sh); o_val = zs v; o_class = cls_of (int_of_string c) p } :: !cur_outs
    | ["N"; "attach"; bid] -> do_step (EvAttach (Hashtbl.find blocks (int_of_string bid)))
    | ["N"; "detach"] -> do_step EvDetach
    | ["P"; bid; impl] ->
        let s = get_sim () in
        let b = Hashtbl.find blocks (int_of_string bid) in
        let r = process !params a1fix (own_of s.s_own) s.s_node s.s_wallet b in
        incr k;
        Printf.printf "P\t%s\t%d\t%s\t%s\t%s\n" !hist !k bid impl (match r with Ok _ -> "ok" | Err _ -> "err");
        do_step (EvProcess b)
    | "Q" :: w :: q :: rest ->
        let s = get_sim () in
        let wn = n_of_int (int_of_string w) in
        incr k;
        Printf.printf "Q\t%s\t%d\t%s\t%s\t%s\t%s\t%s\n" !hist !k w q (String.concat " " rest)
          (show_report (model_report s.s_wallet wn))
          (show_report (spec_report !params (own_of s.s_own) s.s_node wn))
    | "X" :: _ -> print_endline ("X\t" ^ line)
    | _ -> ())
