(* replays the histories written by harness/cmd/c12 on the extracted address model (coq/Keys/Gap.v)
   and evaluates the property's predicates on the implementation's own observations.
   stdout, tab separated (h = history, k = running number):
     NA   h k w cls api  impl model spec info        new-address request
     L    h k w filter   impl model verdict          GetAddresses; verdict = ok | problems of the impl listing
     KS   h k w          impl model                  keystore content
     BAL  h k w          impl spec                   gross balance vs Ledger spec
     RX   h k w          impl model                  restore
     DISC h k w          missing gapinv internal     discovery predicate at the first keystore observation after a restore
     P    h k bid        impl model
     X    ...                                        harness errors, table misses *)
let n_of_int i : n = if i = 0 then N0 else Npos (pos_of_za (ZA.of_int i))
let int_of_n (x : n) : int = match x with N0 -> 0 | Npos p -> ZA.to_int (za_of_pos p)
let zs s = z_of_string s
let ios = int_of_string
(* model of the code as found before the repair 314e4a7 (index map keyed by child number only): argv "unfixed" *)
let fx = not (Array.length Sys.argv > 1 && Sys.argv.(1) = "unfixed")

let cls_of code param : oclass =
  match code with
  | 0 -> CStd | 1 -> CStaking (zs param) | 2 -> CBindingOld | 3 -> CBindingNew | _ -> CUnsupported

type winfo = {
  fam : int;
  mutable st : wal;
  mutable live : bool;
  mutable restored : bool;
  mutable fresh_restore : bool;          (* no keystore observation since the restore *)
  int_hint : int;                        (* internal-branch hint of the restore *)
  mutable issued : (bool * int) list;    (* (staking form, sh) this wallet handed out or materialised on import *)
  mutable prepaid : (int, unit) Hashtbl.t;   (* sh already paid on the node's chain when issued here *)
  mutable lost : (bool * int, unit) Hashtbl.t; (* (form, sh): a block paying it was disconnected from this wallet's chain *)
  mutable impl_keys : int list;          (* script hashes of the keystore as last observed on the implementation *)
}

let () =
  let hist = ref "" in
  let k = ref 0 in
  let gap = ref 20 and maxun = ref 8 in
  let blocks : (int, block) Hashtbl.t = Hashtbl.create 64 in
  let fam_tbl : (int * bool * int, int) Hashtbl.t = Hashtbl.create 512 in   (* (fam, internal, index) -> sh *)
  let fam_max : (int, int) Hashtbl.t = Hashtbl.create 4 in                  (* fam -> largest external counter seen *)
  let sh_tbl : (int, int * bool * int) Hashtbl.t = Hashtbl.create 512 in     (* sh -> (fam, internal, index) *)
  let fam_polluted : (int, unit) Hashtbl.t = Hashtbl.create 4 in            (* an index was issued although the rule refuses *)
  let fam_reorged : (int, unit) Hashtbl.t = Hashtbl.create 4 in             (* a block paying an external address of the family was detached *)
  let wallets : (int, winfo) Hashtbl.t = Hashtbl.create 8 in
  let node : block list ref = ref [] in          (* genesis first *)
  let wchain : block list ref = ref [] in        (* processed chain of the running instance *)
  let miss = ref false in
  let shf fam : bool -> n -> n = fun br i ->
    match Hashtbl.find_opt fam_tbl (fam, br, int_of_n i) with
    | Some sh -> n_of_int sh
    | None -> miss := true; n_of_int (1000000000 + (if br then 500000000 else 0) + int_of_n i) in
  let cur_b = ref None and cur_txs = ref [] and cur_t = ref None and cur_ins = ref [] and cur_outs = ref [] in
  let flush_tx () =
    match !cur_t with
    | None -> ()
    | Some (tid, cb) ->
        cur_txs := { t_id = n_of_int tid; t_cb = cb; t_ins = List.rev !cur_ins; t_outs = List.rev !cur_outs } :: !cur_txs;
        cur_t := None; cur_ins := []; cur_outs := [] in
  let flush_block () =
    flush_tx ();
    match !cur_b with
    | None -> ()
    | Some (bid, prev, h) ->
        Hashtbl.replace blocks bid { b_id = n_of_int bid; b_prev = n_of_int prev; b_height = zs h; b_txs = List.rev !cur_txs };
        cur_b := None; cur_txs := [] in
  let live_wallets () = Hashtbl.fold (fun w wi acc -> if wi.live then (w, wi) :: acc else acc) wallets [] in
  let form_of o = match out_form o.o_class with Some f -> Some f | None -> None in
  (* the instance's processed chain becomes [nw] *)
  let sync_to nw =
    let old = !wchain in
    let cp = int_of_nat (common_prefix old nw) in
    let rec drop i l = if i <= 0 then l else match l with [] -> [] | _ :: r -> drop (i - 1) r in
    let removed = drop cp old in
    List.iter (fun (_, wi) ->
        let mine = mine_of (shf wi.fam) wi.st.w_ks in
        List.iter (fun b -> List.iter (fun o ->
            if mine o.o_sh then match form_of o with
              | Some f -> Hashtbl.replace wi.lost (f, int_of_n o.o_sh) ()
              | None -> ()) (block_outs b)) removed;
        wi.st <- wal_sync (shf wi.fam) old nw wi.st) (live_wallets ());
    wchain := nw in
  let show_entries (l : aentry list) =
    let es = List.map (fun e -> ((if e.ae_stk then 1 else 0), int_of_n e.ae_sh, (if e.ae_used then 1 else 0))) l in
    let es = List.sort compare es in
    String.concat " " (string_of_int (List.length es) :: List.map (fun (c, s, u) -> Printf.sprintf "%d:%d:%d" c s u) es) in
  let pays_now f sh = pays_form !node f (n_of_int sh) in
  let any_now sh = pays_any !node (n_of_int sh) in
  iter_lines (fun line ->
    let f = String.split_on_char ' ' line in
    (match f with
     | ("T" | "I" | "O") :: _ -> ()
     | _ -> flush_block ());
    let w_of s = Hashtbl.find wallets (ios s) in
    match f with
    | ["H"; n] ->
        hist := n; k := 0; Hashtbl.reset blocks; Hashtbl.reset fam_tbl; Hashtbl.reset wallets; Hashtbl.reset fam_max;
        Hashtbl.reset sh_tbl; Hashtbl.reset fam_polluted; Hashtbl.reset fam_reorged;
        node := []; wchain := []; miss := false
    | ["K"; _; _] -> ()
    | ["G"; g] ->
        let gb = { b_id = n_of_int (ios g); b_prev = n_of_int 0; b_height = zs "0"; b_txs = [] } in
        Hashtbl.replace blocks (ios g) gb; node := [gb]; wchain := [gb]
    | ["GAP"; g; m] -> gap := ios g; maxun := ios m
    | ["F"; _; _] -> ()
    | ["D"; fam; br; idx; sh] ->
        Hashtbl.replace fam_tbl (ios fam, br = "1", ios idx) (ios sh);
        Hashtbl.replace sh_tbl (ios sh) (ios fam, br = "1", ios idx)
    | ["W"; w; fam] ->
        Hashtbl.replace wallets (ios w) { fam = ios fam; st = wal_empty; live = true; restored = false; fresh_restore = false; int_hint = 0; impl_keys = [];
                                          issued = []; prepaid = Hashtbl.create 8; lost = Hashtbl.create 8 }
    | ["A"; _; _] -> ()
    | ["B"; bid; prev; h; _] -> cur_b := Some (ios bid, ios prev, h)
    | ["T"; tid; cb; _; _] -> flush_tx (); cur_t := Some (ios tid, cb = "1")
    | ["I"; pt; pv] -> cur_ins := (n_of_int (ios pt), n_of_int (ios pv)) :: !cur_ins
    | ["O"; sh; v; c; p] -> cur_outs := { o_sh = n_of_int (ios sh); o_val = zs v; o_class = cls_of (ios c) p } :: !cur_outs
    | ["N"; "attach"; bid] -> node := !node @ [Hashtbl.find blocks (ios bid)]
    | ["N"; "detach"] ->
        let r = List.rev !node in
        List.iter (fun o -> match Hashtbl.find_opt sh_tbl (int_of_n o.o_sh) with
            | Some (fam, false, _) -> Hashtbl.replace fam_reorged fam ()
            | _ -> ()) (block_outs (List.hd r));
        node := List.rev (List.tl r)
    | ["P"; bid; impl] ->
        incr k;
        (* the announced block is on the node's chain (announcements are synchronous in this harness) *)
        let b = Hashtbl.find blocks (ios bid) in
        let rec upto acc = function
          | [] -> None
          | x :: r -> if x.b_id = b.b_id then Some (List.rev (x :: acc)) else upto (x :: acc) r in
        (match upto [] !node with
         | Some nw -> sync_to nw; Printf.printf "P\t%s\t%d\t%s\t%s\tok\n" !hist !k bid impl
         | None -> Printf.printf "P\t%s\t%d\t%s\t%s\terr\n" !hist !k bid impl)
    | "OPEN" :: ws ->
        List.iter (fun (_, wi) -> wi.live <- false) (live_wallets ());
        List.iter (fun w -> let wi = w_of w in wi.live <- true; wi.st <- wal_reload wi.st) ws;
        if ws = [] then wchain := !node else sync_to !node
    | ["ST"; w] -> (w_of w).live <- false
    | ["NA"; w; cls; api; impl] ->
        incr k;
        let wi = w_of w in
        let sf = shf wi.fam in
        let stk = cls = "1" in
        let n = wi.st.w_ks.ks_next_e in
        let used = oracle_of sf !node in
        let r = if api = "1" then api_create_address sf fx (n_of_int !gap) (n_of_int !maxun) used stk wi.st
                else new_address sf fx (n_of_int !gap) used stk wi.st in
        let sh_n = int_of_n (sf false n) in
        let model = match r with
          | KOk ((c, i), st') ->
              wi.st <- st';
              Printf.sprintf "ok:%d:%d" (int_of_n (sf false i)) (if c then 1 else 0)
          | KErr EGapLimit -> "gap" | KErr EUnusedLimit -> "limit" | KErr EExceed -> "other" | KErr EOther -> "other" in
        let impl_p = if String.length impl >= 5 && String.sub impl 0 5 = "other" then "other" else impl in
        let spec = if spec_refuse (n_of_int !gap) (used false) n then "refuse" else Printf.sprintf "issue:%d" sh_n in
        let prepaid = any_now sh_n in
        (match String.split_on_char ':' impl with
         | ["ok"; sh; form] ->
             wi.issued <- (form = "1", ios sh) :: wi.issued;
             let cur = (try Hashtbl.find fam_max wi.fam with Not_found -> 0) in
             Hashtbl.replace fam_max wi.fam (max cur (int_of_n n + 1));
             if prepaid then Hashtbl.replace wi.prepaid (ios sh) ()
         | _ -> ());
        let internal = int_of_n wi.st.w_ks.ks_next_i > 0 in
        if spec = "refuse" && String.length impl >= 2 && String.sub impl 0 2 = "ok" then Hashtbl.replace fam_polluted wi.fam ();
        Printf.printf "NA\t%s\t%d\t%s\t%s\t%s\t%s\t%s\t%s\tinternal=%d,prepaid=%d,n=%d\n" !hist !k w cls api impl_p model spec
          (if internal then 1 else 0) (if prepaid then 1 else 0) (int_of_n n)
    | ["RX"; w; fam; mode; he; hi; impl] ->
        incr k;
        let fam = ios fam in
        let sf = shf fam in
        let r = wal_restore sf (nat_of_int 600) (n_of_int !gap) (n_of_int (ios he)) (n_of_int (ios hi)) !node in
        let impl_p = if impl = "ok" then "ok" else "err" in
        (match r with
         | Some st ->
             if impl = "ok" then
               Hashtbl.replace wallets (ios w) { fam; st; live = true; restored = true; fresh_restore = true; int_hint = ios hi; issued = []; impl_keys = [];
                                                 prepaid = Hashtbl.create 8; lost = Hashtbl.create 8 };
             Printf.printf "RX\t%s\t%d\t%s\t%s\tok\t%s\n" !hist !k w impl_p mode
         | None -> Printf.printf "RX\t%s\t%d\t%s\t%s\tnofuel\t%s\n" !hist !k w impl_p mode)
    | "KS" :: w :: rest ->
        incr k;
        let wi = w_of w in
        let sf = shf wi.fam in
        let pubs = wi.st.w_ks.ks_pubs in
        let ext = List.length (List.filter (fun (br, _) -> not br) pubs) and inn = List.length (List.filter (fun (br, _) -> br) pubs) in
        let shs = List.sort compare (List.map (fun (br, i) -> int_of_n (sf br i)) pubs) in
        let model = String.concat " " (List.map string_of_int ([ext; inn; List.length shs] @ shs)) in
        (* the counters are part of the observation: the keystore's key counts are len(addrs) per branch *)
        let model = model ^ Printf.sprintf " next=%d/%d" (int_of_n wi.st.w_ks.ks_next_e) (int_of_n wi.st.w_ks.ks_next_i) in
        let impl = String.concat " " rest in
        let impl_ext = (match rest with e :: i :: _ -> Printf.sprintf " next=%s/%s" e i | _ -> "") in
        Printf.printf "KS\t%s\t%d\t%s\t%s\t%s\n" !hist !k w (impl ^ impl_ext) model;
        let cur = (try Hashtbl.find fam_max wi.fam with Not_found -> 0) in
        (* discovery predicate, on the implementation's keystore *)
        let impl_shs = (match rest with _ :: _ :: _ :: l -> List.map ios l | _ -> []) in
        wi.impl_keys <- impl_shs;
        if wi.fresh_restore then begin
          wi.fresh_restore <- false;
          (* an import lists every materialised address as a standard address *)
          wi.issued <- List.map (fun sh -> (false, sh)) impl_shs;
          let missing = ref [] in
          for i = cur - 1 downto 0 do
            let sh = int_of_n (sf false (n_of_int i)) in
            if any_now sh && not (List.mem sh impl_shs) then missing := i :: !missing
          done;
          let used_now = fun i -> pays_any !node (sf false i) in
          let inv = gap_inv_b (n_of_int !gap) used_now (n_of_int cur) in
          Printf.printf "DISC\t%s\t%d\t%s\t%s\tgapinv=%d\tinternal=%d\tissued=%d\tpolluted=%d\treorged=%d\n" !hist !k w
            (String.concat "," (List.map string_of_int !missing)) (if inv then 1 else 0)
            (if wi.int_hint > 0 then 1 else 0) cur
            (if Hashtbl.mem fam_polluted wi.fam then 1 else 0) (if Hashtbl.mem fam_reorged wi.fam then 1 else 0)
        end
    | ["BAL"; w; total] ->
        incr k;
        let wi = w_of w in
        let wn = n_of_int (ios w) in
        let own sh = if List.mem (int_of_n sh) wi.impl_keys then Some wn else None in
        (* without the addresses that were already paid when this wallet issued them (possible only
           after a restore that missed them): the wallet cannot know those earlier payments *)
        let own_np sh = if List.mem (int_of_n sh) wi.impl_keys && not (Hashtbl.mem wi.prepaid (int_of_n sh)) then Some wn else None in
        Printf.printf "BAL\t%s\t%d\t%s\t%s\t%s\t%s\t%d\n" !hist !k w total (string_of_z (balance_of_chain own !node wn))
          (string_of_z (balance_of_chain own_np !node wn)) (Hashtbl.length wi.prepaid)
    | "L" :: w :: filter :: rest ->
        incr k;
        let wi = w_of w in
        let model = show_entries (listing (n_of_int (ios filter)) wi.st.w_recs) in
        let impl = String.concat " " rest in
        (* predicates on the implementation's listing *)
        let ents = (match rest with _ :: l -> List.filter_map (fun e -> match String.split_on_char ':' e with
            | [c; s; u] -> Some (c = "1", ios s, u = "1") | _ -> None) l | [] -> []) in
        let problems = ref [] in
        let want c = filter = "65535" || (filter = "1") = c in
        List.iter (fun (c, sh) ->
            if want c && not (List.exists (fun (c', s', _) -> c' = c && s' = sh) ents) then
              problems := Printf.sprintf "missing:%d:%d:paidnow=%d:disconnected=%d" (if c then 1 else 0) sh
                  (if pays_now c sh then 1 else 0) (if Hashtbl.mem wi.lost (c, sh) then 1 else 0) :: !problems)
          (List.sort_uniq compare wi.issued);
        List.iter (fun (c, sh, u) ->
            let spec = if c then pays_now true sh else any_now sh in
            if sh <= 0 then problems := Printf.sprintf "badentry:%d" sh :: !problems
            else if u <> spec then
              problems := Printf.sprintf "flag:%d:%d:impl=%d:chain=%d:prepaid=%d" (if c then 1 else 0) sh (if u then 1 else 0)
                  (if spec then 1 else 0) (if Hashtbl.mem wi.prepaid sh then 1 else 0) :: !problems) ents;
        Printf.printf "L\t%s\t%d\t%s\t%s\t%s\t%s\t%s\n" !hist !k w filter impl model
          (if !problems = [] then "ok" else String.concat ";" (List.rev !problems))
    | ["E"] -> if !miss then Printf.printf "X\t%s\ttable-miss: the model asked for an address beyond the tabulated %s\n" !hist "range"
    | "X" :: _ -> print_endline ("X\t" ^ line)
    | _ -> ())
