(* replays the histories written by harness/cmd/c07 and harness/cmd/c08 (line format:
   harness/internal/hist/hist.go + importremove.go) on the extracted model
   coq/Ledger/{Model,Spec,Run,Import,Remove}.v.  Parameters: argv.(1) = import batch size (default
   1000), argv.(2) = removal cap per round (default 20000) — the values the harness read from the code.
   stdout, tab separated (impl = what the real wallet did/said, model = what the model says):
     P <hist> <k> <bid> <impl> <model>                      ok | err | panic
     Q <hist> <k> <wid> <quiet> <impl> <model> <spec>       reports ("error" when the wallet cannot be selected)
     Y <hist> <k> <wid> <impl> <model>                      mined staking/binding rows
     M <hist> <k> <wid> <impl ok|fail> <impl status> <model ok|retry|abandon> <model status>
     W <hist> <k> <wid> <impl> <model>                      new/import results
     R <hist> <k> <kind> <wid> <impl> <model>
     L <hist> <k> <impl> <model>        U <hist> <k> <wid> <impl> <model>
     Z <hist> <k> <wid> <impl hits> <model mentions 0|1>
     S/D/V/X lines are passed through *)
let n_of_int i : n = if i = 0 then N0 else Npos (pos_of_za (ZA.of_int i))
let int_of_n (x : n) : int = match x with N0 -> 0 | Npos p -> ZA.to_int (za_of_pos p)
let zs s = z_of_string s
let ni s = n_of_int (int_of_string s)
let batch = if Array.length Sys.argv > 1 then zs Sys.argv.(1) else zs "1000"
let cap = if Array.length Sys.argv > 2 then zs Sys.argv.(2) else zs "20000"
(* argv.(3) = "unfixed": the model of the code as found (before the C08 repairs) *)
(* argv.(3) = "order": repaired, except that Rollback is still sensitive to the order of a block record *)
(* argv.(3) = "chainlookup": repaired, except that removableTxForRemoveWallet still looks the owner of a spent output up on the node's chain;
   argv.(3) = "notip": repaired, except that asyncImport commits whatever chain it read (no comparison of the
   node's block at the batch's upper height with the synced one) *)
let fx =
  if Array.length Sys.argv > 3 && Sys.argv.(3) = "unfixed" then as_found
  else if Array.length Sys.argv > 3 && Sys.argv.(3) = "order" then { repaired with f_rollback_order = false }
  else if Array.length Sys.argv > 3 && Sys.argv.(3) = "chainlookup" then { repaired with f_removable_debit = false }
  else if Array.length Sys.argv > 3 && Sys.argv.(3) = "notip" then { repaired with f_import_tipcheck = false }
  else repaired

let cls_of code param : oclass =
  match code with
  | 0 -> CStd | 1 -> CStaking (zs param) | 2 -> CBindingOld | 3 -> CBindingNew | _ -> CUnsupported

let show_report (r : report) : string =
  let rows = List.map (fun u ->
      (int_of_n u.u_tx, int_of_n u.u_vout,
       Printf.sprintf "%d:%d:%s:%s:%d:%s:%s:%d" (int_of_n u.u_tx) (int_of_n u.u_vout) (string_of_z u.u_amount)
         (string_of_z u.u_height) (int_of_n u.u_sh)
         (ZA.to_string (ZA.logand (za_of_z u.u_maturity) (ZA.of_string "4294967295")))
         (ZA.to_string (ZA.logand (za_of_z u.u_confs) (ZA.of_string "4294967295")))
         (if u.u_spendable then 1 else 0))) r.r_rows in
  let rows = List.sort compare rows in
  String.concat " " ([string_of_z r.r_synced; string_of_z r.r_total; string_of_z r.r_spendable;
                      string_of_z r.r_wstaking; string_of_z r.r_wbinding; string_of_int (List.length rows)]
                     @ List.map (fun (_, _, s) -> s) rows)

let show_status (o : wst option) : string =
  match o with
  | None -> "gone"
  | Some WReady -> "ready"
  | Some WRemoving -> "removing"
  | Some (WImporting k) -> "importing:" ^ string_of_z k

let show_games st w : string =
  let rows = List.map (fun (((((t, v), h), a), sp), bd) ->
      Printf.sprintf "%d:%d:%s:%s:%d:%s" (int_of_n t) (int_of_n v) (string_of_z h) (string_of_z a)
        (if sp then 1 else 0) (if bd then "b" else "s")) (game_rows st w) in
  let rows = List.sort compare rows in
  String.concat " " (string_of_int (List.length rows) :: rows)

let () =
  let hist = ref "" in
  let params = ref { p_cbmat = zs "1000"; p_bindlock = zs "4294967294" } in
  let sim : xsim option ref = ref None in
  let blocks : (int, block) Hashtbl.t = Hashtbl.create 64 in
  let k = ref 0 in
  let last_d = ref "" in
  let cur_b : (int * int * string * int) option ref = ref None in
  let cur_txs : tx list ref = ref [] in
  let cur_t : (int * bool * int * int) option ref = ref None in
  let cur_ins : (n * n) list ref = ref [] in
  let cur_outs : txout list ref = ref [] in
  let flush_tx () =
    match !cur_t with
    | None -> ()
    | Some (tid, cb, _, _) ->
        cur_txs := { t_id = n_of_int tid; t_cb = cb; t_ins = List.rev !cur_ins; t_outs = List.rev !cur_outs } :: !cur_txs;
        cur_t := None; cur_ins := []; cur_outs := [] in
  let flush_block () =
    flush_tx ();
    match !cur_b with
    | None -> ()
    | Some (bid, prev, h, _) ->
        Hashtbl.replace blocks bid { b_id = n_of_int bid; b_prev = n_of_int prev; b_height = zs h; b_txs = List.rev !cur_txs };
        cur_b := None; cur_txs := [] in
  let get () = match !sim with Some s -> s | None -> failwith "no history" in
  let step e = sim := Some (xstep fx !params batch cap (get ()) e) in
  let set_st st = let s = get () in sim := Some { s with xs_st = st } in
  let report_of st w =
    match use_wallet st w with
    | UOk -> show_report (xreport st w)
    | _ -> "error" in
  let broken = ref false in
  iter_lines (fun line ->
   if String.length line > 1 && line.[0] = 'H' && line.[1] = ' ' then broken := false;
   if not !broken then
   try
    let f = String.split_on_char ' ' line in
    (match f with
     | ("T" | "I" | "O") :: _ -> ()
     | _ -> flush_block ());
    match f with
    | ["H"; n] -> hist := n; k := 0; Hashtbl.reset blocks; sim := None
    | ["K"; cb; bl] -> params := { p_cbmat = zs cb; p_bindlock = zs bl }
    | ["G"; g] ->
        let gb = { b_id = n_of_int (int_of_string g); b_prev = n_of_int 0; b_height = zs "0"; b_txs = [] } in
        Hashtbl.replace blocks (int_of_string g) gb;
        sim := Some (xinit_sim [gb])
    | ["S"; "start"] ->
        (* a fresh instance on the node's current chain *)
        let s = get () in
        sim := Some { s with xs_st = xinit s.xs_node; xs_crashed = false };
        print_endline ("S\t" ^ !hist)
    | ["A"; sh; w] -> step (XNewAddr (ni sh, ni w))
    | ["B"; bid; prev; h; ntx] -> cur_b := Some (int_of_string bid, int_of_string prev, h, int_of_string ntx)
    | ["T"; tid; cb; nin; nout] -> flush_tx (); cur_t := Some (int_of_string tid, cb = "1", int_of_string nin, int_of_string nout)
    | ["I"; pt; pv] -> cur_ins := (ni pt, ni pv) :: !cur_ins
    | ["O"; sh; v; c; p] -> cur_outs := { o_sh = ni sh; o_val = zs v; o_class = cls_of (int_of_string c) p } :: !cur_outs
    | ["N"; "attach"; bid] -> step (XAttach (Hashtbl.find blocks (int_of_string bid)))
    | ["N"; "detach"] -> step XDetach
    | ["P"; bid; impl] ->
        let s = get () in
        let b = Hashtbl.find blocks (int_of_string bid) in
        let r = if s.xs_crashed then "dead" else
            match xprocess fx !params s.xs_node s.xs_st b with XOk _ -> "ok" | XErr -> "err" | XPanic -> "panic" in
        incr k;
        Printf.printf "P\t%s\t%d\t%s\t%s\t%s\n" !hist !k bid impl r;
        step (XProcess b)
    | "Q" :: w :: q :: rest ->
        let s = get () in
        let wn = ni w in
        incr k;
        let impl = String.concat " " rest in
        let impl = if String.length impl >= 5 && String.sub impl 0 5 = "error" then "error" else impl in
        Printf.printf "Q\t%s\t%d\t%s\t%s\t%s\t%s\t%s\n" !hist !k w q impl
          (report_of s.xs_st wn)
          (match use_wallet s.xs_st wn with
           | UOk -> show_report (spec_report !params (key_owner s.xs_st) s.xs_node wn)
           | _ -> "error")
    | "Y" :: w :: rest ->
        let s = get () in
        incr k;
        Printf.printf "Y\t%s\t%d\t%s\t%s\t%s\n" !hist !k w (String.concat " " rest) (show_games s.xs_st (ni w))
    | ["W"; "new"; w; pass] ->
        let s = get () in
        incr k;
        let r = match new_wallet s.xs_st (ni w) (ni pass) with Some _ -> "ok" | None -> "err" in
        Printf.printf "W\t%s\t%d\t%s\tok\t%s\n" !hist !k w r;
        step (XNewWallet (ni w, ni pass))
    | "W" :: "import" :: w :: pass :: res :: _ :: shs ->
        let s = get () in
        incr k;
        let shl = List.map ni shs in
        (match res with
         | "ok" ->
             let r = match import_start s.xs_st (ni w) (ni pass) shl with Some _ -> "ok" | None -> "err" in
             Printf.printf "W\t%s\t%d\t%s\tok\t%s\n" !hist !k w r;
             step (XImportStart (ni w, ni pass, shl))
         | _ ->
             (* the discovered hashes are unknown when the import was refused: the model is asked
                whether the wallet is already known *)
             let r = if wallet_known s.xs_st (ni w) then "err" else "ok" in
             Printf.printf "W\t%s\t%d\t%s\t%s\t%s\n" !hist !k w res r)
    | ["M"; w; impl; status] ->
        let s = get () in
        incr k;
        let (st', o) = import_batch fx !params batch s.xs_node s.xs_st (ni w) in
        Printf.printf "M\t%s\t%d\t%s\t%s\t%s\t%s\t%s\n" !hist !k w impl status
          (match o with IOk -> "ok" | IRetry -> "retry" | IAbandon -> "abandon")
          (show_status (status_of st' (ni w)));
        set_st st'
    | ["R"; "req"; w; pass; impl] ->
        let s = get () in
        incr k;
        let (st', r) = remove_request s.xs_st (ni w) (ni pass) in
        Printf.printf "R\t%s\t%d\treq\t%s\t%s\t%s\n" !hist !k w impl
          (match r with ROk -> "ok" | RBadPass -> "badpass" | RUnready -> "unready" | RErr -> "err");
        set_st st'
    | ["R"; "phase1"; w] ->
        let s = get () in
        incr k;
        let st' = remove_phase1 s.xs_st (ni w) in
        Printf.printf "R\t%s\t%d\tphase1\t%s\tremoving\t%s\n" !hist !k w (show_status (status_of st' (ni w)));
        set_st st'
    | ["R"; "round"; w; status] ->
        let s = get () in
        incr k;
        let (st', _) = remove_round fx cap s.xs_node (find_tx s.xs_all) s.xs_st (ni w) in
        Printf.printf "R\t%s\t%d\tround\t%s\t%s\t%s\n" !hist !k w status (show_status (status_of st' (ni w)));
        set_st st'
    | ["R"; "restart"; impl] ->
        incr k;
        step XRestart;
        let s = get () in
        Printf.printf "R\t%s\t%d\trestart\t0\t%s\t%s\n" !hist !k impl (if s.xs_crashed then "panic" else "ok")
    | "L" :: rest ->
        let s = get () in
        incr k;
        let l = List.sort compare (List.map (fun (w, st) -> (int_of_n w, st)) s.xs_st.x_status) in
        Printf.printf "L\t%s\t%d\t%s\t%s\n" !hist !k (String.concat " " rest)
          (String.concat " " (List.map (fun (w, st) -> Printf.sprintf "%d:%s" w (show_status (Some st))) l))
    | ["U"; w; impl] ->
        let s = get () in
        incr k;
        Printf.printf "U\t%s\t%d\t%s\t%s\t%s\n" !hist !k w impl
          (match use_wallet s.xs_st (ni w) with UOk -> "ok" | UUnready -> "unready" | UErr -> "err")
    | "Z" :: w :: _ :: rest ->
        let s = get () in
        incr k;
        (* the script hashes the wallet had are given after a "|" *)
        let rec split acc = function
          | [] -> (List.rev acc, [])
          | "|" :: r -> (List.rev acc, r)
          | x :: r -> split (x :: acc) r in
        let (hits, shs) = split [] rest in
        Printf.printf "Z\t%s\t%d\t%s\t%s\t%d\n" !hist !k w (String.concat " " hits)
          (if mentions s.xs_st (ni w) (List.map ni shs) then 1 else 0)
    | "D" :: rest -> last_d := String.concat " " rest
    | ["F"; "died"; why] ->
        (* the process died after the last danger marker: ask the model about that step *)
        let s = get () in
        incr k;
        (match String.split_on_char ' ' !last_d with
         | ["await"; bid] ->
             let b = Hashtbl.find blocks (int_of_string bid) in
             let r = if s.xs_crashed then "dead" else
                 match xprocess fx !params s.xs_node s.xs_st b with XOk _ -> "ok" | XErr -> "err" | XPanic -> "panic" in
             Printf.printf "P\t%s\t%d\t%s\t%s\t%s\n" !hist !k bid why r;
             step (XProcess b)
         | _ -> Printf.printf "F\t%s\t%d\t%s\t%s\n" !hist !k why !last_d)
    | "V" :: _ -> print_endline ("V\t" ^ !hist ^ "\t" ^ line)
    | "C" :: _ -> print_endline ("C\t" ^ !hist ^ "\t" ^ line)
    | "X" :: _ -> print_endline ("X\t" ^ line)
    | _ -> ()
   with e ->
     (* a truncated history (its process died in the middle of a line): reported, rest of it skipped *)
     broken := true;
     Printf.printf "F\t%s\t%d\tdriver-exception\t%s\n" (if !hist = "" then "-1" else !hist) !k
       (Printexc.to_string e ^ " at: " ^ (if String.length line > 60 then String.sub line 0 60 else line)))
