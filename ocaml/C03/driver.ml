(* C03 driver: replays the harness' lines (W / O / S, see harness/cmd/c03/main.go) on the extracted
   unlock machine and SignRawTx model (perfect-cryptography instance, Keys/Exec.v) and prints, for
   every O and S line,   kind \t hist \t model-outcome \t model-shape \t model-verified \t model-obs.
   argv: "zfix=0" / "pfix=0" / "sfix=0" / "nfix=0" select the models of the code as first found.
   Trusted driver code: parsing, formatting; no model logic. *)
let zfix = ref true
let pfix = ref true
let sfix = ref true
let nfix = ref true
let () = Array.iter (fun a -> if a = "zfix=0" then zfix := false; if a = "pfix=0" then pfix := false; if a = "sfix=0" then sfix := false; if a = "nfix=0" then nfix := false) Sys.argv

let unhexl (h : string) : z list = zlist_of_string (unhex h)
let z_of_i = z_of_int
let addr_of (s : string) : (z * z) option =
  if s = "-" then None else
  match String.split_on_char '.' s with
  | [b; i] -> Some (z_of_string b, z_of_string i)
  | _ -> None

let uerr_name = function
  | EInvalidPassphrase -> "err:invalid-passphrase" | EDecryptFailed -> "err:decrypt-failed"
  | EInvalidDataHash -> "err:invalid-data-hash" | EAccountNotFound -> "err:account-not-found"
  | EBadTiming -> "err:bad-timing" | EChangeNotAllowed -> "err:change-not-allowed"
  | EIllegalNewPubPass -> "err:illegal-new-pubpass" | EDerive -> "err:derive"
let out_name = function
  | OutErr e -> uerr_name e
  | _ -> "ok"
let sres_name = function
  | SOk -> "ok" | SPanic -> "panic"
  | SErr SInvalidFlag -> "err:invalid-flag" | SErr SUtxoNotExists -> "err:utxo-not-exists"
  | SErr SInvalidIndex -> "err:invalid-index" | SErr SDoubleSpend -> "err:double-spend"
  | SErr SNotMine -> "err:not-mine" | SErr (SKeystore e) -> uerr_name e | SErr SEngine -> "err:engine"

let b2i b = if b then "1" else "0"
let obs st =
  let (((((u, mz), hz), br), n), sz) = x_obs st in
  Printf.sprintf "%s,%s,%s,%s,%d,%s" (b2i u) (b2i mz) (b2i hz) (b2i br) (int_of_nat n) (b2i sz)

(* per history: configuration, state, consensus parameters *)
let cfg = ref (x_cfg [] [])
let st = ref (x_init (x_cfg [] []))
let warm = ref (z_of_i 0)
let pend = ref (z_of_i 0)

let rec repeat_z n = if n <= 0 then [] else z_of_i 0 :: repeat_z (n - 1)

let () =
  iter_lines (fun line ->
    match split_tab line with
    | "W" :: _ :: pass :: w :: ph :: addrs :: _ ->
        let known = List.filter_map addr_of (String.split_on_char ',' addrs) in
        cfg := x_cfg (unhexl pass) known; st := x_init !cfg;
        warm := z_of_string w; pend := z_of_string ph
    | "O" :: h :: kind :: pass :: a :: hl :: arg :: _ ->
        let p = unhexl pass in
        let o = (match kind with
          | "sh" -> (match addr_of a with
                     | Some ad -> OSign (p, ad, repeat_z (int_of_string hl))
                     | None -> OSign (p, (z_of_i 9, z_of_i 9), repeat_z (int_of_string hl)))
          | "ex" -> OExport p | "mn" -> OMnemonic p | "ck" -> OCheck p
          | "cp" -> OChangePriv (p, unhexl arg) | "cu" -> OChangePub p
          | _ -> OClear) in
        let ((r, st'), _) = x_step !zfix !sfix !nfix !cfg !st o in
        st := st';
        Printf.printf "O\t%s\t%s\t-\t-\t%s\n" h (out_name r) (obs st')
    | "S" :: h :: pass :: fl :: nout :: inputs :: _ ->
        let descs = if inputs = "-" then [] else String.split_on_char ',' inputs in
        let infos = List.map (fun d ->
          match String.split_on_char ':' d with
          | [kind; cls; frozen; spent; mine; height; sq; wd] ->
              let c = (match cls with "1" -> CStaking (z_of_string frozen) | "2" -> CBinding | _ -> CStd) in
              let ad = addr_of mine in
              let hz = z_of_string height in
              let hgt = if ZA.sign (za_of_z hz) < 0 then None else Some hz in
              let prog = (match ad with Some a -> x_prog a | None -> [z_of_i 0]) in
              let lk = (match kind with
                | "M" -> LMissing | "B" -> LBadIndex
                | _ -> LOut { u_class = c; u_prog = prog; u_value = z_of_i 7; u_height = hgt; u_spent = (spent = "1"); u_addr = ad }) in
              ((lk, z_of_string sq), (ad, wd))
          | _ -> failwith ("bad input description: " ^ d)) descs in
        let wds = List.map snd infos in
        let infos = List.map fst infos in
        let arr = Array.of_list infos in
        let env (op : z * z) : look =
          let i = int_of_z (fst op) in
          if i >= 0 && i < Array.length arr then fst arr.(i) else LMissing in
        let ins = List.mapi (fun i (_, sq) -> { in_prev = (z_of_i i, z_of_i 0); in_seq = sq; in_wit = [] }) infos in
        let outs = List.init (int_of_string nout) (fun i -> [z_of_i i]) in
        let t0 = { t_ins = ins; t_outs = outs; t_rest = [] } in
        (* witnesses an earlier successful call left: rebuilt over the model's signature scheme *)
        let ins = List.mapi (fun i inp ->
          match List.nth wds i with
          | (Some a, wd) when String.length wd > 1 && wd.[0] = 'v' ->
              { inp with in_wit = x_witness a (z_of_string (String.sub wd 1 (String.length wd - 1))) t0 (nat_of_int i) (z_of_i 7) }
          | _ -> inp) ins in
        let t = { t0 with t_ins = ins } in
        let (((r, st'), t'), ret) = x_sign_raw !zfix !sfix !nfix !pfix !cfg !warm !pend env !st (unhexl pass) (unhexl fl) t in
        st := st';
        let shape = (match List.map int_of_nat (wit_shape t') with
                     | [] -> "-" | l -> String.concat "." (List.map string_of_int l)) in
        let ver = (match r with SOk -> if x_verified !pfix !warm !pend env t' then "1" else "0" | _ -> "-") in
        let retok = (match r, ret with SOk, Some _ -> "1" | SOk, None -> "0" | _, None -> "1" | _, Some _ -> "0") in
        Printf.printf "S\t%s\t%s\t%s\t%s\t%s\t%s\n" h (sres_name r) shape ver (obs st') retok
    | _ -> ())
