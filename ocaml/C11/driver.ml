(* C11 driver: reads the harness' lines  "<op> \t <impl result> [\t <ref verdict>]", replays every op on the
   extracted model (KV/Model.v [step]) and prints "<op> \t <model result>".  Parsing and printing only. *)
let bs (h : string) : z list = if h = "-" then [] else zlist_of_string (unhex h)
let hx (l : z list) : string = match l with [] -> "-" | _ -> hex (string_of_zlist l)
let nat_s (s : string) : nat = nat_of_int (int_of_string s)
let wflag (s : string) : bool = (s = "w")
let err_name = function
  | EIllegalKey -> "invalid-key" | EIllegalValue -> "invalid-value" | EBucketExist -> "bucket-exists"
  | EBucketNotFound -> "bucket-not-found" | EInvalidBucketName -> "invalid-name" | EIllegalBucketPath -> "invalid-path"
  | EWriteNotAllowed -> "write-not-allowed" | ENotSupported -> "not-supported" | EClosed -> "closed" | EOther -> "other"
let ents_s (l : (z list * z list) list) : string =
  let l = List.map (fun (k, v) -> (string_of_zlist k, string_of_zlist v)) l in
  let l = List.sort compare l in
  "[" ^ String.concat "," (List.map (fun (k, v) -> (if k = "" then "-" else hex k) ^ "=" ^ (if v = "" then "-" else hex v)) l) ^ "]"
let show (r : res) : string =
  match r with
  | RSkip -> "skip" | ROk -> "ok" | RNil -> "nil"
  | RErr e -> "err:" ^ err_name e
  | RVal v -> "v:" ^ hx v
  | RNames l -> "names:[" ^ String.concat "," (List.map (fun s -> if s = "" then "-" else hex s) (List.sort compare (List.map string_of_zlist l))) ^ "]"
  | REntries l -> "ents:" ^ ents_s l
  | RIter (b, k, v) -> "it:" ^ (if b then "T" else "F") ^ ":" ^ (match k with Some k -> hx k | None -> "nil") ^ ":" ^ hx v
  | RRange (a, l) -> "range:" ^ hx a ^ ":" ^ (match l with Some l -> hx l | None -> "none")
  | RDump l -> "dump:" ^ String.concat ";" (List.map (fun (p, r) ->
        hx p ^ (match r with Ok es -> ents_s es | Err e -> "!err:" ^ err_name e)) l)
let parse (t : string list) : op option =
  match t with
  | ["begin"; w] -> Some (OBegin (wflag w))
  | ["commit"] -> Some OCommit
  | ["rollback"] -> Some ORollback
  | ["rend"] -> Some OREnd
  | ["ubegin"] -> Some OUBegin
  | ["uend"; f] -> Some (OUEnd (f = "1"))
  | ["close"] -> Some OClose
  | ["reopen"] -> Some OReopen
  | ["dump"] -> Some ODump
  | ["top"; w; d; n] -> Some (OTop (wflag w, nat_s d, bs n))
  | ["ctop"; d; n] -> Some (OCreateTop (nat_s d, bs n))
  | ["dtop"; n] -> Some (ODeleteTop (bs n))
  | ["txnames"; w] -> Some (OTxNames (wflag w))
  | ["fetch"; w; d; s] -> Some (OFetch (wflag w, nat_s d, nat_s s))
  | ["new"; d; s; n] -> Some (ONew (nat_s d, nat_s s, bs n))
  | ["bkt"; d; s; n] -> Some (OBucket (nat_s d, nat_s s, bs n))
  | ["delb"; s; n] -> Some (ODelBucket (nat_s s, bs n))
  | ["names"; s] -> Some (ONames (nat_s s))
  | ["put"; s; k; v] -> Some (OPut (nat_s s, bs k, bs v))
  | ["rm"; s; k] -> Some (ODel (nat_s s, bs k))
  | ["get"; s; k] -> Some (OGet (nat_s s, bs k))
  | ["clear"; s] -> Some (OClear (nat_s s))
  | ["pfx"; s; p] -> Some (OPfx (nat_s s, bs p))
  | ["iter"; d; s; m; a; l] -> Some (OIter (nat_s d, nat_s s, nat_s m, bs a, bs l))
  | ["seek"; i; k] -> Some (OSeek (nat_s i, bs k))
  | ["next"; i] -> Some (ONext (nat_s i))
  | ["rel"; i] -> Some (ORelease (nat_s i))
  | ["bp"; p] -> Some (OBytesPrefix (bs p))
  | _ -> None
(* "nosnap": the code as first found (a read transaction reads whatever is committed at each read);
   "noclamp": the batchIterator as first found (Seek / Reset below the range's start leave the range; no merging);
   "nomerge": the levelIterator before the merging repair (a write transaction's iterator yields the committed run
   followed by the run of its net puts) *)
let step_fn =
  if Array.length Sys.argv > 1 && Sys.argv.(1) = "nosnap" then step_unrepaired
  else if Array.length Sys.argv > 1 && Sys.argv.(1) = "noclamp" then step_seek_unrepaired
  else if Array.length Sys.argv > 1 && Sys.argv.(1) = "nomerge" then step_iter_unmerged
  else step
let () =
  let st = ref init_state in
  let out = Buffer.create (1 lsl 20) in
  iter_lines (fun line ->
    let opstr = match split_tab line with o :: _ -> o | [] -> "" in
    let toks = String.split_on_char ' ' opstr in
    (match toks with
     | "reset" :: _ -> st := init_state; Buffer.add_string out (opstr ^ "\tok\n")
     | _ ->
       (match parse toks with
        | Some o -> let (st', r) = step_fn !st o in st := st'; Buffer.add_string out (opstr ^ "\t" ^ show r ^ "\n")
        | None -> Buffer.add_string out (opstr ^ "\tunparsed\n")));
    if Buffer.length out > (1 lsl 19) then (print_string (Buffer.contents out); Buffer.clear out));
  print_string (Buffer.contents out)
