(* C04 driver: reads the harness' D and M lines (harness/cmd/c04/main.go) and prints
     D \t case \t model wallet_id (hex | err | MISS ...) \t b.i:scripthash,... as the model derives them
     M \t case \t create_seed: mnemonic hex ; seed hex \t import_mnemonic_seed(variant): entropy hex ; seed hex
   The primitives of Codec/Bip32.v / Bip39.v / Keys/Derive.v are look-ups in the tables of the line
   (true input->output pairs recorded by the harness' independent implementation); a question that is
   not in the table is printed as MISS (the model asked what nobody anticipated).
   Trusted driver code: parsing, formatting, table lookup; no model logic. *)
exception Miss of string
let tbl : (string, string) Hashtbl.t = Hashtbl.create 1024
let look k = try Hashtbl.find tbl k with Not_found -> raise (Miss k)
let hexl (l : z list) = hex (string_of_zlist l)
let unhexl (h : string) : z list = zlist_of_string (unhex h)
let p_hmac k d = unhexl (look ("K:" ^ hexl k ^ "," ^ hexl d))
let p_mulG (k : z) : string = look ("M:" ^ ZA.format "%x" (za_of_z k))
let p_add (a : string) (b : string) : string = look ("A:" ^ a ^ "," ^ b)
let p_ser (a : string) = unhexl (look ("S:" ^ a))
let p_parse b = match look ("D:" ^ hexl b) with "err" -> None | s -> Some s
let zeros64 = String.make 64 '0'
let p_coord_zero (a : string) = String.sub a 0 64 = zeros64 || String.sub a 64 64 = zeros64
let p_hash160 b = unhexl (look ("H:" ^ hexl b))
let p_sha256 b = unhexl (look ("X:" ^ hexl b))
let load_table (t : string) =
  Hashtbl.reset tbl;
  if t <> "" then
    List.iter (fun e ->
      match String.index_opt e '=' with
      | Some i -> Hashtbl.replace tbl (String.sub e 0 i) (String.sub e (i + 1) (String.length e - i - 1))
      | None -> ()) (String.split_on_char ';' t)
let short k = if String.length k > 60 then String.sub k 0 60 else k
let guard f = try f () with Miss k -> "MISS " ^ short k
let res = function Ok b -> hexl b | Err _ -> "err"

(* BIP-39 tables: h:<in>:<out> (SHA-256), k:<password>:<salt>:<out> (PBKDF2, 2048 rounds, 64 bytes) *)
let parse_t39 (t : string) =
  let h = ref [] and k = ref [] in
  List.iter (fun item ->
    match String.split_on_char ':' item with
    | ["h"; i; o] -> h := (unhex i, unhex o) :: !h
    | ["k"; p; s; o] -> k := ((unhex p, unhex s), unhex o) :: !k
    | _ -> ()) (String.split_on_char ',' t);
  (!h, !k)
let look39 tbl key what = match List.assoc_opt key tbl with Some v -> zlist_of_string v | None -> raise (Miss what)
let show2 = function
  | Ok0 (a, b) -> hexl a ^ ";" ^ hexl b
  | Err0 _ -> "err" | Panic -> "panic"

let () =
  iter_lines (fun line ->
    match split_tab line with
    | "D" :: c :: ver :: seed :: coin :: _ :: addrs :: table :: _ ->
        load_table table;
        let v = unhexl ver and s = unhexl seed and co = z_of_string coin in
        let id = guard (fun () -> res (wallet_id p_hmac p_mulG p_add p_ser p_parse p_coord_zero p_hash160 v s co)) in
        let al = List.map (fun a ->
          match String.split_on_char ':' a with
          | bi :: _ ->
              (match String.split_on_char '.' bi with
               | [b; i] ->
                   bi ^ ":" ^ guard (fun () ->
                     res (wallet_addr p_hmac p_mulG p_add p_ser p_parse p_coord_zero p_hash160 p_sha256 v s co (z_of_string b) (z_of_string i)))
               | _ -> bi ^ ":?")
          | _ -> "?") (String.split_on_char ',' addrs) in
        Printf.printf "D\t%s\t%s\t%s\n" c id (String.concat "," al)
    | "M" :: c :: ent :: pass :: _ :: variant :: _ :: t39 :: _ ->
        let (ht, kt) = parse_t39 t39 in
        let h d = look39 ht (string_of_zlist d) "sha256" in
        let pb p s it kl =
          if za_of_z it = ZA.of_int 2048 && za_of_z kl = ZA.of_int 64
          then look39 kt (string_of_zlist p, string_of_zlist s) "pbkdf2" else raise (Miss "pbkdf2-params") in
        Printf.printf "M\t%s\t%s\t%s\n" c
          (guard (fun () -> show2 (create_seed h pb (unhexl ent) (unhexl pass))))
          (guard (fun () -> show2 (import_mnemonic_seed h pb (unhexl variant) (unhexl pass))))
    | _ -> ())
