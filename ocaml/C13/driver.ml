(* reads the harness' case lines (see harness/cmd/c13/main.go), prints
     E <entropy hex> <model new_mnemonic> <spec_encode>
     D <sentence hex> <entropy_from_mnemonic> <mnemonic_to_byte_array> <.. raw> <is_mnemonic_valid>
       <new_seed_with_error_checking> <new_seed> <spec_decode> <bip39_seed of the words> <canonical>
   The primitives H / PBKDF2 / NFKD of the model are look-ups in the table recorded on the
   case line; a question that is not in the table is answered "miss" (the model and the code
   asked the primitive different questions). Trusted driver code: parsing and printing only. *)
exception Miss
let split_on c s = String.split_on_char c s
let parse_tbl (t : string) =
  let h = ref [] and k = ref [] and n = ref [] in
  if t <> "-" then
    List.iter (fun item ->
      match split_on ':' item with
      | ["h"; i; o] -> h := (unhex i, unhex o) :: !h
      | ["k"; p; s; o] -> k := ((unhex p, unhex s), unhex o) :: !k
      | ["n"; i; o] -> n := (unhex i, unhex o) :: !n
      | _ -> ()) (split_on ',' t);
  (!h, !k, !n)
let lookup tbl key = match List.assoc_opt key tbl with Some v -> zlist_of_string v | None -> raise Miss
let z2048 = z_of_int 2048 and z64 = z_of_int 64
let show_out = function Ok s -> "ok " ^ hex (string_of_zlist s) | Err _ -> "err" | Panic -> "panic"
let show_opt = function Some s -> "ok " ^ hex (string_of_zlist s) | None -> "err"
let guard f = try f () with Miss -> "miss"
(* "unfixed": the seed functions of the code as first found (raw string as PBKDF2 password) *)
let unfixed = Array.length Sys.argv > 1 && Sys.argv.(1) = "unfixed"
let () =
  iter_lines (fun line ->
    match split_tab line with
    | "E" :: _ :: eh :: tbl :: _ ->
        let (ht, _, _) = parse_tbl tbl in
        let h d = lookup ht (string_of_zlist d) in
        let e = zlist_of_string (unhex eh) in
        Printf.printf "E\t%s\t%s\t%s\n" eh
          (guard (fun () -> show_out (new_mnemonic h e)))
          (guard (fun () -> show_out (spec_encode h e)))
    | "D" :: _ :: sh :: ph :: tbl :: _efm :: _mtba :: _raw :: _valid :: _seedchk :: seed :: _odec :: oseed :: _ ->
        let (ht, kt, nt) = parse_tbl tbl in
        let h d = lookup ht (string_of_zlist d) in
        let pb p s it kl =
          if za_of_z it = ZA.of_int 2048 && za_of_z kl = ZA.of_int 64
          then lookup kt (string_of_zlist p, string_of_zlist s) else raise Miss in
        let nf p = lookup nt (string_of_zlist p) in
        let s = zlist_of_string (unhex sh) and p = zlist_of_string (unhex ph) in
        let seeds = seed <> "-" in
        Printf.printf "D\t%s\t%s\t%s\t%s\t%s\t%s\t%s\t%s\t%s\t%s\n" sh
          (guard (fun () -> show_out (entropy_from_mnemonic h s)))
          (guard (fun () -> show_out (mnemonic_to_byte_array h false s)))
          (guard (fun () -> show_out (mnemonic_to_byte_array h true s)))
          (if is_mnemonic_valid s then "true" else "false")
          (if seeds then guard (fun () -> show_out ((if unfixed then new_seed_with_error_checking_unfixed else new_seed_with_error_checking) h pb s p)) else "-")
          (if seeds then guard (fun () -> hex (string_of_zlist ((if unfixed then new_seed_unfixed else new_seed) pb s p))) else "-")
          (guard (fun () -> show_opt (spec_decode h (fields s))))
          (if oseed <> "-" then guard (fun () -> hex (string_of_zlist (bip39_seed pb nf (fields s) p))) else "-")
          (if canonicalb s then "true" else "false")
    | _ -> ())
