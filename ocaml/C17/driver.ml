(* replays the histories written by harness/cmd/c17 (format of harness/internal/hist plus V
   lines) on the extracted Ledger model and evaluates the scheduled queries with
   coq/Sched/Reads.v.  stdout, tab separated:
     V <hist> <k> <kind> <impl answer> <no-snapshot model answer> <nreads impl> <nreads no-snapshot model> <boundary j or -1> <snapshot answer = impl ? 1:0> <immature coins> <sched> <nreads snapshot model>
     Q / P lines as ocaml/C01/driver.ml
   boundary j = some j in [first commit index, last commit index] whose single-boundary answer
   equals the implementation's answer (-1: the answer mixes boundaries).
   Trusted glue: parsing and printing only. *)
let n_of_int i : n = if i = 0 then N0 else Npos (pos_of_za (ZA.of_int i))
let int_of_n (x : n) : int = match x with N0 -> 0 | Npos p -> ZA.to_int (za_of_pos p)
let zs s = z_of_string s
let a1fix = true

let cls_of code param : oclass =
  match code with
  | 0 -> CStd | 1 -> CStaking (zs param) | 2 -> CBindingOld | 3 -> CBindingNew | _ -> CUnsupported

let show_report (r : report) : string =
  let rows = List.map (fun u ->
      (int_of_n u.u_tx, int_of_n u.u_vout,
       Printf.sprintf "%d:%d:%s:%s:%d:%s:%s:%d" (int_of_n u.u_tx) (int_of_n u.u_vout) (string_of_z u.u_amount)
         (string_of_z u.u_height) (int_of_n u.u_sh)
         (ZA.to_string (ZA.logand (za_of_z u.u_maturity) (ZA.of_string "4294967295")))
         (ZA.to_string (ZA.logand (za_of_z u.u_confs) (ZA.of_string "4294967295")))
         (if u.u_spendable then 1 else 0))) r.r_rows in
  let rows = List.sort compare rows in
  String.concat " " ([string_of_z r.r_synced; string_of_z r.r_total; string_of_z r.r_spendable;
                      string_of_z r.r_wstaking; string_of_z r.r_wbinding; string_of_int (List.length rows)]
                     @ List.map (fun (_, _, s) -> s) rows)

let show_ans (a : ans) : string =
  match a with
  | ABal b -> Printf.sprintf "B %s %s %s %s" (string_of_z b.b_total) (string_of_z b.b_spend) (string_of_z b.b_wstake) (string_of_z b.b_wbind)
  | ACoins l ->
    let rows = List.map (fun c ->
        (int_of_n (fst c.cr_op), int_of_n (snd c.cr_op),
         Printf.sprintf "%d:%d:%s:%s:%d:%s:%s" (int_of_n (fst c.cr_op)) (int_of_n (snd c.cr_op)) (string_of_z c.cr_amount)
           (string_of_z c.cr_height) (int_of_n c.cr_sh)
           (ZA.to_string (ZA.logand (za_of_z c.cr_maturity) (ZA.of_string "4294967295")))
           (string_of_z c.cr_confs))) l in
    let rows = List.sort compare rows in
    String.concat " " (["C"; string_of_int (List.length rows)] @ List.map (fun (_, _, s) -> s) rows)

let rec split_bar (l : string list) : string list list =
  match l with
  | [] -> [[]]
  | "|" :: rest -> [] :: split_bar rest
  | x :: rest -> (match split_bar rest with h :: t -> (x :: h) :: t | [] -> [[x]])

let () =
  let hist = ref "" in
  let params = ref { p_cbmat = zs "1000"; p_bindlock = zs "4294967294" } in
  let sim = ref None in
  let blocks : (int, block) Hashtbl.t = Hashtbl.create 64 in
  let k = ref 0 in
  let rank : (int, int) Hashtbl.t = Hashtbl.create 64 in
  let ord (t : n) : n = n_of_int (try Hashtbl.find rank (int_of_n t) with Not_found -> 0) in
  let cur_b : (int * int * string * int) option ref = ref None in
  let cur_txs : tx list ref = ref [] in
  let cur_t : (int * bool * int * int) option ref = ref None in
  let cur_ins : (n * n) list ref = ref [] in
  let cur_outs : txout list ref = ref [] in
  let flush_tx () =
    match !cur_t with
    | None -> ()
    | Some (tid, cb, _, _) ->
        cur_txs := { t_id = n_of_int tid; t_cb = cb; t_ins = List.rev !cur_ins; t_outs = List.rev !cur_outs } :: !cur_txs;
        cur_t := None; cur_ins := []; cur_outs := [] in
  let flush_block () =
    flush_tx ();
    match !cur_b with
    | None -> ()
    | Some (bid, prev, h, _) ->
        Hashtbl.replace blocks bid { b_id = n_of_int bid; b_prev = n_of_int prev; b_height = zs h; b_txs = List.rev !cur_txs };
        cur_b := None; cur_txs := [] in
  let get_sim () = match !sim with Some s -> s | None -> failwith "no history" in
  let do_step e = sim := Some (step !params a1fix (get_sim ()) e) in
  iter_lines (fun line ->
    let f = String.split_on_char ' ' line in
    (match f with
     | ("T" | "I" | "O") :: _ -> ()
     | "B" :: _ -> flush_block ()
     | _ -> flush_block ());
    match f with
    | ["H"; n] -> hist := n; k := 0; Hashtbl.reset blocks; sim := None
    | ["K"; cb; bl] -> params := { p_cbmat = zs cb; p_bindlock = zs bl }
    | ["G"; g] ->
        let gb = { b_id = n_of_int (int_of_string g); b_prev = n_of_int 0; b_height = zs "0"; b_txs = [] } in
        Hashtbl.replace blocks (int_of_string g) gb;
        sim := Some (init_sim gb)
    | ["A"; sh; w] -> do_step (EvOwner (n_of_int (int_of_string sh), n_of_int (int_of_string w)))
    | ["B"; bid; prev; h; ntx] -> cur_b := Some (int_of_string bid, int_of_string prev, h, int_of_string ntx)
    | ["T"; tid; cb; nin; nout] -> flush_tx (); cur_t := Some (int_of_string tid, cb = "1", int_of_string nin, int_of_string nout)
    | ["I"; pt; pv] -> cur_ins := (n_of_int (int_of_string pt), n_of_int (int_of_string pv)) :: !cur_ins
    | ["O"; sh; v; c; p] -> cur_outs := { o_sh = n_of_int (int_of_string sh); o_val = zs v; o_class = cls_of (int_of_string c) p } :: !cur_outs
    | ["N"; "attach"; bid] -> do_step (EvAttach (Hashtbl.find blocks (int_of_string bid)))
    | ["N"; "detach"] -> do_step EvDetach
    | ["P"; bid; impl] ->
        let s = get_sim () in
        let b = Hashtbl.find blocks (int_of_string bid) in
        let r = process !params a1fix (own_of s.s_own) s.s_node s.s_wallet b in
        incr k;
        Printf.printf "P\t%s\t%d\t%s\t%s\t%s\n" !hist !k bid impl (match r with Ok _ -> "ok" | Err _ -> "err");
        do_step (EvProcess b)
    | "Q" :: w :: q :: rest ->
        let s = get_sim () in
        let wn = n_of_int (int_of_string w) in
        incr k;
        Printf.printf "Q\t%s\t%d\t%s\t%s\t%s\t%s\t%s\n" !hist !k w q (String.concat " " rest)
          (show_report (model_report s.s_wallet wn))
          (show_report (spec_report !params (own_of s.s_own) s.s_node wn))
    | "Z" :: ids ->
        Hashtbl.reset rank;
        List.iteri (fun i t -> if t <> "" then Hashtbl.replace rank (int_of_string t) (i + 1)) ids
    | "V" :: rest ->
        (match split_bar rest with
         | [hd; pend; sc; ansl] ->
           (match hd with
            | w :: kind :: minconf :: _nsh :: shs ->
              let s = get_sim () in
              let wn = n_of_int (int_of_string w) in
              let pend = List.map (fun b -> Hashtbl.find blocks (int_of_string b)) (List.tl pend) in
              (* sc = <nreads> <index at BeginReadTx> <index of read 0> ... *)
              let sc_all = List.map int_of_string (List.tl sc) in
              let sched = List.map nat_of_int sc_all in
              let sc_i = List.tl sc_all in
              let q = match kind with
                | "WB" -> QWalletBalance (wn, zs minconf)
                | "AB" -> QAddressBalance (wn, List.map (fun x -> n_of_int (int_of_string x)) shs, zs minconf)
                | "UT" -> QUtxo wn
                | _ -> QSpendable wn in
              let ss = stores_of !params (own_of s.s_own) s.s_node s.s_wallet pend in
              let impl = String.concat " " ansl in
              let model = show_ans (answer ord false ss sched q) in
              let nr = int_of_nat (nreads ord false ss sched q) in
              let lo = List.hd sc_all and hi = List.fold_left max 0 sc_all in
              let boundary = ref (-1) in
              for j = hi downto lo do
                if show_ans (answer_at ord ss (nat_of_int j) q) = impl then boundary := j
              done;
              let snap = show_ans (answer ord true ss sched q) in
              (* coins of the implementation's answer that no store in [lo,hi] allows to spend:
                 evaluated on the model's answer, which is compared with the implementation's *)
              let imm = match answer ord false ss sched q with
                | ACoins l when kind = "SP" ->
                  List.length (List.filter (fun c ->
                      let ok = ref false in
                      for j = lo to hi do if not (immature_at (store_at ss (nat_of_int j)) c) then ok := true done;
                      not !ok) l)
                | _ -> 0 in
              incr k;
              Printf.printf "V\t%s\t%d\t%s\t%s\t%s\t%d\t%d\t%d\t%d\t%d\t%s\t%d\n" !hist !k kind impl model
                (List.length sc_i) nr !boundary (if snap = impl then 1 else 0) imm
                (String.concat "," (List.map string_of_int sc_all))
                (int_of_nat (nreads ord true ss sched q))
            | _ -> print_endline ("X\t" ^ line))
         | _ -> print_endline ("X\t" ^ line))
    | "W" :: rest ->
        (* a scheduled transaction-building call (harness/cmd/c17/build.go), replayed on coq/Sched/Build.v:
           W <hist> <k> <call> <impl result> <model result> <model with kept picks = impl ? 1:0>
             <S/L read transactions impl> <read transactions model> <boundary at which the predicate holds or -1>
             <boundary at which the call run alone gives the implementation's answer or -1> <schedule> <lo> <hi> <other rts> *)
        (match split_bar rest with
         | [hd; pend; rts; res; result] ->
           (match hd with
            | w :: callp :: out :: nout :: userfee :: payload :: _nins :: mins ->
              let call = List.hd (String.split_on_char '@' callp) in
              let s = get_sim () in
              let wn = n_of_int (int_of_string w) in
              let op_of x = match String.split_on_char ':' x with
                | [a; b] -> (n_of_int (int_of_string a), n_of_int (int_of_string b))
                | _ -> failwith "op" in
              let done_ = int_of_string (List.nth pend 1) in
              let pendb = List.map (fun b -> Hashtbl.find blocks (int_of_string b)) (List.tl (List.tl pend)) in
              let ss = stores_of !params (own_of s.s_own) s.s_node s.s_wallet pendb in
              let nd = s.s_node in
              let rt = List.map (fun x ->
                  let kind = String.sub x 0 1 in
                  match String.split_on_char ':' (String.sub x 1 (String.length x - 1)) with
                  | [i; r] -> (kind, int_of_string i, int_of_string r)
                  | _ -> failwith "rt") (List.tl rts) in
              let reserved = List.map op_of (List.tl res) in
              let sl = List.filter (fun (k, _, _) -> k = "S" || k = "L") rt in
              let others = List.length rt - List.length sl in
              let sc_i = List.map (fun (_, i, _) -> i) sl in
              let sched = List.map nat_of_int (if sc_i = [] then [0] else sc_i) in
              let lo = (match rt with (_, i, _) :: _ -> i | [] -> 0) and hi = done_ in
              let q = { q_out = zs out; q_nout = zs nout; q_userfee = zs userfee; q_payload = zs payload } in
              let all _ = true in
              let show_ops l = String.concat " " (List.map (fun (a, b) -> Printf.sprintf "%d:%d" (int_of_n a) (int_of_n b)) l) in
              let show_res (r : bres) = match r with
                | BTx (ins, ch, fee) ->
                  Printf.sprintf "ok %s %s %d %s" (string_of_z fee) (string_of_z (ZA.add (za_of_z (zs out)) (za_of_z ch) |> z_of_za))
                    (List.length ins) (show_ops (List.map (fun c -> c.cr_op) ins))
                | BRefused ov -> if ov then "err overfull" else "err insufficient"
                | BLookup -> "err lookup"
                | BOther -> "err other"
                | BFuel -> "err model-out-of-fuel" in
              let impl = String.concat " " result in
              incr k;
              if call = "MAN" then begin
                let ins = List.map op_of mins in
                let rd j = store_at ss (idx sched j) in
                let (nm, okm) = manual_lookups nd rd (nat_of_int 3) (nat_of_int 0) ins in
                let model = if okm then "ok" else "err lookup" in
                let boundary = match result with
                  | "ok" :: fee :: tot :: _ ->
                    (match manual_boundary nd wn ss (nat_of_int lo) (nat_of_int hi) ins (zs tot) (zs fee) with
                     | Some j -> int_of_nat j | None -> -1)
                  | _ -> -2 in
                Printf.printf "W\t%s\t%d\t%s\t%s\t%s\t0\t%d\t%d\t%d\t-2\t%s\t%d\t%d\t%d\n" !hist !k callp impl model
                  (List.length sl) (int_of_nat nm) boundary
                  (String.concat "," (List.map string_of_int sc_i)) lo hi others
              end else begin
                let (nm, rm) = build_sched ord wn all reserved nd false ss sched q in
                let (_, rk) = build_sched ord wn all reserved nd true ss sched q in
                let model = show_res rm in
                let keepeq = if show_res rk = impl then 1 else 0 in
                (* the call run alone at boundary j *)
                let alone = ref (-1) in
                for j = hi downto lo do
                  let (_, r) = build_sched ord wn all reserved nd false ss [nat_of_int j] q in
                  if show_res r = impl then alone := j
                done;
                let boundary = match result with
                  | "ok" :: fee :: tot :: _n :: ins ->
                    (match tx_boundary ord wn all reserved ss (nat_of_int lo) (nat_of_int hi) (List.map op_of ins) (zs tot) (zs fee) with
                     | Some j -> int_of_nat j | None -> -1)
                  | ["err"; ("insufficient" | "overfull")] ->
                    (match refusal_boundary ord wn all reserved ss (nat_of_int lo) (nat_of_int hi) q with
                     | Some j -> int_of_nat j | None -> -1)
                  | ["err"; "lookup"] ->
                    if lookup_can_fail ord wn all reserved nd ss (nat_of_int lo) (nat_of_int hi) then lo else -1
                  | _ -> -1 in
                Printf.printf "W\t%s\t%d\t%s\t%s\t%s\t%d\t%d\t%d\t%d\t%d\t%s\t%d\t%d\t%d\n" !hist !k callp impl model keepeq
                  (List.length sl) (int_of_nat nm) boundary !alone
                  (String.concat "," (List.map string_of_int sc_i)) lo hi others
              end
            | _ -> print_endline ("X\t" ^ line))
         | _ -> print_endline ("X\t" ^ line))
    | "X" :: _ -> print_endline ("X\t" ^ line)
    | _ -> ())
