(* replays the histories written by harness/cmd/c17 (format of harness/internal/hist plus V
   lines) on the extracted Ledger model and evaluates the scheduled queries with
   coq/Sched/Reads.v.  stdout, tab separated:
     V <hist> <k> <kind> <impl answer> <no-snapshot model answer> <nreads impl> <nreads no-snapshot model> <boundary j or -1> <snapshot answer = impl ? 1:0> <immature coins> <sched> <nreads snapshot model>
     Q / P lines as ocaml/C01/driver.ml
   boundary j = some j in [first commit index, last commit index] whose single-boundary answer
   equals the implementation's answer (-1: the answer mixes boundaries).
   Trusted glue: parsing and printing only. *)
let n_of_int i : n = if i = 0 then N0 else Npos (pos_of_za (ZA.of_int i))
let int_of_n (x : n) : int = match x with N0 -> 0 | Npos p -> ZA.to_int (za_of_pos p)
let zs s = z_of_string s
let a1fix = true

let cls_of code param : oclass =
  match code with
  | 0 -> CStd | 1 -> CStaking (zs param) | 2 -> CBindingOld | 3 -> CBindingNew | _ -> CUnsupported

let show_report (r : report) : string =
  let rows = List.map (fun u ->
      (int_of_n u.u_tx, int_of_n u.u_vout,
       Printf.sprintf "%d:%d:%s:%s:%d:%s:%s:%d" (int_of_n u.u_tx) (int_of_n u.u_vout) (string_of_z u.u_amount)
         (string_of_z u.u_height) (int_of_n u.u_sh)
         (ZA.to_string (ZA.logand (za_of_z u.u_maturity) (ZA.of_string "4294967295")))
         (ZA.to_string (ZA.logand (za_of_z u.u_confs) (ZA.of_string "4294967295")))
         (if u.u_spendable then 1 else 0))) r.r_rows in
  let rows = List.sort compare rows in
  String.concat " " ([string_of_z r.r_synced; string_of_z r.r_total; string_of_z r.r_spendable;
                      string_of_z r.r_wstaking; string_of_z r.r_wbinding; string_of_int (List.length rows)]
                     @ List.map (fun (_, _, s) -> s) rows)

let show_ans (a : ans) : string =
  match a with
  | ABal b -> Printf.sprintf "B %s %s %s %s" (string_of_z b.b_total) (string_of_z b.b_spend) (string_of_z b.b_wstake) (string_of_z b.b_wbind)
  | ACoins l ->
    let rows = List.map (fun c ->
        (int_of_n (fst c.cr_op), int_of_n (snd c.cr_op),
         Printf.sprintf "%d:%d:%s:%s:%d:%s:%s" (int_of_n (fst c.cr_op)) (int_of_n (snd c.cr_op)) (string_of_z c.cr_amount)
           (string_of_z c.cr_height) (int_of_n c.cr_sh)
           (ZA.to_string (ZA.logand (za_of_z c.cr_maturity) (ZA.of_string "4294967295")))
           (string_of_z c.cr_confs))) l in
    let rows = List.sort compare rows in
    String.concat " " (["C"; string_of_int (List.length rows)] @ List.map (fun (_, _, s) -> s) rows)

let rec split_bar (l : string list) : string list list =
  match l with
  | [] -> [[]]
  | "|" :: rest -> [] :: split_bar rest
  | x :: rest -> (match split_bar rest with h :: t -> (x :: h) :: t | [] -> [[x]])

let () =
  let hist = ref "" in
  let params = ref { p_cbmat = zs "1000"; p_bindlock = zs "4294967294" } in
  let sim = ref None in
  let blocks : (int, block) Hashtbl.t = Hashtbl.create 64 in
  let k = ref 0 in
  let rank : (int, int) Hashtbl.t = Hashtbl.create 64 in
  let ord (t : n) : n = n_of_int (try Hashtbl.find rank (int_of_n t) with Not_found -> 0) in
  let cur_b : (int * int * string * int) option ref = ref None in
  let cur_txs : tx list ref = ref [] in
  let cur_t : (int * bool * int * int) option ref = ref None in
  let cur_ins : (n * n) list ref = ref [] in
  let cur_outs : txout list ref = ref [] in
  let flush_tx () =
    match !cur_t with
    | None -> ()
    | Some (tid, cb, _, _) ->
        cur_txs := { t_id = n_of_int tid; t_cb = cb; t_ins = List.rev !cur_ins; t_outs = List.rev !cur_outs } :: !cur_txs;
        cur_t := None; cur_ins := []; cur_outs := [] in
  let flush_block () =
    flush_tx ();
    match !cur_b with
    | None -> ()
    | Some (bid, prev, h, _) ->
        Hashtbl.replace blocks bid { b_id = n_of_int bid; b_prev = n_of_int prev; b_height = zs h; b_txs = List.rev !cur_txs };
        cur_b := None; cur_txs := [] in
  let get_sim () = match !sim with Some s -> s | None -> failwith "no history" in
  let do_step e = sim := Some (step !params a1fix (get_sim ()) e) in
  iter_lines (fun line ->
    let f = String.split_on_char ' ' line in
    (match f with
     | ("T" | "I" | "O") :: _ -> ()
     | "B" :: _ -> flush_block ()
     | _ -> flush_block ());
    match f with
    | ["H"; n] -> hist := n; k := 0; Hashtbl.reset blocks; sim := None
    | ["K"; cb; bl] -> params := { p_cbmat = zs cb; p_bindlock = zs bl }
    | ["G"; g] ->
        let gb = { b_id = n_of_int (int_of_string g); b_prev = n_of_int 0; b_height = zs "0"; b_txs = [] } in
        Hashtbl.replace blocks (int_of_string g) gb;
        sim := Some (init_sim gb)
    | ["A"; sh; w] -> do_step (EvOwner (n_of_int (int_of_string sh), n_of_int (int_of_string w)))
    | ["B"; bid; prev; h; ntx] -> cur_b := Some (int_of_string bid, int_of_string prev, h, int_of_string ntx)
    | ["T"; tid; cb; nin; nout] -> flush_tx (); cur_t := Some (int_of_string tid, cb = "1", int_of_string nin, int_of_string nout)
    | ["I"; pt; pv] -> cur_ins := (n_of_int (int_of_string pt), n_of_int (int_of_string pv)) :: !cur_ins
    | ["O"; sh; v; c; p] -> cur_outs := { o_sh = n_of_int (int_of_string sh); o_val = zs v; o_class = cls_of (int_of_string c) p } :: !cur_outs
    | ["N"; "attach"; bid] -> do_step (EvAttach (Hashtbl.find blocks (int_of_string bid)))
    | ["N"; "detach"] -> do_step EvDetach
    | ["P"; bid; impl] ->
        let s = get_sim () in
        let b = Hashtbl.find blocks (int_of_string bid) in
        let r = process !params a1fix (own_of s.s_own) s.s_node s.s_wallet b in
        incr k;
        Printf.printf "P\t%s\t%d\t%s\t%s\t%s\n" !hist !k bid impl (match r with Ok _ -> "ok" | Err _ -> "err");
        do_step (EvProcess b)
    | "Q" :: w :: q :: rest ->
        let s = get_sim () in
        let wn = n_of_int (int_of_string w) in
        incr k;
        Printf.printf "Q\t%s\t%d\t%s\t%s\t%s\t%s\t%s\n" !hist !k w q (String.concat " " rest)
          (show_report (model_report s.s_wallet wn))
          (show_report (spec_report !params (own_of s.s_own) s.s_node wn))
    | "Z" :: ids ->
        Hashtbl.reset rank;
        List.iteri (fun i t -> if t <> "" then Hashtbl.replace rank (int_of_string t) (i + 1)) ids
    | "V" :: rest ->
        (match split_bar rest with
         | [hd; pend; sc; ansl] ->
           (match hd with
            | w :: kind :: minconf :: _nsh :: shs ->
              let s = get_sim () in
              let wn = n_of_int (int_of_string w) in
              let pend = List.map (fun b -> Hashtbl.find blocks (int_of_string b)) (List.tl pend) in
              (* sc = <nreads> <index at BeginReadTx> <index of read 0> ... *)
              let sc_all = List.map int_of_string (List.tl sc) in
              let sched = List.map nat_of_int sc_all in
              let sc_i = List.tl sc_all in
              let q = match kind with
                | "WB" -> QWalletBalance (wn, zs minconf)
                | "AB" -> QAddressBalance (wn, List.map (fun x -> n_of_int (int_of_string x)) shs, zs minconf)
                | "UT" -> QUtxo wn
                | _ -> QSpendable wn in
              let ss = stores_of !params (own_of s.s_own) s.s_node s.s_wallet pend in
              let impl = String.concat " " ansl in
              let model = show_ans (answer ord false ss sched q) in
              let nr = int_of_nat (nreads ord false ss sched q) in
              let lo = List.hd sc_all and hi = List.fold_left max 0 sc_all in
              let boundary = ref (-1) in
              for j = hi downto lo do
                if show_ans (answer_at ord ss (nat_of_int j) q) = impl then boundary := j
              done;
              let snap = show_ans (answer ord true ss sched q) in
              (* coins of the implementation's answer that no store in [lo,hi] allows to spend:
                 evaluated on the model's answer, which is compared with the implementation's *)
              let imm = match answer ord false ss sched q with
                | ACoins l when kind = "SP" ->
                  List.length (List.filter (fun c ->
                      let ok = ref false in
                      for j = lo to hi do if not (immature_at (store_at ss (nat_of_int j)) c) then ok := true done;
                      not !ok) l)
                | _ -> 0 in
              incr k;
              Printf.printf "V\t%s\t%d\t%s\t%s\t%s\t%d\t%d\t%d\t%d\t%d\t%s\t%d\n" !hist !k kind impl model
                (List.length sc_i) nr !boundary (if snap = impl then 1 else 0) imm
                (String.concat "," (List.map string_of_int sc_all))
                (int_of_nat (nreads ord true ss sched q))
            | _ -> print_endline ("X\t" ^ line))
         | _ -> print_endline ("X\t" ^ line))
    | "X" :: _ -> print_endline ("X\t" ^ line)
    | _ -> ())
