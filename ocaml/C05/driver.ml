(* C05 driver (the C03 driver plus the row table): replays the harness' lines (W / A / O / K, see harness/cmd/c05/main.go; S as in cmd/c03) on the extracted
   unlock machine and SignRawTx model (perfect-cryptography instance, Keys/Exec.v) and prints, for
   every O and S line,   kind \t hist \t model-outcome \t model-shape \t model-verified \t model-obs.
   argv: "zfix=0" / "pfix=0" / "sfix=0" / "nfix=0" select the models of the code as first found.
   Lines MW / MO (harness/cmd/c05/manager.go, the keystore manager family) are replayed on the extracted
   manager model (Keys/Manager.v, Keys/ExecManager.v), see below; "cfix=0" selects its variant.
   Trusted driver code: parsing, formatting; no model logic. *)
let zfix = ref true
let pfix = ref true
let sfix = ref true
let nfix = ref true
let cfix = ref true   (* "cfix=0": the variant of Keys/Manager.v where ClearPrivKey clears only the keystore in use *)
let () = Array.iter (fun a -> if a = "zfix=0" then zfix := false; if a = "pfix=0" then pfix := false; if a = "sfix=0" then sfix := false; if a = "nfix=0" then nfix := false; if a = "cfix=0" then cfix := false) Sys.argv

let unhexl (h : string) : z list = zlist_of_string (unhex h)
let hexl (l : z list) = hex (string_of_zlist l)
let z_of_i = z_of_int
let addr_of (s : string) : (z * z) option =
  if s = "-" then None else
  match String.split_on_char '.' s with
  | [b; i] -> Some (z_of_string b, z_of_string i)
  | _ -> None

let uerr_name = function
  | EInvalidPassphrase -> "err:invalid-passphrase" | EDecryptFailed -> "err:decrypt-failed"
  | EInvalidDataHash -> "err:invalid-data-hash" | EAccountNotFound -> "err:account-not-found"
  | EBadTiming -> "err:bad-timing" | EChangeNotAllowed -> "err:change-not-allowed"
  | EIllegalNewPubPass -> "err:illegal-new-pubpass" | EDerive -> "err:derive"
let out_name = function
  | OutErr e -> uerr_name e
  | _ -> "ok"
let sres_name = function
  | SOk -> "ok" | SPanic -> "panic"
  | SErr SInvalidFlag -> "err:invalid-flag" | SErr SUtxoNotExists -> "err:utxo-not-exists"
  | SErr SInvalidIndex -> "err:invalid-index" | SErr SDoubleSpend -> "err:double-spend"
  | SErr SNotMine -> "err:not-mine" | SErr (SKeystore e) -> uerr_name e | SErr SEngine -> "err:engine"

let b2i b = if b then "1" else "0"
let obs st =
  let (((((u, mz), hz), br), n), sz) = x_obs st in
  Printf.sprintf "%s,%s,%s,%s,%d,%s" (b2i u) (b2i mz) (b2i hz) (b2i br) (int_of_nat n) (b2i sz)

(* per history: configuration, state, consensus parameters *)
let cfg = ref (x_cfg [] [])
let st = ref (x_init (x_cfg [] []))
let warm = ref (z_of_i 0)
let pend = ref (z_of_i 0)

let rec repeat_z n = if n <= 0 then [] else z_of_i 0 :: repeat_z (n - 1)

(* ---- the keystore manager family (lines MW / MO of harness/cmd/c05/manager.go) ----
   MW  hist  wallets                 wallets = idx:passhex:b.i;b.i,...   a manager (re)starts: fresh keystores, nothing in use
   MO  hist  kind  wallet  pass(hex)  arg  ...
       kind use (UseKeystoreForWallet wallet) | sh (SignHash, arg = w.b.i:hashlen) | cl (ClearPrivKey)
            ex | mn | ck (ExportKeystore / GetMnemonic / CheckPrivPassphrase of wallet)
            raw (SignRawTx, arg = inputs#last; inputs ';'-separated  s+s@w.b.i  (selection changes before
                 the input @ address of the spent output), last = s+s (selection changes before the deferred clearing))
   answer: MO \t hist \t outcome \t obs   with obs = selection|state of keystore 1|state of keystore 2|... *)
let mst = ref (x_mfresh [])
let nonempty l = List.filter (fun s -> s <> "" && s <> "-") l
let gname (s : string) : z =
  match String.split_on_char '.' s with
  | [w; b; i] -> x_name (z_of_string w) (z_of_string b, z_of_string i)
  | _ -> failwith ("bad address: " ^ s)
let ids_of (s : string) : z list = List.map z_of_string (nonempty (String.split_on_char '+' s))
let mout_name = function
  | MRes o -> out_name o
  | MSigs _ -> "ok"
  | MRefused MNoWalletInUse -> "err:no-wallet-in-use"
  | MRefused MUtxoNotExists -> "err:utxo-not-exists"
  | MRefused MNotMine -> "err:not-mine"
let mobs m =
  let (cur, l) = x_mobs m in
  String.concat "|" ((match cur with None -> "-" | Some id -> string_of_z id) ::
    List.map (fun (_, (((((u, mz), hz), br), n), sz)) ->
      Printf.sprintf "%s,%s,%s,%s,%d,%s" (b2i u) (b2i mz) (b2i hz) (b2i br) (int_of_nat n) (b2i sz)) l)

let () =
  iter_lines (fun line ->
    match split_tab line with
    | "W" :: _ :: pass :: w :: ph :: addrs :: _ ->
        let known = List.filter_map addr_of (String.split_on_char ',' addrs) in
        cfg := x_cfg (unhexl pass) known; st := x_init !cfg;
        warm := z_of_string w; pend := z_of_string ph
    | "MW" :: _ :: wallets :: _ ->
        let ws = List.map (fun w ->
          match String.split_on_char ':' w with
          | [idx; pass; addrs] ->
              (z_of_string idx, x_cfg (unhexl pass) (List.filter_map addr_of (nonempty (String.split_on_char ';' addrs))))
          | _ -> failwith ("bad wallet: " ^ w)) (nonempty (String.split_on_char ',' wallets)) in
        mst := x_mfresh ws
    | "MO" :: h :: kind :: wallet :: pass :: arg :: _ ->
        let p = unhexl pass in
        let wid = if wallet = "-" || wallet = "" then z_of_i 0 else z_of_string wallet in
        let o = (match kind with
          | "use" -> WOp (MUse wid)
          | "sh" -> (match String.split_on_char ':' arg with
                     | [a; hl] -> WOp (MSign (p, gname a, repeat_z (int_of_string hl)))
                     | _ -> failwith ("bad sh argument: " ^ arg))
          | "cl" -> WOp MClear
          | "ex" -> WOp (MExport (wid, p)) | "mn" -> WOp (MMnemonic (wid, p)) | "ck" -> WOp (MCheck (wid, p))
          | "raw" ->
              (match String.split_on_char '#' arg with
               | [ins; last] ->
                   let ins = List.map (fun d ->
                     match String.split_on_char '@' d with
                     | [sw; a] -> (((ids_of sw, []), gname a), repeat_z 32)
                     | _ -> failwith ("bad input: " ^ d)) (nonempty (String.split_on_char ';' ins)) in
                   WSignRaw (p, ins, ids_of last)
               | _ -> failwith ("bad raw argument: " ^ arg))
          | _ -> failwith ("bad manager operation: " ^ kind)) in
        let (r, m') = x_wstep !zfix !sfix !nfix !cfix !mst o in
        mst := m';
        Printf.printf "MO\t%s\t%s\t%s\n" h (mout_name r) (mobs m')
    | "O" :: h :: kind :: pass :: a :: hl :: arg :: _ ->
        let p = unhexl pass in
        let o = (match kind with
          | "sh" -> (match addr_of a with
                     | Some ad -> OSign (p, ad, repeat_z (int_of_string hl))
                     | None -> OSign (p, (z_of_i 9, z_of_i 9), repeat_z (int_of_string hl)))
          | "ex" -> OExport p | "mn" -> OMnemonic p | "ck" -> OCheck p
          | "cp" -> OChangePriv (p, unhexl arg) | "cu" -> OChangePub p
          | _ -> OClear) in
        let ((r, st'), _) = x_step !zfix !sfix !nfix !cfg !st o in
        st := st';
        Printf.printf "O\t%s\t%s\t-\t-\t%s\n" h (out_name r) (obs st')
    | "S" :: h :: pass :: fl :: nout :: inputs :: _ ->
        let descs = if inputs = "-" then [] else String.split_on_char ',' inputs in
        let infos = List.map (fun d ->
          match String.split_on_char ':' d with
          | [kind; cls; frozen; spent; mine; height; sq; wd] ->
              let c = (match cls with "1" -> CStaking (z_of_string frozen) | "2" -> CBinding | _ -> CStd) in
              let ad = addr_of mine in
              let hz = z_of_string height in
              let hgt = if ZA.sign (za_of_z hz) < 0 then None else Some hz in
              let prog = (match ad with Some a -> x_prog a | None -> [z_of_i 0]) in
              let lk = (match kind with
                | "M" -> LMissing | "B" -> LBadIndex
                | _ -> LOut { u_class = c; u_prog = prog; u_value = z_of_i 7; u_height = hgt; u_spent = (spent = "1"); u_addr = ad }) in
              ((lk, z_of_string sq), (ad, wd))
          | _ -> failwith ("bad input description: " ^ d)) descs in
        let wds = List.map snd infos in
        let infos = List.map fst infos in
        let arr = Array.of_list infos in
        let env (op : z * z) : look =
          let i = int_of_z (fst op) in
          if i >= 0 && i < Array.length arr then fst arr.(i) else LMissing in
        let ins = List.mapi (fun i (_, sq) -> { in_prev = (z_of_i i, z_of_i 0); in_seq = sq; in_wit = [] }) infos in
        let outs = List.init (int_of_string nout) (fun i -> [z_of_i i]) in
        let t0 = { t_ins = ins; t_outs = outs; t_rest = [] } in
        (* witnesses an earlier successful call left: rebuilt over the model's signature scheme *)
        let ins = List.mapi (fun i inp ->
          match List.nth wds i with
          | (Some a, wd) when String.length wd > 1 && wd.[0] = 'v' ->
              { inp with in_wit = x_witness a (z_of_string (String.sub wd 1 (String.length wd - 1))) t0 (nat_of_int i) (z_of_i 7) }
          | _ -> inp) ins in
        let t = { t0 with t_ins = ins } in
        let (((r, st'), t'), ret) = x_sign_raw !zfix !sfix !nfix !pfix !cfg !warm !pend env !st (unhexl pass) (unhexl fl) t in
        st := st';
        let shape = (match List.map int_of_nat (wit_shape t') with
                     | [] -> "-" | l -> String.concat "." (List.map string_of_int l)) in
        let ver = (match r with SOk -> if x_verified !pfix !warm !pend env t' then "1" else "0" | _ -> "-") in
        let retok = (match r, ret with SOk, Some _ -> "1" | SOk, None -> "0" | _, None -> "1" | _, Some _ -> "0") in
        Printf.printf "S\t%s\t%s\t%s\t%s\t%s\t%s\n" h (sres_name r) shape ver (obs st') retok
    | "A" :: _ :: addrs :: _ ->
        (* the manager issued addresses: same state, more known addresses *)
        let known = List.filter_map addr_of (String.split_on_char ',' addrs) in
        cfg := { !cfg with c_known = known }
    | "K" :: h :: step :: _ :: entlen :: remlen :: coin :: addrs :: _ ->
        (* the rows the model expects under k/km/<id>: sub:key:len:enc *)
        let al = List.filter_map addr_of (String.split_on_char ',' addrs) in
        let rows = x_rows (nat_of_int (int_of_string entlen)) (nat_of_int (int_of_string remlen)) (z_of_string coin) al in
        let items = List.map (fun (((sub, key), len), enc) ->
          Printf.sprintf "%s:%s:%d:%s" (hexl sub) (hexl key) (int_of_nat len) (b2i enc)) rows in
        Printf.printf "K\t%s\t%s\t%s\n" h step (String.concat "," (List.sort compare items))
    | _ -> ())
