(* reads the harness' case lines (kind \t input \t impl-result), prints
   kind \t input \t model-result \t spec-result  *)
let show_z = function Some v -> "ok " ^ string_of_z v | None -> "err"
let show_s = function Some s -> "ok " ^ hex (string_of_zlist s) | None -> "err"
let unfixed = Array.length Sys.argv > 1 && Sys.argv.(1) = "unfixed"
let () =
  iter_lines (fun line ->
    match split_tab line with
    | "P" :: h :: _ ->
        let s = zlist_of_string (unhex h) in
        let m = if unfixed then parse_amount_unfixed s else parse_amount s in
        Printf.printf "P\t%s\t%s\t%s\n" h (show_z m) (show_z (spec_parse s))
    | (("F" | "G") as k) :: d :: _ ->
        let m = z_of_string d in
        let spec = if ZA.sign (za_of_z m) >= 0 && ZA.leq (za_of_z m) (za_of_z max_amount) then Some (canon m) else None in
        Printf.printf "%s\t%s\t%s\t%s\n" k d (show_s (format_amount m)) (show_s spec)
    | "D" :: l :: _ ->
        (* the API layer: every output formatted, the call refused when one of them is out of range *)
        let ms = List.map z_of_string (String.split_on_char ',' l) in
        let all f = let rs = List.map f ms in
          if List.exists (fun r -> r = None) rs then "err"
          else "ok " ^ String.concat "," (List.map (function Some s -> hex (string_of_zlist s) | None -> "") rs) in
        let spec m = if ZA.sign (za_of_z m) >= 0 && ZA.leq (za_of_z m) (za_of_z max_amount) then Some (canon m) else None in
        Printf.printf "D\t%s\t%s\t%s\n" l (all format_amount) (all spec)
    | _ -> ())
