(* C02 driver: reads the harness' case lines (see harness/cmd/c02/main.go for the format), runs the
   extracted model (coq/Tx) and the extracted property predicates on them, prints per line
     kind \t tag \t implementation (canonical) \t model (canonical) \t predicate result
   Trusted glue only: parsing, canonical printing (sorting), no model logic. *)

let zs = z_of_string
let sz = string_of_z
let split c s = if s = "" || s = "-" then [] else String.split_on_char c s
let zlist s = List.map zs (split ',' s)
let csv l = if l = [] then "-" else String.concat "," l
let b01 s = s = "1"
let rec nat_of_int n = if n <= 0 then O else S (nat_of_int (n - 1))
let rec int_of_nat = function O -> 0 | S n -> 1 + int_of_nat n
let cmpz a b = ZA.compare (za_of_z a) (za_of_z b)
let sort_z l = List.sort cmpz l
let amt_id (x : z) = x

let errname = function
  | EInsufficient -> "insufficient" | EOverfull -> "overfull" | EInvalid -> "invalid"
  | EDust -> "dust" | EOther -> "other" | EOutOfFuel -> "out-of-fuel"

(* ---- parsing of wallet cases *)
let parse_utxo s =
  match String.split_on_char ':' s with
  | [id; a; sh; confs; mat; cls; sp; su] ->
    { u_id = zs id; u_amt = zs a; u_sh = zs sh; u_confs = zs confs; u_mat = zs mat; u_class = zs cls;
      u_spent = b01 sp; u_su = b01 su }
  | _ -> failwith ("bad utxo " ^ s)
let parse_dest_val s =
  match String.split_on_char ':' s with
  | [c; sh; p; v] -> ({ d_class = zs c; d_sh = zs sh; d_par = zs p }, zs v)
  | _ -> failwith ("bad output " ^ s)
let opt_z s = if s = "-" then None else Some (zs s)
let show_dest d = Printf.sprintf "%s:%s:%s" (sz d.d_class) (sz d.d_sh) (sz d.d_par)
let show_dv (d, v) = show_dest d ^ ":" ^ sz v

let parse_areq s =
  match String.split_on_char '|' s with
  | [outs; ok; fee; lock; from; change; cok; payload] ->
    { a_outs = List.map parse_dest_val (split ';' outs); a_outs_ok = b01 ok; a_userfee = zs fee;
      a_locktime = zs lock; a_from = opt_z from; a_change = opt_z change; a_change_ok = b01 cok;
      a_payload = zs payload }
  | _ -> failwith ("bad auto request " ^ s)

let parse_minput s =
  if s = "B" then MBadTxid else if s = "U" then MUnknown else if s = "V" then MVoutOOR
  else match String.split_on_char ':' s with
    | [id; a; sh; cls; fr; h; mined; parse; owned] ->
      MOut { k_id = zs id; k_amt = zs a; k_sh = zs sh; k_class = zs cls; k_frozen = zs fr; k_height = zs h;
             k_mined = b01 mined; k_parse = b01 parse; k_owned = b01 owned }
    | _ -> failwith ("bad manual input " ^ s)
let parse_pair s = match String.split_on_char ':' s with [a; b] -> (zs a, zs b) | _ -> failwith ("bad pair " ^ s)
let parse_mreq ins s =
  match String.split_on_char '|' s with
  | [amounts; aok; lock; change; cok; sub] ->
    { m_ins = List.map parse_minput (split ',' ins); m_amounts = List.map parse_pair (split ';' amounts);
      m_amounts_ok = b01 aok; m_locktime = zs lock; m_change = opt_z change; m_change_ok = b01 cok;
      m_subfee = zlist sub }
  | _ -> failwith ("bad manual request " ^ s)

(* implementation observation:  ok|fee|id:seq,...|cls:sh:par:val;...   or  err|class  or panic *)
type obs = OTx of otx | OErr of string | OPanic
let parse_obs s =
  match String.split_on_char '|' s with
  | ["ok"; fee; ins; outs] ->
    OTx { t_ins = List.map parse_pair (split ',' ins); t_outs = List.map parse_dest_val (split ';' outs); t_fee = zs fee }
  | ["err"; c] -> OErr c
  | ["panic"] -> OPanic
  | _ -> failwith ("bad observation " ^ s)

let rec take n l = if n <= 0 then [] else match l with [] -> [] | x :: t -> x :: take (n - 1) t
let rec drop n l = if n <= 0 then l else match l with [] -> [] | _ :: t -> drop (n - 1) t

(* canonical form of an automatically built transaction: fee, sorted input amounts, sorted requested
   part, change value. (Which of several equal coins is taken is not compared; the predicates are.) *)
let canon_auto (st : wstate) nreq (t : otx) =
  let amts = List.map (fun (id, _) -> match find_utxo id st.w_utxos with Some u -> sz u.u_amt | None -> "?" ^ sz id) t.t_ins in
  let amts = List.sort (fun a b -> compare (String.length a, a) (String.length b, b)) amts in
  let reqp = List.sort compare (List.map show_dv (take nreq t.t_outs)) in
  let extra = drop nreq t.t_outs in
  Printf.sprintf "ok|fee=%s|in=%s|out=%s|change=%s" (sz t.t_fee) (csv amts) (csv reqp)
    (match extra with [] -> "-" | l -> String.concat "+" (List.map (fun (_, v) -> sz v) l))
let canon_manual nreq (t : otx) =
  let reqp = List.sort compare (List.map show_dv (take nreq t.t_outs)) in
  let extra = drop nreq t.t_outs in
  Printf.sprintf "ok|fee=%s|in=%s|out=%s|change=%s" (sz t.t_fee)
    (csv (List.map (fun (id, s) -> sz id ^ ":" ^ sz s) t.t_ins)) (csv reqp)
    (match extra with [] -> "-" | l -> String.concat "+" (List.map show_dv l))
let show_clauses l = if l = [] then "holds" else "fails:" ^ String.concat "," (List.map sz l)

let () =
  iter_lines (fun line ->
    match split_tab line with
    | "C" :: k :: mr :: ms :: ma :: _ ->
      Printf.printf "C\t-\t%s|%s|%s|%s\t%d|%s|%s|%s\t-\n" k mr ms ma
        (int_of_nat sel_k) (sz min_relay) (sz max_standard_tx_size) (sz max_amount)
    | "S" :: tag :: k :: req :: amts :: impl :: _ ->
      let kk = if k = "-1" then sel_k else nat_of_int (int_of_string k) in
      let l = zlist amts in
      let s = tk_run amt_id kk (zs req) l in
      let m = Printf.sprintf "b=%s;g=%s" (csv (List.map sz s.tk_base))
          (match s.tk_guard with Some g -> sz g | None -> "-") in
      (* predicate on the implementation's observation: it keeps the k largest coins not above the
         required amount and the smallest coin above it *)
      let spec = List.map sz (sort_z (top_k_spec amt_id kk (zs req) l)) in
      let got =
        try
          match String.split_on_char ';' impl with
          | [b; g] ->
            let b = String.sub b 2 (String.length b - 2) and g = String.sub g 2 (String.length g - 2) in
            List.map sz (sort_z (zlist b @ (if g = "-" then [] else [zs g])))
          | _ -> ["?"]
        with _ -> ["?"] in
      Printf.printf "S\t%s\t%s\t%s\t%s\n" tag impl m (if spec = got then "holds" else "fails:spec")
    | "O" :: tag :: amount :: amts :: impl :: _ ->
      let l = zlist amts in
      let m = match opt_outputs amt_id max_amount (zs amount) l with
        | Some sel -> Printf.sprintf "ok:%s:%s" (csv (List.map sz sel)) (sz (sum_amt amt_id sel))
        | None -> "err" in
      (* predicate: enough in total -> the selection reaches the amount; selection is part of the input *)
      let p = match impl with
        | "err" -> "holds"
        | _ -> (match String.split_on_char ':' impl with
            | ["ok"; sel; sum] ->
              let sel = zlist sel in
              let total = List.fold_left (fun a x -> ZA.add a (za_of_z x)) ZA.zero l in
              let ssum = List.fold_left (fun a x -> ZA.add a (za_of_z x)) ZA.zero sel in
              let sub =
                let rec rm x = function [] -> None | y :: t -> if cmpz x y = 0 then Some t else (match rm x t with Some t' -> Some (y :: t') | None -> None) in
                let rec go s pool = match s with [] -> true | x :: t -> (match rm x pool with Some p -> go t p | None -> false) in
                go sel l in
              if not sub then "fails:not-a-subset"
              else if ZA.to_string ssum <> sum then "fails:sum"
              else if ZA.sign (za_of_z (zs amount)) > 0 && ZA.geq total (za_of_z (zs amount)) && ZA.lt ssum (za_of_z (zs amount)) then "fails:short"
              else "holds"
            | _ -> "fails:format") in
      Printf.printf "O\t%s\t%s\t%s\t%s\n" tag impl m p
    | "F" :: tag :: fee :: amounts :: sel :: impl :: _ ->
      let am = List.map parse_pair (split ';' amounts) in
      let m = match maybe_subtract_fee am (zlist sel) (zs fee) with
        | Ok (na, total) ->
          let na = List.sort (fun (a, _) (b, _) -> cmpz a b) na in
          Printf.sprintf "ok:%s:%s" (csv (List.map (fun (a, v) -> sz a ^ "=" ^ sz v) na)) (sz total)
        | Err e -> "err:" ^ errname e
        | Panic -> "panic" in
      Printf.printf "F\t%s\t%s\t%s\t-\n" tag impl m
    | "R" :: tag :: size :: impl :: _ ->
      Printf.printf "R\t%s\t%s\t%s\t-\n" tag impl (sz (required_fee (zs size)))
    | "E" :: tag :: nin :: nout :: impl :: _ ->
      Printf.printf "E\t%s\t%s\t%s\t-\n" tag impl (sz (estimate_signed_size (zs nin) (zs nout) Z0))
    | "A" :: tag :: utxos :: addrs :: reserved :: req :: impl :: _ ->
      let st = { w_utxos = List.map parse_utxo (split ',' utxos); w_addrs = zlist addrs;
                 w_reserved = zlist reserved; w_pool = [] } in
      let r = parse_areq req in
      let nreq = List.length r.a_outs in
      let m = match auto_create st r with
        | Ok (t, _) -> canon_auto st nreq t
        | Err e -> "err|" ^ errname e
        | Panic -> "panic" in
      let (i, p) = match parse_obs impl with
        | OTx t -> (canon_auto st nreq t, show_clauses (auto_tx_check st r t))
        | OErr c when c = "insufficient" || c = "overfull" -> ("err|" ^ c, "slack:" ^ sz (auto_slack_class st r))
        | OErr c -> ("err|" ^ c, "-")
        | OPanic -> ("panic", "-") in
      Printf.printf "A\t%s\t%s\t%s\t%s\n" tag i m p
    | "M" :: tag :: ins :: req :: impl :: _ ->
      let r = parse_mreq ins req in
      let nreq = List.length r.m_amounts in
      let m = match create_raw_sel r with
        | Ok (t, _) -> canon_manual nreq t
        | Err e -> "err|" ^ errname e
        | Panic -> "panic" in
      let (i, p) = match parse_obs impl with
        | OTx t -> (canon_manual nreq t, show_clauses (manual_tx_check r t))
        | OErr c when c = "insufficient" -> ("err|" ^ c, "slack:" ^ sz (manual_slack_class r))
        | OErr c -> ("err|" ^ c, "-")
        | OPanic -> ("panic", "-") in
      let old = if Array.length Sys.argv > 1 && Sys.argv.(1) = "unfixed" then
          (match create_raw_sel_unfixed r with Ok (t, _) -> "\t" ^ canon_manual nreq t | Err e -> "\terr|" ^ errname e | Panic -> "\tpanic") else "" in
      Printf.printf "M\t%s\t%s\t%s\t%s%s\n" tag i m p old
    | "X" :: rest -> Printf.printf "X\t%s\t-\t-\t-\n" (String.concat " " rest)
    | _ -> ())
