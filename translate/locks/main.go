// locks: reads the Go source of /repo (go/parser, go/ast only) and emits coq/Gen/Locks.v: the table
//   (shared variable, access site, read/write, thread role, locks held)
// for every syntactic access to a field of NtfnsHandler, WalletManager, KeystoreManager,
// AddrManager and UtxoStore.
//
// What "locks held" means here: the mutex Lock/RLock .. Unlock/RUnlock pairs (or `defer Unlock`)
// that syntactically enclose the access inside its function, plus the locks held at every call
// site through which the function is reached from a thread root (call graph over methods of the
// structs of masswallet, masswallet/keystore, masswallet/txmgr; function literals passed to a call
// are analysed at the call). The suspend/resume hand-shake of ntfnshandler.go is tracked as a
// pseudo lock "handshake": held by the worker between h.suspend(..) and h.resume(..) (a deferred
// resume holds it to the end of the function) and by the handler goroutine throughout (it is
// parked exactly while the worker holds it: theorem C20_handshake_exclusion).
// Thread roots: handle -> role H, worker -> role K, exported WalletManager methods and the node
// callbacks OnBlockConnected/OnTransactionReceived -> role A (any number of concurrent clients),
// constructors and Start -> role I (run before the goroutines exist), Stop/CloseDB -> role S.
//
// The translator fails (exit 1) when it cannot find its anchors (the five structs, handle, worker).
package main

import (
	"fmt"
	"go/ast"
	"go/parser"
	"go/token"
	"os"
	"path/filepath"
	"sort"
	"strings"
)

var watched = map[string]bool{"NtfnsHandler": true, "WalletManager": true, "KeystoreManager": true, "AddrManager": true, "UtxoStore": true}

type fnInfo struct {
	key     string // "Recv.Method" or "pkg.func"
	recv    string
	decl    *ast.FuncDecl
	pkg     string
	results []string
}

var (
	fset    = token.NewFileSet()
	structs = map[string]map[string]string{} // struct -> field -> type string
	funcs   = map[string]*fnInfo{}
)

// typeStr renders the part of a type we care about: named type (pointer stripped), map:Elem, []Elem, sync.X, chan.
func typeStr(e ast.Expr) string {
	switch t := e.(type) {
	case *ast.Ident:
		return t.Name
	case *ast.StarExpr:
		return typeStr(t.X)
	case *ast.SelectorExpr:
		if id, ok := t.X.(*ast.Ident); ok {
			if id.Name == "sync" {
				return "sync." + t.Sel.Name
			}
			return t.Sel.Name // keystore.AddrManager -> AddrManager
		}
	case *ast.MapType:
		return "map:" + typeStr(t.Value)
	case *ast.ArrayType:
		return "[]" + typeStr(t.Elt)
	case *ast.ChanType:
		return "chan"
	}
	return ""
}

func elemOf(t string) string {
	if strings.HasPrefix(t, "map:") {
		return t[4:]
	}
	if strings.HasPrefix(t, "[]") {
		return t[2:]
	}
	return ""
}

type lockset map[string]bool // name -> exclusive

func (l lockset) copy() lockset {
	c := lockset{}
	for k, v := range l {
		c[k] = v
	}
	return c
}
func (l lockset) key() string {
	var ks []string
	for k, v := range l {
		m := "S"
		if v {
			m = "X"
		}
		ks = append(ks, k+":"+m)
	}
	sort.Strings(ks)
	return strings.Join(ks, ",")
}
func union(a, b lockset) lockset {
	c := a.copy()
	for k, v := range b {
		c[k] = c[k] || v
	}
	return c
}

type access struct {
	v     string
	write bool
	locks lockset
}
type callSite struct {
	callee string
	locks  lockset
}
type summary struct {
	accesses []access
	calls    []callSite
}

// ---------------------------------------------------------------- per-function analysis

type analyzer struct {
	fn   *fnInfo
	env  map[string]string
	sum  *summary
	held lockset
}

func (a *analyzer) typeOf(e ast.Expr) string {
	switch x := e.(type) {
	case *ast.Ident:
		return a.env[x.Name]
	case *ast.ParenExpr:
		return a.typeOf(x.X)
	case *ast.StarExpr:
		return a.typeOf(x.X)
	case *ast.UnaryExpr:
		return a.typeOf(x.X)
	case *ast.SelectorExpr:
		t := a.typeOf(x.X)
		if f, ok := structs[t]; ok {
			if ft, ok := f[x.Sel.Name]; ok {
				return ft
			}
		}
		return ""
	case *ast.IndexExpr:
		return elemOf(a.typeOf(x.X))
	case *ast.CompositeLit:
		if x.Type != nil {
			return typeStr(x.Type)
		}
	case *ast.TypeAssertExpr:
		if x.Type != nil {
			return typeStr(x.Type)
		}
	case *ast.CallExpr:
		if r := a.callResults(x); len(r) > 0 {
			return r[0]
		}
	}
	return ""
}

func (a *analyzer) calleeKey(c *ast.CallExpr) string {
	switch f := c.Fun.(type) {
	case *ast.SelectorExpr:
		t := a.typeOf(f.X)
		if t != "" {
			if _, ok := funcs[t+"."+f.Sel.Name]; ok {
				return t + "." + f.Sel.Name
			}
		}
		if id, ok := f.X.(*ast.Ident); ok { // pkg.Func
			if _, ok := funcs[id.Name+"."+f.Sel.Name]; ok && a.env[id.Name] == "" {
				return id.Name + "." + f.Sel.Name
			}
		}
	case *ast.Ident:
		if _, ok := funcs[a.fn.pkg+"."+f.Name]; ok {
			return a.fn.pkg + "." + f.Name
		}
	}
	return ""
}

func (a *analyzer) callResults(c *ast.CallExpr) []string {
	if k := a.calleeKey(c); k != "" {
		return funcs[k].results
	}
	if id, ok := c.Fun.(*ast.Ident); ok && (id.Name == "new" || id.Name == "make") && len(c.Args) > 0 {
		return []string{typeStr(c.Args[0])}
	}
	return nil
}

// fieldAccess: is e (possibly under index / sub-selector) an access to a field of a watched struct?
func (a *analyzer) baseField(e ast.Expr) (string, bool) {
	switch x := e.(type) {
	case *ast.SelectorExpr:
		t := a.typeOf(x.X)
		if watched[t] {
			if ft, ok := structs[t][x.Sel.Name]; ok {
				if strings.HasPrefix(ft, "sync.") || ft == "chan" {
					return "", false
				}
				return t + "." + x.Sel.Name, true
			}
		}
		return a.baseField(x.X) // h.bestBlock.Hash -> h.bestBlock
	case *ast.IndexExpr:
		return a.baseField(x.X)
	case *ast.ParenExpr:
		return a.baseField(x.X)
	case *ast.StarExpr:
		return a.baseField(x.X)
	}
	return "", false
}

func (a *analyzer) record(v string, w bool) {
	a.sum.accesses = append(a.sum.accesses, access{v, w, a.held.copy()})
}

// lockCall recognises X.mu.Lock() etc. and the hand-shake calls.
func (a *analyzer) lockCall(c *ast.CallExpr) (name string, acquire, excl, ok bool) {
	sel, isSel := c.Fun.(*ast.SelectorExpr)
	if !isSel {
		return
	}
	switch sel.Sel.Name {
	case "Lock", "RLock", "Unlock", "RUnlock":
		inner, isSel2 := sel.X.(*ast.SelectorExpr)
		if !isSel2 {
			return
		}
		t := a.typeOf(inner.X)
		ft := structs[t][inner.Sel.Name]
		if !strings.HasPrefix(ft, "sync.") {
			return
		}
		return t + "." + inner.Sel.Name, sel.Sel.Name == "Lock" || sel.Sel.Name == "RLock", sel.Sel.Name == "Lock" || sel.Sel.Name == "Unlock", true
	case "suspend", "resume":
		if a.typeOf(sel.X) == "NtfnsHandler" {
			return "handshake", sel.Sel.Name == "suspend", true, true
		}
	}
	return
}

func containsSuspend(n ast.Node) bool {
	found := false
	ast.Inspect(n, func(x ast.Node) bool {
		if c, ok := x.(*ast.CallExpr); ok {
			if s, ok := c.Fun.(*ast.SelectorExpr); ok && s.Sel.Name == "suspend" {
				found = true
			}
		}
		return !found
	})
	return found
}

// expr walks an expression in read position.
func (a *analyzer) expr(e ast.Expr) {
	if e == nil {
		return
	}
	switch x := e.(type) {
	case *ast.SelectorExpr:
		if v, ok := a.baseField(x); ok {
			a.record(v, false)
			// still walk the base for nested watched accesses (w.ntfnsHandler.taskChan reads both)
		}
		a.expr(x.X)
	case *ast.CallExpr:
		a.call(x)
	case *ast.FuncLit:
		a.block(x.Body, true)
	case *ast.IndexExpr:
		a.expr(x.X)
		a.expr(x.Index)
	case *ast.StarExpr:
		a.expr(x.X)
	case *ast.UnaryExpr:
		if x.Op == token.AND {
			if v, ok := a.baseField(x.X); ok {
				a.record(v, true) // address taken: treated as a write
			}
		}
		a.expr(x.X)
	case *ast.BinaryExpr:
		a.expr(x.X)
		a.expr(x.Y)
	case *ast.ParenExpr:
		a.expr(x.X)
	case *ast.KeyValueExpr:
		a.expr(x.Value)
	case *ast.CompositeLit:
		for _, el := range x.Elts {
			a.expr(el)
		}
	case *ast.TypeAssertExpr:
		a.expr(x.X)
	case *ast.SliceExpr:
		a.expr(x.X)
		a.expr(x.Low)
		a.expr(x.High)
	}
}

func (a *analyzer) call(c *ast.CallExpr) {
	if name, acq, excl, ok := a.lockCall(c); ok {
		if acq {
			a.held[name] = excl
		} else {
			delete(a.held, name)
		}
		return
	}
	if id, ok := c.Fun.(*ast.Ident); ok && id.Name == "delete" && len(c.Args) > 0 {
		if v, ok := a.baseField(c.Args[0]); ok {
			a.record(v, true)
		}
		for _, arg := range c.Args[1:] {
			a.expr(arg)
		}
		return
	}
	if k := a.calleeKey(c); k != "" {
		a.sum.calls = append(a.sum.calls, callSite{k, a.held.copy()})
	}
	if sel, ok := c.Fun.(*ast.SelectorExpr); ok {
		a.expr(sel.X)
	}
	for _, arg := range c.Args {
		a.expr(arg)
	}
}

func (a *analyzer) lhs(e ast.Expr) {
	if v, ok := a.baseField(e); ok {
		a.record(v, true)
	}
	// index expressions on the left still read their index
	if ix, ok := e.(*ast.IndexExpr); ok {
		a.expr(ix.Index)
	}
	if sel, ok := e.(*ast.SelectorExpr); ok {
		// the path to the written field is read (w.ntfnsHandler.x = .. reads w.ntfnsHandler)
		if _, isField := a.baseField(sel.X); isField {
			a.expr(sel.X)
		}
	}
}

func (a *analyzer) bind(name string, t string) {
	if name != "_" && t != "" {
		a.env[name] = t
	}
}

func (a *analyzer) stmt(s ast.Stmt) {
	switch x := s.(type) {
	case *ast.ExprStmt:
		a.expr(x.X)
	case *ast.AssignStmt:
		for _, r := range x.Rhs {
			a.expr(r)
		}
		if len(x.Rhs) == 1 && len(x.Lhs) > 1 {
			if c, ok := x.Rhs[0].(*ast.CallExpr); ok {
				res := a.callResults(c)
				for i, l := range x.Lhs {
					if id, ok := l.(*ast.Ident); ok && i < len(res) {
						a.bind(id.Name, res[i])
					}
				}
			}
			if ix, ok := x.Rhs[0].(*ast.IndexExpr); ok { // v, ok := m[k]
				if id, ok := x.Lhs[0].(*ast.Ident); ok {
					a.bind(id.Name, elemOf(a.typeOf(ix.X)))
				}
			}
		} else {
			for i, l := range x.Lhs {
				if id, ok := l.(*ast.Ident); ok && i < len(x.Rhs) {
					if _, known := a.env[id.Name]; !known || x.Tok == token.DEFINE {
						a.bind(id.Name, a.typeOf(x.Rhs[i]))
					}
				}
			}
		}
		for _, l := range x.Lhs {
			if _, ok := l.(*ast.Ident); !ok {
				a.lhs(l)
			}
		}
	case *ast.IncDecStmt:
		a.lhs(x.X)
	case *ast.DeclStmt:
		if gd, ok := x.Decl.(*ast.GenDecl); ok {
			for _, sp := range gd.Specs {
				if vs, ok := sp.(*ast.ValueSpec); ok {
					for i, n := range vs.Names {
						if vs.Type != nil {
							a.bind(n.Name, typeStr(vs.Type))
						} else if i < len(vs.Values) {
							a.bind(n.Name, a.typeOf(vs.Values[i]))
						}
					}
					for _, v := range vs.Values {
						a.expr(v)
					}
				}
			}
		}
	case *ast.ReturnStmt:
		for _, r := range x.Results {
			a.expr(r)
		}
	case *ast.DeferStmt:
		// defer X.mu.Unlock() / defer h.resume(..) / defer func(){ h.resume(..) }(): the lock is held to the end
		if _, acq, _, ok := a.lockCall(x.Call); ok && !acq {
			return
		}
		if fl, ok := x.Call.Fun.(*ast.FuncLit); ok {
			saved := a.held.copy()
			a.block(fl.Body, true)
			a.held = saved
			return
		}
		a.call(x.Call)
	case *ast.GoStmt:
		// `go handle(h)` / `go worker(h)`: thread roots, handled separately
	case *ast.BlockStmt:
		a.block(x, false)
	case *ast.IfStmt:
		if x.Init != nil {
			a.stmt(x.Init)
		}
		susp := containsSuspend(x.Cond)
		a.expr(x.Cond)
		saved := a.held.copy()
		if susp {
			delete(a.held, "handshake") // `if !h.suspend(..) { return .. }`: not held inside the branch
			saved = a.held.copy()
		}
		a.block(x.Body, false)
		a.held = saved.copy()
		if x.Else != nil {
			a.stmt(x.Else)
			a.held = saved.copy()
		}
		if susp {
			a.held["handshake"] = true
		}
	case *ast.ForStmt:
		if x.Init != nil {
			a.stmt(x.Init)
		}
		a.expr(x.Cond)
		saved := a.held.copy()
		a.block(x.Body, false)
		if x.Post != nil {
			a.stmt(x.Post)
		}
		a.held = saved
	case *ast.RangeStmt:
		a.expr(x.X)
		t := a.typeOf(x.X)
		if id, ok := x.Value.(*ast.Ident); ok && x.Value != nil {
			a.bind(id.Name, elemOf(t))
		}
		saved := a.held.copy()
		a.block(x.Body, false)
		a.held = saved
	case *ast.SwitchStmt:
		if x.Init != nil {
			a.stmt(x.Init)
		}
		a.expr(x.Tag)
		a.clauses(x.Body)
	case *ast.TypeSwitchStmt:
		a.clauses(x.Body)
	case *ast.SelectStmt:
		a.clauses(x.Body)
	case *ast.SendStmt:
		a.expr(x.Chan)
		a.expr(x.Value)
	case *ast.LabeledStmt:
		a.stmt(x.Stmt)
	}
}

func (a *analyzer) clauses(b *ast.BlockStmt) {
	for _, c := range b.List {
		saved := a.held.copy()
		switch cc := c.(type) {
		case *ast.CaseClause:
			for _, e := range cc.List {
				a.expr(e)
			}
			for _, s := range cc.Body {
				a.stmt(s)
			}
		case *ast.CommClause:
			if cc.Comm != nil {
				a.stmt(cc.Comm)
			}
			for _, s := range cc.Body {
				a.stmt(s)
			}
		}
		a.held = saved
	}
}

// block: statements in order; inline = a function literal executed by the callee it is passed to
// (locks taken inside are released inside: the state is restored afterwards).
func (a *analyzer) block(b *ast.BlockStmt, inline bool) {
	if b == nil {
		return
	}
	saved := a.held.copy()
	for _, s := range b.List {
		a.stmt(s)
	}
	if inline {
		a.held = saved
	}
}

func analyze(fn *fnInfo) *summary {
	a := &analyzer{fn: fn, env: map[string]string{}, sum: &summary{}, held: lockset{}}
	d := fn.decl
	if d.Recv != nil && len(d.Recv.List) > 0 && len(d.Recv.List[0].Names) > 0 {
		a.env[d.Recv.List[0].Names[0].Name] = typeStr(d.Recv.List[0].Type)
	}
	for _, p := range d.Type.Params.List {
		for _, n := range p.Names {
			a.bind(n.Name, typeStr(p.Type))
		}
	}
	if d.Type.Results != nil {
		for _, p := range d.Type.Results.List {
			for _, n := range p.Names {
				a.bind(n.Name, typeStr(p.Type))
			}
		}
	}
	a.block(d.Body, false)
	return a.sum
}

// ---------------------------------------------------------------- main

type ctx struct {
	role  string
	locks lockset
}

func main() {
	repo := "/repo"
	if len(os.Args) > 1 {
		repo = os.Args[1]
	}
	pkgs := map[string]string{"masswallet": "masswallet", "keystore": "masswallet/keystore", "txmgr": "masswallet/txmgr"}
	for pkg, dir := range pkgs {
		files, _ := filepath.Glob(filepath.Join(repo, dir, "*.go"))
		sort.Strings(files)
		for _, f := range files {
			if strings.HasSuffix(f, "_test.go") || strings.HasSuffix(f, "_verif.go") {
				continue
			}
			af, err := parser.ParseFile(fset, f, nil, 0)
			if err != nil {
				fmt.Fprintln(os.Stderr, "locks: cannot parse", f, err)
				os.Exit(1)
			}
			for _, d := range af.Decls {
				switch x := d.(type) {
				case *ast.GenDecl:
					for _, sp := range x.Specs {
						ts, ok := sp.(*ast.TypeSpec)
						if !ok {
							continue
						}
						st, ok := ts.Type.(*ast.StructType)
						if !ok {
							continue
						}
						m := map[string]string{}
						for _, fl := range st.Fields.List {
							for _, n := range fl.Names {
								m[n.Name] = typeStr(fl.Type)
							}
						}
						structs[ts.Name.Name] = m
					}
				case *ast.FuncDecl:
					if x.Body == nil {
						continue
					}
					fi := &fnInfo{decl: x, pkg: pkg}
					if x.Recv != nil && len(x.Recv.List) > 0 {
						fi.recv = typeStr(x.Recv.List[0].Type)
						fi.key = fi.recv + "." + x.Name.Name
					} else {
						fi.key = pkg + "." + x.Name.Name
					}
					if x.Type.Results != nil {
						for _, r := range x.Type.Results.List {
							n := len(r.Names)
							if n == 0 {
								n = 1
							}
							for i := 0; i < n; i++ {
								fi.results = append(fi.results, typeStr(r.Type))
							}
						}
					}
					funcs[fi.key] = fi
				}
			}
		}
	}
	for s := range watched {
		if _, ok := structs[s]; !ok {
			fmt.Fprintln(os.Stderr, "locks: anchor struct not found:", s)
			os.Exit(1)
		}
	}
	for _, f := range []string{"masswallet.handle", "masswallet.worker", "NtfnsHandler.suspend", "NtfnsHandler.resume", "NtfnsHandler.Start", "WalletManager.Stop"} {
		if _, ok := funcs[f]; !ok {
			fmt.Fprintln(os.Stderr, "locks: anchor function not found:", f)
			os.Exit(1)
		}
	}
	sums := map[string]*summary{}
	var keys []string
	for k := range funcs {
		keys = append(keys, k)
	}
	sort.Strings(keys)
	for _, k := range keys {
		sums[k] = analyze(funcs[k])
	}
	// thread roots
	contexts := map[string]map[string]ctx{}
	var work []string
	add := func(fn string, c ctx) {
		if _, ok := funcs[fn]; !ok {
			return
		}
		if contexts[fn] == nil {
			contexts[fn] = map[string]ctx{}
		}
		k := c.role + "|" + c.locks.key()
		if _, ok := contexts[fn][k]; !ok {
			contexts[fn][k] = c
			work = append(work, fn)
		}
	}
	add("masswallet.handle", ctx{"H", lockset{"handshake": true}})
	add("masswallet.worker", ctx{"K", lockset{}})
	for _, k := range keys {
		fi := funcs[k]
		name := fi.decl.Name.Name
		switch {
		case k == "WalletManager.Start" || k == "NtfnsHandler.Start" || strings.HasPrefix(name, "New") && fi.recv == "" || k == "NtfnsHandler.initTaskChan":
			add(k, ctx{"I", lockset{}})
		case k == "WalletManager.Stop" || k == "NtfnsHandler.Stop" || k == "WalletManager.CloseDB":
			add(k, ctx{"S", lockset{}})
		case fi.recv == "WalletManager" && ast.IsExported(name):
			add(k, ctx{"A", lockset{}})
		case k == "NtfnsHandler.OnBlockConnected" || k == "NtfnsHandler.OnTransactionReceived":
			add(k, ctx{"A", lockset{}})
		}
	}
	for len(work) > 0 {
		fn := work[0]
		work = work[1:]
		for _, c := range contexts[fn] {
			for _, cs := range sums[fn].calls {
				if cs.callee == "NtfnsHandler.suspend" || cs.callee == "NtfnsHandler.resume" {
					continue
				}
				add(cs.callee, ctx{c.role, union(c.locks, cs.locks)})
			}
		}
	}
	// the table
	type row struct {
		v, site, role, locks string
		write               bool
		ls                  lockset
	}
	seen := map[string]bool{}
	var rows []row
	for _, k := range keys {
		for _, c := range contexts[k] {
			for _, ac := range sums[k].accesses {
				ls := union(c.locks, ac.locks)
				r := row{ac.v, k, c.role, ls.key(), ac.write, ls}
				id := fmt.Sprintf("%s|%s|%v|%s|%s", r.v, r.site, r.write, r.role, r.locks)
				if !seen[id] {
					seen[id] = true
					rows = append(rows, r)
				}
			}
		}
	}
	sort.Slice(rows, func(i, j int) bool {
		a, b := rows[i], rows[j]
		if a.v != b.v {
			return a.v < b.v
		}
		if a.site != b.site {
			return a.site < b.site
		}
		if a.role != b.role {
			return a.role < b.role
		}
		if a.write != b.write {
			return !a.write
		}
		return a.locks < b.locks
	})
	fmt.Println("(* GENERATED on every run by translate/locks from masswallet/*.go, masswallet/keystore/*.go,")
	fmt.Println("   masswallet/txmgr/*.go of /repo. Do not edit.")
	fmt.Println("   One entry per (shared field, function containing the access, read/write, thread role, locks held):")
	fmt.Println("   (variable, site, is_write, role, [(lock, exclusive)]).  Roles: H handler goroutine, K worker")
	fmt.Println("   goroutine, A API clients / node callbacks (many), I constructors and Start (before the")
	fmt.Println("   goroutines exist), S Stop.  \"handshake\" is the suspend/resume pseudo lock. *)")
	fmt.Println("From Coq Require Import List String.")
	fmt.Println("Import ListNotations.")
	fmt.Println("Open Scope string_scope.")
	fmt.Println("Definition lock_table : list (string * string * bool * string * list (string * bool)) := [")
	for i, r := range rows {
		var ls []string
		var names []string
		for n := range r.ls {
			names = append(names, n)
		}
		sort.Strings(names)
		for _, n := range names {
			ls = append(ls, fmt.Sprintf("(\"%s\", %v)", n, r.ls[n]))
		}
		sep := ";"
		if i == len(rows)-1 {
			sep = ""
		}
		fmt.Printf("  (\"%s\", \"%s\", %v, \"%s\", [%s])%s\n", r.v, r.site, r.write, r.role, strings.Join(ls, "; "), sep)
	}
	fmt.Println("].")
	fmt.Fprintf(os.Stderr, "locks: %d functions, %d with a thread context, %d table entries\n", len(funcs), len(contexts), len(rows))
}
