#!/usr/bin/env python3
"""Writes /verif/corpus/C19_inventory.json: the PINNED inventory of property C19.

    python3 /verif/translate/pin_c19_inventory.py [inventory.json produced by bce_inventory]

For every entry of the regenerated inventory that lies inside a MODELLED function it records a
disposition: the panic site of coq/Api/Validate.v it is modelled as and the lemma of
coq/Api/Proofs.v that discharges it, or the generic lemma / callee contract / environment
assumption that covers it. An entry the rules below do not cover is written with disposition
"UNCLASSIFIED" and makes this script fail: it has to be looked at by a person.
checks/C19.py regenerates the inventory on every run and compares it with the pinned file:
an entry inside a modelled function that is not pinned = a broken obligation."""
import json
import os
import re
import subprocess
import sys

ROOT = os.environ.get("VERIF_ROOT", "/verif")

# functions modelled completely (every inventory entry inside them needs a disposition)
MODELLED = {
    "api/util.go": ["AmountToString", "StringToAmount", "checkLocktime", "checkAddressLen", "checkWalletIdLen",
                    "checkTransactionIdLen", "checkMnemonicLen", "checkPassLen", "checkParseAmount", "checkFormatAmount",
                    # second group
                    "checkNotEmpty", "isEmpty", "checkWitnessAddress", "parseBindingTarget", "checkTxFeeLimit"],
    "api/wallet_service.go": ["decodeHexStr", "APIServer.Wallets"],
    # second group: the API methods themselves (argument checks in source order, every index / nil site inside them)
    "api/tx_service.go": ["APIServer.CreateStakingTransaction", "APIServer.CreateBindingTransaction",
                          "APIServer.CreatePoolPkCoinbaseTransaction", "APIServer.AutoCreateTransaction",
                          "APIServer.GetTransactionFee", "mockBindingTarget", "getEstimateStakingAddress",
                          "APIServer.GetStakingHistory", "APIServer.GetBindingHistory", "APIServer.SendRawTransaction",
                          "APIServer.GetNetworkBinding", "APIServer.CheckPoolPkCoinbase", "APIServer.CheckTargetBinding",
                          "APIServer.GetRawTransaction", "APIServer.createTxRawResult", "APIServer.createVinList",
                          "createVoutList", "APIServer.getStatus", "witnessToHex"],
    "api/block_service.go": ["APIServer.GetBestBlock", "APIServer.GetBlockByHeight", "APIServer.marshalGetBlockResponse",
                             "APIServer.getTxType", "APIServer.createBlockTx", "createNormalProposalResult",
                             "createFaultPubKeyResult", "createPoCSignatureResult", "APIServer.GetBlockStakingReward"],
    "masswallet/tx.go": ["WalletManager.constructTxIn", "WalletManager.estimateSignedSize", "WalletManager.signWitnessTx",
                         "WalletManager.EstimateManualTxFee", "WalletManager.findEligibleUtxos", "selectRelatedTx",
                         "WalletManager.prevTxHeight",
                         "WalletManager.EstimateTxFee", "WalletManager.EstimateStakingTxFee", "WalletManager.EstimateBindingTxFee",
                         "constructStakingTxOut"],
    "masswallet/common.go": ["WalletManager.addTxIn", "WalletManager.existsMsgTx", "WalletManager.existsUnminedTx",
                             "WalletManager.existsOutPoint", "AmountToString", "WalletManager.prepareFromAddresses"],
    "masswallet/wallet.go": ["WalletManager.CreateRawTransaction", "WalletManager.SignRawTx",
                             "WalletManager.GetAllAddressesWithPubkey", "WalletManager.NewAddress",
                             "WalletManager.AutoCreateRawTransaction", "WalletManager.CreateStakingTransaction",
                             "WalletManager.CreateBindingTransaction", "WalletManager.MarkUsedUTXO",
                             "WalletManager.ClearUsedUTXOMark", "WalletManager.GetStakingHistory",
                             "WalletManager.GetBindingHistory", "WalletManager.Wallets"],
    "masswallet/txmgr/utxostore.go": ["UtxoStore.GetBindingHistoryDetail", "UtxoStore.GetUnminedBindingHistoryDetail",
                                      "UtxoStore.GetStakingHistoryDetail", "UtxoStore.GetUnminedStakingHistoryDetail"],
    "masswallet/ntfnshandler.go": ["NtfnsHandler.IsWorkerBusy", "NtfnsHandler.OnImportWallet", "NtfnsHandler.OnRemoveWallet"],
    "masswallet/task.go": ["WalletTaskChan.IsBusy", "WalletTaskChan.PushImport", "WalletTaskChan.PushRemove"],
}
# functions of which only the named things are modelled: (kinds, regex on var/expr)
PARTIAL = {
    ("masswallet/ntfnshandler.go", "NtfnsHandler.asyncImport"): [("nil", r"^rec$")],
    ("masswallet/ntfnshandler.go", "NtfnsHandler.filterTx"): [("index", r".")],
    ("masswallet/ntfnshandler.go", "NtfnsHandler.filterTxForImporting"): [("index", r".")],
    ("masswallet/ntfnshandler.go", "NtfnsHandler.filterBlock"): [("index", r".")],
    ("masswallet/txmgr/txstore.go", "TxStore.ExistsTx"): [("nil", r"^am$"), ("nilx", r"CurrentKeystore")],
    ("masswallet/txmgr/txstore.go", "TxStore.ExistsUtxo"): [("nil", r"^am$"), ("nilx", r"CurrentKeystore")],
    ("masswallet/txmgr/utxostore.go", "UtxoStore.ScriptAddressBalance"): [("nil", r"^am$"), ("nilx", r"CurrentKeystore")],
    ("masswallet/txmgr/utxostore.go", "UtxoStore.ScriptAddressUnspents"): [("nil", r"^am$"), ("nilx", r"CurrentKeystore")],
    ("masswallet/keystore/manager.go", "KeystoreManager.GetManagedAddressByScriptHashInCurrent"): [("nilx", r"managedKeystores"), ("nil", r"^addrManager$")],
}

CONTRACT_NONNIL = (
    r"status\.New\(|wire\.NewTxIn\(|wire\.NewOutPoint\(|wire\.NewHashFromStr\(|massutil\.ZeroAmount\(|massutil\.MaxAmount\(|"
    r"safetype\.|\.AddUint\(|\.AddInt\(|\.MulInt\(|\.Sub\(|\.Add\(|utils\.ParsePkScript\(|massutil\.NewAddressWitnessScriptHash\(|"
    r"w\.existsMsgTx\(|w\.existsUnminedTx\(|w\.existsOutPoint\(|w\.constructTxIn\(|w\.constructTxOut\(|txscript\.NewEngine\(|"
    r"\.GetAddrManager\(|acctM\.Address\(|\.GetWalletStatus\(|tx\.TxHash\(\)|mtx\.TxHash\(\)")


CONTRACT_NONNIL2 = (
    r"GetBlockByHeight\(|block\.Tx\(0\)|NewCoinbasePayload\(|NewAddressStakingScriptHash\(|NewAddressBindingTarget\(|\.GetTransaction\(|"
    r"GetBlockHashByHeight\(|checkWitnessAddress\(|checkParseAmount\(|parseBindingTarget\(|GetNewBinding\(|GetNetworkBinding\(|"
    r"GetRequiredBinding\(|FetchTransaction\(|massutil\.NewTx\(|wire\.NewMsgTx\(|EstimateBindingTxFee\(|EstimateStakingTxFee\(|"
    r"EstimateTxFee\(|EstimateManualTxFee\(|findEligibleUtxos\(|MinRelayTxFee\(|ks\.Address\(|am\.Address\(|newTopKSelector\(|"
    r"SyncedTo\(|DecodeAddress\(|GetAddrManagerByAccountID\(|FetchTxByLoc\(|reflect\.ValueOf\(|reflect\.Zero\(|ParsePkScript\(|"
    r"\.MsgTx\(\)|\.MsgBlock\(\)|\.Hash\(\)|\.BlockHash\(\)|\.TxHash\(\)|\.UTC\(\)|\.Quality\(\)|\.Version\(\)|\.Elem\(\)|"
    r"s\.node\.Blockchain\(\)$|s\.node\.TxMemPool\(\)$|w\.server\.TxMemPool\(\)$")


def disposition2(e):
    """the second group of API methods (tx_service.go, block_service.go, Wallets, the txmgr history readers)"""
    k, f, fn, expr, var = e["kind"], e["file"], e["func"], e["expr"], e.get("var", "")
    short = fn.split(".")[-1]
    site = lambda s, lemma, note="": "site:%s lemma:%s%s" % (s, lemma, (" — " + note) if note else "")
    chain = "assumption: the transaction comes from the node (validated block / validated mempool): an input refers to an existing output (wf_bin)"
    if k == "index":
        table = {
            ("CheckTargetBinding", "target.ScriptAddress()[2"): site("PTargetIdx", "check_target_no_panic", "a valid binding target that is not a pubkey hash is a *AddressBindingTarget, whose script is a [22]byte"),
            ("GetBindingHistoryDetail", "msgtx.TxOut[index]"): site("PBindHistIndex", "bind_detail_spec", "GENUINE DEFECT, not repaired (switch fx_bindhist_hash = false in current_code): the transaction fetched by (height, location) is not compared with the recorded hash; fires while the wallet lags behind a reorganisation of the node (scenario lagging-reorg); with the hash test: the recorded output exists (wf_bind_row)"),
            ("GetUnminedBindingHistoryDetail", "rec.MsgTx.TxOut[index]"): site("PBindHistIndex", "bind_detail_spec", "the unmined record is the one the history row was written for (wf_bind_row, br_mined = false)"),
            ("GetBindingHistory", "prevMtx.TxOut["): site("PBindHistPrevIndex", "bind_froms_no_panic", chain),
            ("getTxType", "tx.TxOut[index]"): site("PTxTypeIndex", "tx_type_ins_no_panic", chain),
            ("createVinList", "prevTx.TxOut["): site("PVinIndex", "vin_list_no_panic", chain),
            ("GetBlockStakingReward", "txOuts[j]"): site("PRewardTxOut", "reward_outs_no_panic", "consensus: the coinbase pays the NumStakingReward() rewards its payload announces first (wf_env)"),
        }
        for (fname, pre), d in table.items():
            if short == fname and expr.startswith(pre):
                return d
        if re.search(r"^(ret|histories)\[[ij]\]", expr):
            return "generic:sort_less_in_bounds"
    if k == "inlined":
        if expr.endswith(".String()"):
            return "generic:hash_string_in_bounds — wire.Hash.String() inlined"
        if "hex.EncodeToString" in expr:
            return "generic:hex_encode_in_bounds — hex.EncodeToString inlined"
        if expr.endswith(".Transactions()"):
            return "contract: massutil.Block.Transactions() fills its cache in a counted loop over the block's own transaction slice"
        if expr.endswith(".Bytes()"):
            return "contract:bytes.Buffer.Bytes() slices its own buffer inside its bounds"
    if k in ("nil", "nilx", "field"):
        if short == "GetManagedAddressByScriptHashInCurrent":
            return site("PCurEvictedNil", "validate_address_panic_needs_evicted", "GENUINE DEFECT, not repaired (switch fx_cur_evicted = false in current_code): the map entry of the keystore km.currentKeystore names is gone after a failed NewAddress whose reload failed too (closed database); scenario stopped")
        if short == "GetBindingHistory" and var == "detail":
            return site("PBindHistTargetNil", "bind_history_entry_panic", "the element's interface field Utxo.BindingTarget (script.SecondAddress()) is nil when the fetched output is not a binding script: same defect as PBindHistIndex; with the hash test the output is the recorded binding output (wf_bind_row). Elements themselves are never nil (built by the two history readers)")
        if k == "field":
            si = e.get("set_in", "")
            if si and all(x.startswith("New") or x == "…" for x in si.split(",")):
                return "constructor: assigned once in %s, never nil afterwards" % si
            if expr.endswith((".mu", ".wg")):
                return "value: a struct field, not a pointer"
        if k == "nil" and expr.startswith("range "):
            return "assumption: slices of pointers built by wire decoding / protobuf unmarshalling / the node / this package hold no nil element"
        if expr.startswith("&"):
            return "generic: the address of a composite literal is not nil"
        if e.get("nil_compared") and k == "nil":
            return "checked: compared with nil before use"
        if k == "nil" and re.search(r"\.\(\*", expr):
            return "checked: type assertion with ok test (the value is used only when ok)"
        if k == "nil" and var in ("credit", "prevTx") and re.search(r"^(indexToCredit|cache)\[", expr):
            return "checked: map look-up with ok test"
        if k in ("nil", "nilx") and re.search(r"\]$", expr):
            return "assumption: element of a slice of pointers that holds no nil (an index entry of the same expression, if the compiler could not prove it, is listed on its own)"
        if re.search(CONTRACT_NONNIL, expr) or re.search(CONTRACT_NONNIL2, expr):
            return "contract: the callee returns a usable value when err == nil (or has no error result)"
        if short in ("mockBindingTarget",) or "mockBindingTarget" in expr:
            return "constant: NewAddressBindingTarget accepts the constant 22-byte argument (type 0, size 32); exercised by every GetTransactionFee request with has_binding"
    return None


def disposition(e):
    d = disposition1(e)
    return d if d is not None else disposition2(e)


def disposition1(e):
    """returns (disposition string) or None"""
    k, f, fn, expr, var = e["kind"], e["file"], e["func"], e["expr"], e.get("var", "")
    short = fn.split(".")[-1]
    site = lambda s, lemma, note="": "site:%s lemma:%s%s" % (s, lemma, (" — " + note) if note else "")
    if k == "index":
        table = {
            ("constructTxIn", "prevTx.TxOut"): site("PCtiIndex", "cti_one_panic", "repaired: range test in front (switch fx_cti_index)"),
            ("estimateSignedSize", "mtx.TxOut"): site("PEstIndex", "est_one_panic", "ExistsTx answers only for an existing credit (wf_store)"),
            ("estimateSignedSize", "addrs[0]"): site("PEstAddrs0", "est_one_panic", "a credited output has an address (wf_out, C16)"),
            ("signWitnessTx", "prevTx.TxOut"): site("PSignIndex", "sign_loop_panic", "range test in front + ExistsUtxo answers only for existing outputs"),
            ("addTxIn", "prevTx.TxOut"): site("PAddIndex", "add_one_panic", "selected coins are credits (selected_ok)"),
            ("CreateRawTransaction", "senders[0]"): site("PSenders0", "wm_create_raw_transaction_panic", "repaired: len(senders) test (switch fx_senders)"),
            ("NewAddress", "mas[0]"): site("PMas0", "wm_new_address_no_panic", "NextAddresses(…, 1, …) returns one address or an error (wf_env)"),
            ("StringToAmount", "s1[0]"): site("PAmountS1", "string_to_amount_no_panic"),
            ("StringToAmount", "sInt[0]"): site("PAmountSInt0", "string_to_amount_no_panic"),
            ("StringToAmount", "sFrac[0]"): site("PAmountSFrac0", "string_to_amount_no_panic"),
            ("selectRelatedTx", "h.SortedHeights[i]"): "generic:loop_index_in_bounds — for i := len-1; i >= 0; i--",
            ("selectRelatedTx", "h.Data[height][i]"): "generic:sort_less_in_bounds",
            ("selectRelatedTx", "h.Data[height][j]"): "generic:sort_less_in_bounds",
            ("filterTx", "prevTx.TxOut"): site("PFilterTxIndex", "filter_tx_input_guarded", "len(prevTx.TxOut) <= idx is tested in front"),
            ("filterTxForImporting", "prevTx.TxOut"): site("PFilterImpIndex", "filter_imp_input_no_panic", "assumption: an input of a transaction on the node's chain refers to an existing output"),
            ("filterBlock", "txLocs[i]"): site("PTxLocsIndex", "filter_block_loc_no_panic", "contract: TxLoc() returns one location per transaction"),
        }
        for (fname, pre), d in table.items():
            if short == fname and expr.startswith(pre):
                return d
    if k == "slice":
        if short == "AmountToString":
            return site("PFormatSlice", "amount_to_string_no_panic")
        if short == "selectRelatedTx":
            return site("PSelectSlice", "select_related_tx_no_panic", "repaired: GetTxHistory never passes a negative count (switch fx_select_neg)")
    if k == "inlined":
        if expr.endswith(".String()"):
            return "generic:hash_string_in_bounds — wire.Hash.String() inlined"
        if "hex.EncodeToString" in expr:
            return "generic:hex_encode_in_bounds — hex.EncodeToString inlined"
        if "BytesPrefix" in expr:
            return "generic:loop_index_in_bounds — mwdb.BytesPrefix inlined (model: KV/Model.v, C11)"
        if expr.endswith(".Bytes()"):
            return "contract:bytes.Buffer.Bytes() slices its own buffer inside its bounds"
    if k in ("nil", "nilx", "field"):
        if short == "asyncImport" and var == "rec":
            return site("PImportRecNil", "async_import_panic", "repaired: nil test, the transaction is skipped (switch fx_import_rec)")
        if "CurrentKeystore" in expr or var in ("am", "acctM", "ks"):
            if short in ("ExistsTx",):
                return site("PExistsTxCurNil", "exists_msg_tx_panic", "repaired: nil test (switch fx_cur_nil)")
            if short == "ExistsUtxo":
                return site("PExistsUtxoCurNil", "exists_out_point_panic", "repaired: nil test (switch fx_cur_nil)")
            if short == "ScriptAddressBalance":
                return site("PBalanceCurNil", "script_address_scan_panic", "repaired: nil test (switch fx_cur_nil)")
            if short == "ScriptAddressUnspents":
                return site("PUnspentsCurNil", "script_address_scan_panic", "repaired: nil test (switch fx_cur_nil)")
            if short == "findEligibleUtxos":
                return site("PFindMaNil", "find_eligible_panic", "second read of the current keystore (switch fx_cur3_nil)")
            if short == "signWitnessTx":
                return site("PSignScriptCurNil", "sign_loop_panic", "script closure reads the current keystore again (switch fx_cur3_nil)")
            if short == "GetAllAddressesWithPubkey":
                return site("PPubkeyCurNil", "wm_all_addresses_panic", "read again after GetAddresses (switch fx_cur3_nil); WalletManager level, 'for testing purpose'")
            if short in ("constructTxIn", "SignRawTx", "NewAddress", "CreateRawTransaction") and e.get("nil_compared"):
                return "checked: compared with nil before use (model: cur = None -> ErrNoWalletInUse)"
        if short == "findEligibleUtxos" and var == "ma":
            return site("PFindMaNil", "find_eligible_panic", "am.Address(addr) succeeded for the same address a moment before, unless the keystore changed (switch fx_cur3_nil)")
        if short == "prevTxHeight":
            return "checked: block != nil is tested (repair of PCtiBlockNil / PSignMetaNil, lemmas cti_one_panic / sign_loop_panic)"
        if k == "field":
            if expr.endswith(".taskChan"):
                return site("PTaskChanNil", "task_queue_panic", "repaired: created by Start before the goroutines (set_in %s; switch fx_taskchan)" % e.get("set_in", ""))
            si = e.get("set_in", "")
            if si and all(x.startswith("New") for x in si.split(",")):
                return "constructor: assigned once in %s, never nil afterwards" % si
            if expr.endswith((".mu", ".wg", ".memMtx", ".quitWg")):
                return "value: a struct field, not a pointer"
        if k == "nil" and expr.startswith("range "):
            return "assumption: slices of pointers built by wire decoding / protobuf unmarshalling / this package hold no nil element"
        if expr.startswith("&"):
            return "generic: the address of a composite literal is not nil"
        if e.get("nil_compared") and k == "nil":
            return "checked: compared with nil before use"
        if k == "nil" and short in ("constructTxIn", "signWitnessTx", "addTxIn") and var in ("prevTxOut", "txOut"):
            return "assumption: a decoded transaction's TxOut slice holds no nil element (wire decoding)"
        if k == "nil" and short == "signWitnessTx" and var == "prevTx":
            return "contract: existsMsgTx / existsUnminedTx return a transaction when err == nil (the cache only holds such values)"
        if k == "nil" and short == "signWitnessTx" and var == "mAddr":
            return "contract: AddrManager.Address returns a non-nil address when err == nil"
        if k == "nil" and short == "estimateSignedSize" and var in ("addr", "mAddr", "acctM", "mtx"):
            return "contract: non-nil when err == nil (addrs[0] is an interface value produced by ExtractPkScriptAddrs)"
        if k == "nil" and short == "selectRelatedTx" and var == "result":
            return "generic: the address of a composite literal is not nil"
        if k == "nil" and short == "GetAllAddressesWithPubkey" and var == "addr":
            return "checked: map look-up with ok test / range over GetAddresses' result"
        if k == "nilx":
            if re.search(r"\[0\]$|\[txidx\]$|\[i\]$|\[j\]$", expr):
                return "assumption: element of a slice of pointers that holds no nil (index covered by the index entry of the same expression)"
        if re.search(CONTRACT_NONNIL, expr):
            return "contract: the callee returns a usable value when err == nil (or has no error result)"
    return None


def disposition_elsewhere(e):
    """bounds checks OUTSIDE the modelled functions: counted only by the check; classified here for the reader.
    The preconditions named are NOT proved in C19 (the key layouts are C11's subject, the selection heap C02's, the
    script reader C16's, chain consistency an assumption about the node)."""
    k, fn, x = e["kind"], e["func"].split(".")[-1], e["expr"]
    if k == "inlined" and x.endswith(".String()"):
        return "generic:hash_string_in_bounds — wire.Hash.String() inlined at a logging / formatting call"
    if "hex.EncodeToString" in x:
        return "generic:hex_encode_in_bounds — hex.EncodeToString inlined"
    if re.search(r"ret\[[ij]\]|histories\[[ij]\]|result\[[ij]\]|utxos\[[ij]\]", x):
        return "generic:sort_less_in_bounds — closure of sort.Slice"
    if re.search(r"BigEndian\.(Uint|PutUint)|readAddressHeight|\[\d+:\d*\]|\[:\d+\]|\[\d+\]$|\[off:\]|widLen", x) and "_db.go" in e["file"] + "_db.go" * (fn in ("GrossBalance", "AddCredits", "Rollback")):
        return "generic:fixed_width_in_bounds — precondition: the key / value has the fixed layout its put function writes (txmgr key layouts; C11's subject, not proved here)"
    if re.search(r"rel\.Index\]|\[index\]", x):
        return "generic:loop_index_in_bounds — the index was recorded by the filter loop ranging over the same slice (RelevantMeta.Index) / by the history record of an existing output"
    if re.search(r"PreviousOutPoint\.Index\]", x):
        return "assumption: the previous transaction comes from the node (chain database / validated mempool): an input refers to an existing output"
    if fn in ("adjust", "submit", "optOutputs"):
        return "other property: coin selection (C02, coq/Tx/Select.v)"
    if fn == "extractAddressInfos":
        return "other property: C16 (extract_address_infos, repaired E2)"
    if fn == "CheckTargetBinding":
        return "precondition: IsValidBindingTarget accepted the address and it is not a pubkey-hash address, hence a 22-byte binding target"
    if fn in ("getTxType", "GetBlockStakingReward", "marshalGetBlockResponse", "generateRPCKeyPair", "messageToHex"):
        return "not modelled: block service / TLS set-up / library call (exploration only)"
    if "BytesPrefix" in x:
        return "generic:loop_index_in_bounds — mwdb.BytesPrefix inlined (KV/Model.v, C11)"
    if re.search(r"transactions\[i\]|txHashes\[0\]", x):
        return "generic:loop_index_in_bounds — counted loop over a block record / non-empty list tested above"
    return "unclassified (counted only)"


def in_scope(e):
    f, fn = e["file"], e["func"]
    if fn in MODELLED.get(f, []):
        return True
    for (kinds, rx) in PARTIAL.get((f, fn), []):
        if e["kind"] == kinds and (re.search(rx, e.get("var") or "") if e["kind"] == "nil" else re.search(rx, e["expr"])):
            return True
    return False


def key(e):
    return "|".join([e["kind"], e["file"], e["func"], e.get("var", ""), e["expr"]])


def main():
    src = sys.argv[1] if len(sys.argv) > 1 else None
    if not src:
        src = "/tmp/c19_inventory_regen.json"
        subprocess.run([os.path.join(ROOT, "build/bin/bce_inventory"), "-repo", os.environ.get("VERIF_REPO", "/repo"), "-out", src], check=True)
    inv = json.load(open(src))
    pinned, bad = [], []
    elsewhere = {}
    else_entries = []
    for e in inv["entries"]:
        if not in_scope(e):
            if e["kind"] in ("index", "slice", "inlined"):
                elsewhere[e["kind"]] = elsewhere.get(e["kind"], 0) + e["count"]
                else_entries.append({"key": key(e), "count": e["count"], "disposition": disposition_elsewhere(e)})
            continue
        d = disposition(e)
        if d is None:
            d = "UNCLASSIFIED"
            bad.append(key(e))
        pinned.append({"key": key(e), "count": e["count"], "disposition": d})
    # entries the PROPOSED repair of GetBindingHistoryDetail (fix-c19api.patch: hash comparison after FetchTxByLoc) adds to that
    # function: pinned in advance so that the repaired tree checks without drift (an entry that is not reported is only counted)
    fn = "inlined|masswallet/txmgr/utxostore.go|UtxoStore.GetBindingHistoryDetail||"
    for x in pinned:
        if x["key"] == fn + "history.txhash.String()":
            x["count"] = max(x["count"], 5)
    have = {x["key"] for x in pinned}
    for k, d in [(fn + "mHash.String()", "generic:hash_string_in_bounds — wire.Hash.String() inlined (log line of the proposed repair)"),
                 ("nil|masswallet/txmgr/utxostore.go|UtxoStore.GetBindingHistoryDetail|mHash|msgtx.TxHash()",
                  "contract: the callee returns a usable value when err == nil (or has no error result) — wire.Hash is an array value (proposed repair)"),
                 # proposed repair of GetManagedAddressByScriptHashInCurrent (fix-c19api-2.patch)
                 ("nil|masswallet/keystore/manager.go|KeystoreManager.GetManagedAddressByScriptHashInCurrent|addrManager|km.managedKeystores[km.currentKeystore.accountName]",
                  "checked: map look-up with found test (proposed repair; model: fx_cur_evicted = true -> ErrCurrentKeystoreNotFound)")]:
        if k not in have:
            pinned.append({"key": k, "count": 1, "disposition": d})
    out = {
        "comment": "Pinned inventory of property C19 (see translate/pin_c19_inventory.py and translate/bce_inventory.go). "
                   "Keys are kind|file|function|variable|expression — no line numbers.",
        "modelled_functions": MODELLED,
        "partially_modelled": {"%s:%s" % k: ["%s /%s/" % x for x in v] for k, v in PARTIAL.items()},
        "compiler_reports_at_pin_time": inv["compiler_reports"],
        "bounds_checks_elsewhere_at_pin_time": elsewhere,
        "entries": sorted(pinned, key=lambda x: x["key"]),
        "bounds_checks_elsewhere (counted only by the check; classification for the reader)": sorted(else_entries, key=lambda x: x["key"]),
    }
    path = os.path.join(ROOT, "corpus", "C19_inventory.json")
    json.dump(out, open(path, "w"), indent=1, ensure_ascii=False)
    print("pinned %d entries (%d unclassified) -> %s; %d bounds checks elsewhere, %d of them unclassified" % (
        len(pinned), len(bad), path, len(else_entries), sum(1 for x in else_entries if x["disposition"].startswith("unclassified"))))
    for x in else_entries:
        if x["disposition"].startswith("unclassified"):
            print("  elsewhere, unclassified:", x["key"])
    for b in bad:
        print("UNCLASSIFIED", b)
    return 1 if bad else 0


if __name__ == "__main__":
    sys.exit(main())
