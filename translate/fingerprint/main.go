// fingerprint: prints, for every "file.go:Func" given on stdin (one per line, paths relative to the
// repository root given as argv[1]), the sha256 of the function's source as printed by go/printer
// without comments (all declarations of that name in the file, methods of any receiver, concatenated in
// source order). A function that no longer exists prints "-". Used by lib/vcheck.py to detect that the Go
// source of a function a Coq model mirrors has changed since the model was last reviewed
// (corpus/model_fingerprints.json); formatting and comments do not matter, any token change does.
package main

import (
	"bufio"
	"bytes"
	"crypto/sha256"
	"encoding/hex"
	"fmt"
	"go/ast"
	"go/parser"
	"go/printer"
	"go/token"
	"os"
	"path/filepath"
	"strings"
)

func main() {
	root := os.Args[1]
	cache := map[string]*ast.File{}
	fsets := map[string]*token.FileSet{}
	sc := bufio.NewScanner(os.Stdin)
	for sc.Scan() {
		spec := strings.TrimSpace(sc.Text())
		if spec == "" {
			continue
		}
		i := strings.LastIndex(spec, ":")
		file, fn := spec[:i], spec[i+1:]
		f, ok := cache[file]
		if !ok {
			fset := token.NewFileSet()
			pf, err := parser.ParseFile(fset, filepath.Join(root, file), nil, 0) // comments dropped
			if err != nil {
				pf = nil
			}
			cache[file], fsets[file], f = pf, fset, pf
		}
		if f == nil {
			fmt.Printf("%s\t-\n", spec)
			continue
		}
		var buf bytes.Buffer
		n := 0
		for _, d := range f.Decls {
			fd, ok := d.(*ast.FuncDecl)
			if !ok || fd.Name.Name != fn {
				continue
			}
			fd.Doc = nil
			printer.Fprint(&buf, fsets[file], fd)
			buf.WriteByte('\n')
			n++
		}
		if n == 0 {
			fmt.Printf("%s\t-\n", spec)
			continue
		}
		h := sha256.Sum256(buf.Bytes())
		fmt.Printf("%s\t%s\n", spec, hex.EncodeToString(h[:8]))
	}
}
