// bce_inventory: the drift inventory of property C19.
//
//   go run /verif/translate/bce_inventory.go -repo /repo [-out inventory.json]
//
// 1. Bounds checks. Runs `go build -gcflags=-d=ssa/check_bce/debug=1` on the packages api,
//    masswallet, masswallet/txmgr, masswallet/utils, masswallet/keystore of the repository (production build, no tags)
//    and turns every "Found IsInBounds / IsSliceInBounds" position the compiler could NOT prove
//    into an entry keyed by (file, enclosing function, source expression text) — never by line
//    number, so unrelated edits do not move entries. A position that is the `[` of an index or
//    slice expression yields that expression; any other position is a bounds check of a library
//    function inlined at that call (binary.BigEndian.Uint64(v), hash.String(), hex.EncodeToString …)
//    and yields the call expression.
// 2. Nil sources. (`-gcflags=-d=nil` was tried: on amd64 it reports "removed nil check" for
//    proven AND for implicit, fault-based checks alike — e.g. for tx.go `cacheMeta[h].Height`, which
//    does panic — so it cannot separate safe from unsafe dereferences and is not used.) Instead the
//    source is parsed (go/ast) and, per function, every local variable that is DEREFERENCED
//    (`v.f`, `v.m()`, `*v`) and whose value comes from a call, an index expression (map or slice
//    element), a type assertion or a range clause is listed with its defining expressions and with
//    whether the function compares it with nil. Keyed by (file, function, variable, defining
//    expression text).
// The entries are consumed by checks/C19.py, which compares them with the pinned inventory
// /verif/corpus/C19_inventory.json.
package main

import (
	"bytes"
	"encoding/json"
	"flag"
	"fmt"
	"go/ast"
	"go/parser"
	"go/printer"
	"go/token"
	"os"
	"os/exec"
	"path/filepath"
	"regexp"
	"sort"
	"strconv"
	"strings"
)

type Entry struct {
	Kind  string `json:"kind"` // index | slice | inlined | nil
	File  string `json:"file"`
	Func  string `json:"func"`
	Expr  string `json:"expr"`
	Var   string `json:"var,omitempty"`
	NilCk bool   `json:"nil_compared,omitempty"`
	SetIn string `json:"set_in,omitempty"` // kind "field": functions that assign the field (composite literal or assignment)
	Count int    `json:"count"` // occurrences of the same key (same text twice in one function)
	Lines []int  `json:"lines"` // informational only, never part of the key
}

func (e *Entry) Key() string {
	return e.Kind + "|" + e.File + "|" + e.Func + "|" + e.Var + "|" + e.Expr
}

var packages = []string{"./api", "./masswallet", "./masswallet/txmgr", "./masswallet/utils", "./masswallet/keystore"}

func text(fset *token.FileSet, n ast.Node) string {
	var b bytes.Buffer
	printer.Fprint(&b, fset, n)
	s := strings.Join(strings.Fields(b.String()), " ")
	if len(s) > 160 {
		s = s[:160] + "…"
	}
	return s
}

func funcName(d *ast.FuncDecl) string {
	if d.Recv != nil && len(d.Recv.List) > 0 {
		t := d.Recv.List[0].Type
		if s, ok := t.(*ast.StarExpr); ok {
			t = s.X
		}
		if id, ok := t.(*ast.Ident); ok {
			return id.Name + "." + d.Name.Name
		}
	}
	return d.Name.Name
}

type parsed struct {
	fset *token.FileSet
	file *ast.File
}

func main() {
	repo := flag.String("repo", "/repo", "repository")
	out := flag.String("out", "", "output file (default stdout)")
	flag.Parse()

	cmd := exec.Command("go", append([]string{"build", "-gcflags=-d=ssa/check_bce/debug=1"}, packages...)...)
	cmd.Dir = *repo
	cmd.Env = append(os.Environ(), "GOFLAGS=-mod=mod", "GOPROXY=off", "GOSUMDB=off", "GOTOOLCHAIN=local")
	raw, err := cmd.CombinedOutput()
	if err != nil {
		fmt.Fprintf(os.Stderr, "bce_inventory: go build failed: %v\n%s\n", err, raw)
		os.Exit(1)
	}
	posRe := regexp.MustCompile(`^([^:\s]+\.go):(\d+):(\d+): Found (IsInBounds|IsSliceInBounds)`)
	type pos struct {
		line, col int
		slice     bool
	}
	sites := map[string][]pos{}
	nfound := 0
	for _, l := range strings.Split(string(raw), "\n") {
		m := posRe.FindStringSubmatch(l)
		if m == nil {
			continue
		}
		ln, _ := strconv.Atoi(m[2])
		col, _ := strconv.Atoi(m[3])
		sites[m[1]] = append(sites[m[1]], pos{ln, col, m[4] == "IsSliceInBounds"})
		nfound++
	}
	if nfound == 0 {
		fmt.Fprintln(os.Stderr, "bce_inventory: the compiler reported no bounds check at all (flag not understood?)")
		os.Exit(1)
	}

	funcs := map[string][]string{} // file -> functions declared (so that a modelled function that vanished is noticed)
	entries := map[string]*Entry{}
	add := func(e *Entry, line int) {
		k := e.Key()
		if old, ok := entries[k]; ok {
			old.Count++
			old.Lines = append(old.Lines, line)
			old.NilCk = old.NilCk || e.NilCk
			return
		}
		e.Count = 1
		e.Lines = []int{line}
		entries[k] = e
	}

	// every production source file of the four packages
	var files []string
	for _, p := range packages {
		l, _ := filepath.Glob(filepath.Join(*repo, p, "*.go"))
		for _, f := range l {
			if strings.HasSuffix(f, "_test.go") || strings.HasSuffix(f, "_verif.go") || strings.HasSuffix(f, ".pb.go") || strings.HasSuffix(f, ".pb.gw.go") {
				continue
			}
			files = append(files, f)
		}
	}
	sort.Strings(files)
	// pre-pass: which functions set which struct field (composite literal key or `x.f = …`)
	fieldSet := map[string]map[string]bool{}
	noteField := func(name, fn string) {
		if fieldSet[name] == nil {
			fieldSet[name] = map[string]bool{}
		}
		fieldSet[name][fn] = true
	}
	for _, path := range files {
		fset := token.NewFileSet()
		f, err := parser.ParseFile(fset, path, nil, 0)
		if err != nil {
			continue
		}
		for _, d := range f.Decls {
			fd, ok := d.(*ast.FuncDecl)
			if !ok || fd.Body == nil {
				continue
			}
			fn := funcName(fd)
			ast.Inspect(fd.Body, func(n ast.Node) bool {
				switch t := n.(type) {
				case *ast.CompositeLit:
					for _, el := range t.Elts {
						if kv, ok := el.(*ast.KeyValueExpr); ok {
							if id, ok := kv.Key.(*ast.Ident); ok {
								noteField(id.Name, fn)
							}
						}
					}
				case *ast.AssignStmt:
					for _, l := range t.Lhs {
						if se, ok := l.(*ast.SelectorExpr); ok {
							noteField(se.Sel.Name, fn)
						}
					}
				}
				return true
			})
		}
	}
	setIn := func(field string) string {
		var l []string
		for fn := range fieldSet[field] {
			l = append(l, fn)
		}
		sort.Strings(l)
		if len(l) > 6 {
			l = append(l[:6], "…")
		}
		return strings.Join(l, ",")
	}
	for _, path := range files {
		rel, _ := filepath.Rel(*repo, path)
		fset := token.NewFileSet()
		f, err := parser.ParseFile(fset, path, nil, 0)
		if err != nil {
			fmt.Fprintf(os.Stderr, "bce_inventory: %v\n", err)
			os.Exit(1)
		}
		for _, d := range f.Decls {
			fd, ok := d.(*ast.FuncDecl)
			if !ok || fd.Body == nil {
				continue
			}
			fn := funcName(fd)
			funcs[rel] = append(funcs[rel], fn)
			// ---- bounds checks inside this function
			for _, p := range sites[rel] {
				start, end := fset.Position(fd.Pos()), fset.Position(fd.End())
				if p.line < start.Line || p.line > end.Line {
					continue
				}
				var best ast.Node
				kind := ""
				var call *ast.CallExpr
				ast.Inspect(fd, func(n ast.Node) bool {
					if n == nil {
						return false
					}
					switch t := n.(type) {
					case *ast.IndexExpr:
						q := fset.Position(t.Lbrack)
						if q.Line == p.line && q.Column == p.col {
							best, kind = t, "index"
						}
					case *ast.SliceExpr:
						q := fset.Position(t.Lbrack)
						if q.Line == p.line && q.Column == p.col {
							best, kind = t, "slice"
						}
					case *ast.CallExpr:
						a, b := fset.Position(t.Pos()), fset.Position(t.End())
						in := (a.Line < p.line || (a.Line == p.line && a.Column <= p.col)) && (b.Line > p.line || (b.Line == p.line && b.Column >= p.col))
						if in {
							call = t // innermost wins (Inspect is pre-order, children later)
						}
					}
					return true
				})
				if best == nil && call != nil {
					best, kind = call, "inlined"
				}
				if best == nil {
					add(&Entry{Kind: "unlocated", File: rel, Func: fn, Expr: fmt.Sprintf("col %d", p.col)}, p.line)
					continue
				}
				add(&Entry{Kind: kind, File: rel, Func: fn, Expr: text(fset, best)}, p.line)
			}
			// ---- nil sources
			nilSources(fset, rel, fn, fd, add)
			nilExprs(fset, rel, fn, fd, add, setIn)
		}
	}

	var list []*Entry
	for _, e := range entries {
		sort.Ints(e.Lines)
		list = append(list, e)
	}
	sort.Slice(list, func(i, j int) bool { return list[i].Key() < list[j].Key() })
	res := map[string]interface{}{
		"generator":        "translate/bce_inventory.go",
		"compiler_reports": nfound,
		"functions":        funcs,
		"entries":          list,
	}
	b, _ := json.MarshalIndent(res, "", " ")
	if *out == "" {
		os.Stdout.Write(b)
		fmt.Println()
		return
	}
	if err := os.WriteFile(*out, append(b, '\n'), 0644); err != nil {
		fmt.Fprintln(os.Stderr, err)
		os.Exit(1)
	}
}

func nilSources(fset *token.FileSet, rel, fn string, fd *ast.FuncDecl, add func(*Entry, int)) {
	defs := map[string][]ast.Expr{} // variable -> defining expressions (calls, index expressions, type assertions, range)
	defLine := map[string]int{}
	record := func(id *ast.Ident, rhs ast.Expr) {
		if id == nil || id.Name == "_" || id.Name == "err" || id.Name == "ok" {
			return
		}
		switch rhs.(type) {
		case *ast.CallExpr, *ast.IndexExpr, *ast.TypeAssertExpr:
		default:
			if _, isRange := rhs.(*ast.UnaryExpr); !isRange {
				return
			}
		}
		defs[id.Name] = append(defs[id.Name], rhs)
		if defLine[id.Name] == 0 {
			defLine[id.Name] = fset.Position(id.Pos()).Line
		}
	}
	ast.Inspect(fd.Body, func(n ast.Node) bool {
		switch t := n.(type) {
		case *ast.AssignStmt:
			if len(t.Rhs) == 1 && len(t.Lhs) >= 1 {
				for _, l := range t.Lhs {
					if id, ok := l.(*ast.Ident); ok {
						record(id, t.Rhs[0])
					}
				}
			} else {
				for i, l := range t.Lhs {
					if id, ok := l.(*ast.Ident); ok && i < len(t.Rhs) {
						record(id, t.Rhs[i])
					}
				}
			}
		case *ast.RangeStmt:
			if id, ok := t.Value.(*ast.Ident); ok && id.Name != "_" {
				defs[id.Name] = append(defs[id.Name], &ast.UnaryExpr{Op: token.RANGE, X: t.X})
				if defLine[id.Name] == 0 {
					defLine[id.Name] = fset.Position(id.Pos()).Line
				}
			}
		}
		return true
	})
	if len(defs) == 0 {
		return
	}
	deref := map[string]bool{}
	nilck := map[string]bool{}
	ast.Inspect(fd.Body, func(n ast.Node) bool {
		switch t := n.(type) {
		case *ast.SelectorExpr:
			if id, ok := t.X.(*ast.Ident); ok {
				if _, known := defs[id.Name]; known {
					deref[id.Name] = true
				}
			}
		case *ast.StarExpr:
			if id, ok := t.X.(*ast.Ident); ok {
				if _, known := defs[id.Name]; known {
					deref[id.Name] = true
				}
			}
		case *ast.BinaryExpr:
			if t.Op == token.EQL || t.Op == token.NEQ {
				for _, pair := range [][2]ast.Expr{{t.X, t.Y}, {t.Y, t.X}} {
					if id, ok := pair[0].(*ast.Ident); ok {
						if nl, ok := pair[1].(*ast.Ident); ok && nl.Name == "nil" {
							nilck[id.Name] = true
						}
					}
				}
			}
		}
		return true
	})
	for v, exprs := range defs {
		if !deref[v] {
			continue
		}
		seen := map[string]bool{}
		for _, e := range exprs {
			var s string
			if u, ok := e.(*ast.UnaryExpr); ok && u.Op == token.RANGE {
				s = "range " + text(fset, u.X)
			} else {
				s = text(fset, e)
			}
			if seen[s] {
				continue
			}
			seen[s] = true
			add(&Entry{Kind: "nil", File: rel, Func: fn, Var: v, Expr: s, NilCk: nilck[v]}, defLine[v])
		}
	}
}

// nilExprs lists dereferences whose operand is not a plain variable: the result of a call
// (`f().m()`), of an index expression (`m[k].f`) — kind "nilx" — and pointer-typed fields of the
// receiver (`h.taskChan.m()`, kind "field", with the functions that assign the field: a field set
// only by a constructor literal is never nil afterwards, one set by a goroutine may be).
func nilExprs(fset *token.FileSet, rel, fn string, fd *ast.FuncDecl, add func(*Entry, int), setIn func(string) string) {
	recv := ""
	if fd.Recv != nil && len(fd.Recv.List) > 0 && len(fd.Recv.List[0].Names) > 0 {
		recv = fd.Recv.List[0].Names[0].Name
	}
	ast.Inspect(fd.Body, func(n ast.Node) bool {
		se, ok := n.(*ast.SelectorExpr)
		if !ok {
			return true
		}
		line := fset.Position(se.Pos()).Line
		switch x := se.X.(type) {
		case *ast.CallExpr:
			// package-level constructors returning values (massutil.ZeroAmount().X) are as likely as methods; keep all
			add(&Entry{Kind: "nilx", File: rel, Func: fn, Expr: text(fset, x)}, line)
		case *ast.IndexExpr:
			add(&Entry{Kind: "nilx", File: rel, Func: fn, Expr: text(fset, x)}, line)
		case *ast.SelectorExpr:
			if id, ok := x.X.(*ast.Ident); ok && recv != "" && id.Name == recv {
				add(&Entry{Kind: "field", File: rel, Func: fn, Expr: text(fset, x), SetIn: setIn(x.Sel.Name)}, line)
			}
		}
		return true
	})
}
