import sys
pid, flavour, focus = sys.argv[1], sys.argv[2], sys.argv[3]
prop = open('/tmp/prop-%s.txt' % pid).read()
print(f"""You are helping to test a verification effort by mutation. You work ONLY inside the scratch git worktree /tmp/seed8-{pid} (a checkout of the Go repository massnetorg/MassNet-wallet, module massnet.org/mass-wallet, a full-node wallet) and write your results to /tmp/seed8-{pid}-out/. Do NOT read or touch /verif or /repo; do not look for other directories under /tmp. There is no network: every shell call needs
  export GOFLAGS=-mod=mod GOPROXY=off GOSUMDB=off GOTOOLCHAIN=local
(the dependency mass-core is in the module cache under /root/go/pkg/mod/github.com/massnetorg/).

Here is a semantic property the wallet is supposed to satisfy:

{prop}

YOUR TASK: produce a REALISTIC change to the non-test Go source of the worktree (something that could pass code review: a plausible optimisation, refactoring, clean-up, "simplification", caching, reordering or misguided bug fix — not sabotage that is visible at a glance, no dead branches on magic values) that BREAKS this property, while
  (a) `go build ./...` and `go build -tags verif ./...` still succeed, and
  (b) the existing test suite still passes: at least `go test -count=1 -vet=off ./<pkg>/` for every package you touched and for ./masswallet/ ./masswallet/txmgr/ ./masswallet/keystore/... ./masswallet/db/... ./config/ (the api package's own tests fail before any change: just keep it compiling). Keystore tests take ~2 minutes, be patient; do not run more than two `go test` at a time.
Aim at THIS part of the property: {focus}.
The breakage must NOT show in ordinary use: it must need something specific to manifest — {flavour}. A change that any simple smoke test of the feature would expose at once is not wanted.

Then write a DEMONSTRATION: a Go test file (or a small Go program) that FAILS with your change and PASSES without it (verify both by stashing your change: `git stash` / `git stash pop`, or `git diff > p; git apply -R p`). The demonstration should show the property violation at the level the property speaks about (observable behaviour), not just an internal difference. Files named *_verif.go with build tag `verif` contain test accessors you may use in the demo (run it with -tags verif in that case).

Read the relevant code thoroughly first (start at README/docs and the packages api/, masswallet/, masswallet/txmgr, masswallet/keystore, masswallet/db, masswallet/utils) and think about what the property needs from several cooperating places; the best seeds are ones where each site looks fine on its own.

DELIVERABLES in /tmp/seed8-{pid}-out/ :
  patch.diff   — `git diff` of the NON-test source change only (must apply with `git apply` to a clean checkout)
  <demo file(s)> — the demonstration test/program, plus RUN.txt saying where to copy it and the exact command
  meta.json    — {{"property": "{pid}", "summary": "<what the change does and why it breaks the property>", "needs": "<what exactly is needed for it to manifest, and what does NOT trigger it>", "files_touched": [...], "demo_files": ["<file> -> <path in repo>"], "demo_cmd": "export GOFLAGS=-mod=mod GOPROXY=off GOSUMDB=off GOTOOLCHAIN=local; go test ...", "demo_fails_with_patch": true, "demo_passes_without_patch": true, "demo_output_with_patch": "...", "demo_output_without_patch": "...", "existing_tests_run": ["<cmd> -> <result>", ...]}}
Leave the worktree WITH your change applied and the demo file in place. Do not commit. Your final message: a 5-line summary (what, where, what it needs, demo command, test results).""")
