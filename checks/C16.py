"""C16 — output-script classification agrees with consensus templates and never crashes.
proof (coq/Properties/C16.v) + correspondence of the extracted model with utils.ParsePkScript, the
wallet's script builders and api.extractAddressInfos, + the property's predicate evaluated on the
implementation's observations against the consensus library itself (txscript.GetScriptClass,
txscript.ExtractPkScriptAddrs, massutil address encoding) and against the byte-level templates."""
import json
import os
import vcheck as V

PID = "C16"
TRUSTED = [
    "Coq 8.16.1 kernel (coqc); vm_compute only in closed witnesses (E2/E3 scripts, raw-target counterexample) and Examples; no native_compute",
    "axioms: none (Print Assumptions: Closed under the global context for every theorem)",
    "translator harness/cmd/gen: MinFrozenPeriod into coq/Gen/Consts.v on every run; SequenceLockTimeMask, MASSIP0002BindingLockedPeriod, MaxDataCarrierSize, MaxScriptElementSize are restated in Codec/Script.v and compared with the compiled values on every run (harness lines K)",
    "extraction: ExtrOcamlBasic only; Z/positive/nat stay inductive; ocamlfind ocamlopt 4.13.1; ocaml/common/conv.ml + ocaml/C16/driver.ml (hex, printing, oracle table lookup)",
    "Go harness harness/cmd/c16 (generators, recover() wrappers, projection of addresses to the data they encode via type switch / massutil.DecodeAddress) built from /repo with -tags verif; add-only exports /repo/api/extract_verif.go, /repo/masswallet/script_verif.go",
    "oracles (not modelled): btcec.ParsePubKey's verdict per key (recorded by the harness, looked up by the model); bech32/base58check encoders (injective Section hypotheses in the proofs; on every run decode(encode) is checked on each observed address string)",
    "modelled, not verified: mass-core txscript (parseScript, typeOfScript, GetParsedOpcode, ExtractPkScriptAddrs, ScriptBuilder.AddData, PayTo*Script), massutil address constructors, wire.IsValidFrozenPeriod are re-stated in Gallina (Codec/Script.v) and tied to the compiled dependency by the same correspondence run",
]

KEY_E2 = "extract-binding-target-index"
KEY_E3 = "masscore-multisig-offcurve-nil"
TWO64 = 1 << 64


def le(b):
    return int.from_bytes(b, "little")


def template_of(raw):
    """the witness-v0 templates as byte layouts (third, independent statement of the specification)"""
    if len(raw) >= 34 and raw[0] == 0 and raw[1] == 32:
        h, rest = raw[2:34], raw[34:]
        if not rest:
            return ("std", h, None)
        if rest[0] == 8 and len(rest) == 9:
            return ("staking", h, rest[1:])
        if rest[0] in (20, 22) and len(rest) == 1 + rest[0]:
            return ("binding", h, rest[1:])
    return None


def target_valid(t):
    return len(t) == 20 or (len(t) == 22 and t[20] in (0, 1) and 20 <= t[21] <= 200)


def expected_reading(raw, consts):
    """what the property says the wallet must read; None = unsupported"""
    t = template_of(raw)
    if t is None:
        return None
    kind, h, x = t
    hh = h.hex()
    if kind == "std":
        return "ok|1|0|0|w0:%s|-" % hh
    if kind == "staking":
        return "ok|2|1|%d|w0:%s|w1:%s" % ((le(x) + 1) % TWO64, hh, hh)
    if not target_valid(x):
        return None
    if len(x) == 20:
        return "ok|3|0|0|w0:%s|pkh:%s" % (hh, x.hex())
    return "ok|3|0|%d|w0:%s|bt:%s" % (consts["BindingLockedPeriod"], hh, x.hex())


def split_addrs(a):
    """A field -> (class, reqsigs, [addr data]) or None"""
    if not a.startswith("ok|"):
        return None
    _, c, r, l = a.split("|")
    return int(c), int(r), ([x for x in l.split(",")] if l else [])


def predicate_script(raw, P, X, C, A, Z, consts):
    """Property C16 on the implementation's observations. Returns (list of problems, key or None)."""
    probs = []
    key = None
    cons = int(C) if C.isdigit() else -1
    addrs = split_addrs(A)
    if cons < 0:
        probs.append("GetScriptClass panicked: " + C)
    if P.startswith("panic"):
        probs.append("utils.ParsePkScript panics (%s)" % P)
    if X.startswith("panic"):
        probs.append("api.extractAddressInfos panics (%s)" % X)
        if X == "panic|index" and cons == 3 and addrs is not None and len(addrs[2]) == 1 and not P.startswith("panic"):
            key = KEY_E2
        elif X == "panic|nil" and cons == 4 and A == "panic|nil" and not P.startswith("panic"):
            key = KEY_E3
    want = expected_reading(raw, consts)
    if P.startswith("ok"):
        if "!" in P:
            probs.append("PkScript accessors disagree with its address objects: " + P)
        f = P.split("|")
        pc, std, sec = int(f[1]), f[4], f[5]
        if want != P:
            probs.append("wallet reads %s, the templates give %s" % (P, want))
        if pc != cons:
            probs.append("wallet class %d, consensus GetScriptClass %d" % (pc, cons))
        if addrs is None:
            probs.append("consensus ExtractPkScriptAddrs gives %s for a script the wallet reads" % A)
        else:
            view = [sec] if pc == 2 else [std] + ([sec] if sec != "-" else [])
            if addrs[0] != pc or addrs[2] != view:
                probs.append("consensus addresses %s, wallet %s" % (A, view))
            if pc == 2 and std != "w0:" + sec[3:]:
                probs.append("staking owner %s is not the standard address of %s" % (std, sec))
            z = dict(kv.split("=", 1) for kv in Z.split(";")) if Z != "-" else {}
            wz = [z.get("second", "")] if pc == 2 else [z.get("std", "")] + ([z.get("second", "")] if sec != "-" else [])
            if z.get("A", "").split(",") != wz or "" in wz:
                probs.append("address strings differ: wallet %s, consensus %s" % (wz, z.get("A")))
    elif P.startswith("err"):
        if want is not None:
            probs.append("wallet rejects a script the templates read as %s" % want)
        if cons in (1, 2) or (cons == 3 and addrs is not None and len(addrs[2]) >= 2):
            probs.append("wallet rejects a script of consensus class %d with addresses %s" % (cons, A))
    if X.startswith("ok") and P.startswith("ok"):
        f = P.split("|")
        pc, std, sec = int(f[1]), f[4], f[5]
        x = X.split("|")
        exp = [str(pc), "1", std, sec if pc == 2 else "-"]
        if pc == 3:
            try:
                t = bytes.fromhex(sec.split(":")[1])
            except (ValueError, IndexError):
                # the wallet's reading of a binding script carries a second address that is not a binding target
                # (e.g. a staking address leaked from another script): a finding, not a reason for the check to crash
                probs.append("the wallet reads the script as binding but its second address %r is not a binding target" % sec)
                return probs, key
            exp += [sec, "Chia" if (len(t) == 22 and t[20] == 1) else "MASS", str(t[21]) if len(t) == 22 else "0"]
        else:
            exp += ["-", "-", "-"]
        if x[1:] != exp:
            probs.append("api view %s differs from the wallet's reading %s" % (X, P))
    return probs, key


def predicate_build(f, consts):
    """round trip through the builders. f = fields of a B line."""
    tag = f[0]
    probs = []
    if tag in ("BW", "BK", "BL"):
        d = f[1]
        if tag == "BW":
            R, P = f[2], f[3]
            legal = d.startswith("w0:") and len(d) == 3 + 64
            want = "ok|1|0|0|%s|-" % d
        else:
            p = int(f[2])
            R, P = f[3], f[4]
            legal = d.startswith("w1:") and len(d) == 3 + 64 and consts["MinFrozenPeriod"] <= p <= consts["SequenceLockTimeMask"] - 1
            want = "ok|2|1|%d|w0:%s|%s" % (p + 1, d[3:], d)
        if R.startswith("panic") or P.startswith("panic"):
            probs.append("builder or read-back panics")
        if legal and not R.startswith("ok"):
            probs.append("builder refuses a legal request")
        if not legal and R.startswith("ok"):
            probs.append("builder accepts an illegal request")
        if legal and R.startswith("ok") and P != want:
            probs.append("built script reads back as %s, expected %s" % (P, want))
    elif tag == "BB":
        h, t, R, P, tv = bytes.fromhex(f[1]), bytes.fromhex(f[2]), f[3], f[4], f[5]
        if (tv == "1") != target_valid(t):
            probs.append("massutil accepts/refuses the target differently from the specification")
        legal = len(h) == 32 and len(t) in (20, 22)
        if R.startswith("panic") or P.startswith("panic"):
            probs.append("builder or read-back panics")
        if legal != R.startswith("ok"):
            probs.append("builder result %s for lengths %d/%d" % (R, len(h), len(t)))
        if legal and target_valid(t) and R.startswith("ok"):
            want = "ok|3|0|%d|w0:%s|%s:%s" % (consts["BindingLockedPeriod"] if len(t) == 22 else 0, h.hex(), "pkh" if len(t) == 20 else "bt", t.hex())
            if P != want:
                probs.append("built script reads back as %s, expected %s" % (P, want))
    return probs


def main(tier, replay=None):
    c = V.Check(PID, tier)
    proofs_ok = c.proofs(gen_only=["Consts.v"])
    c.log("proofs:", "ok" if proofs_ok else c.proof_break)

    outs, err = V.go_build(["c16"])
    if outs is None:
        return c.finish(TRUSTED, no_input_break="correspondence harness cmd/c16 no longer builds against /repo: " + err[-1500:])
    exe, err = V.ocaml_build(PID)
    if exe is None:
        return c.finish(TRUSTED, no_input_break="extraction/OCaml build of the model failed: " + err[-1500:])

    impl = os.path.join(c.workdir, "impl.txt")
    dist = ""
    if replay:
        rp = json.load(open(replay))
        lines = []
        for v in rp.get("violations", []):
            rc, o, e = V.sh([outs[0], "-replay", v["replay"]["case"]], timeout=60)
            lines += [l for l in o.splitlines() if not (l.startswith("K\t") and l in lines)]
        open(impl, "w").write("\n".join(lines) + "\n")
    else:
        rc, o, e = V.sh([outs[0], "-tier", tier, "-out", impl], timeout=1500)
        dist = e.strip()
        if rc != 0:
            return c.finish(TRUSTED, no_input_break="harness cmd/c16 failed to run: " + (o + e)[-1500:])
    rc, mo, me = V.sh("%s < %s" % (exe, impl), timeout=1800)
    if rc != 0:
        return c.finish(TRUSTED, no_input_break="model driver failed: " + me[-1500:])
    ilines = V.read_lines(impl)
    mlines = mo.splitlines()
    del mo
    if len(ilines) != len(mlines):
        return c.finish(TRUSTED, no_input_break="model driver answered %d of %d cases" % (len(mlines), len(ilines)))

    consts = {}
    drift = []
    kinds = {}
    outcomes = {}
    nontrivial = 0
    checked = 0
    fails = []   # (size, key, case, description, replay object)
    for il, ml in zip(ilines, mlines):
        f = il.split("\t")
        m = ml.split("\t")
        tag = f[0]
        if tag == "K":
            consts[f[1]] = int(f[2])
            if m != f:
                drift.append("%s: compiled %s, model %s" % (f[1], f[2], m[2] if len(m) > 2 else "?"))
            continue
        checked += 1
        if tag == "S":
            kind, hx, P, X, C, A, O, Z = f[1:9]
            kinds[kind] = kinds.get(kind, 0) + 1
            ok = (P.split("|")[0], X if X.startswith("panic") else X.split("|")[0], C, A if A.startswith("panic") else A.split("|")[0])
            outcomes[ok] = outcomes.get(ok, 0) + 1
            if C != "0" or A == "err" or P.startswith("ok"):
                nontrivial += 1
            raw = bytes.fromhex(hx)
            case = "S:" + hx
            probs, key = predicate_script(raw, P, X, C, A, Z, consts)
            mP, mX, mC, mA, mT = m[3:8]
            diffs = []
            for name, got, mod in (("utils.ParsePkScript", P.split("!")[0], mP), ("api.extractAddressInfos", X, mX),
                                   ("txscript.GetScriptClass", C, mC), ("txscript.ExtractPkScriptAddrs", A, mA)):
                if got != mod:
                    diffs.append("%s gives %s, the model %s" % (name, got, mod))
            if (P.split("!")[0] if P.startswith("ok") else "none") != mT and not P.startswith("panic"):
                diffs.append("Coq specification wallet_spec gives %s" % mT)
            if diffs:
                key = None   # anything that is not exactly a recorded shape is reported per case
            if probs or diffs:
                fails.append((len(raw), key or ("case:" + case), case, "; ".join(probs + diffs),
                              {"case": case, "script": hx, "ParsePkScript": P, "extractAddressInfos": X, "GetScriptClass": C,
                               "ExtractPkScriptAddrs": A, "model": {"parse": mP, "extract": mX, "class": mC, "addrs": mA, "spec": mT},
                               "rerun": "/verif/build/bin/c16 -replay '%s'" % case}))
        else:
            kinds["build:" + tag] = kinds.get("build:" + tag, 0) + 1
            nontrivial += 1
            case = ":".join(f[:2]) if tag == "BW" else ":".join(f[:3])
            probs = predicate_build(f, consts)
            if m != f:
                probs.append("model differs: %s / model %s" % ("|".join(f[2:]), "|".join(m[2:])))
            if probs:
                fails.append((len(il), "case:" + case, case, "; ".join(probs),
                              {"case": case, "impl": f[1:], "model": m[1:], "rerun": "/verif/build/bin/c16 -replay '%s'" % case}))

    fails.sort(key=lambda x: (x[1].startswith("case:") and 1 or 0, x[0]))
    per_key = {}
    for size, key, case, desc, rp in fails:
        per_key[key] = per_key.get(key, 0) + 1
        if key in (KEY_E2, KEY_E3) and per_key[key] > 1:
            continue    # one report per recorded shape (the smallest input), the count is in the evidence
        c.violation(key, desc, rp)

    c.coverage.update({
        "evaluations": checked,
        "distinct_nontrivial": nontrivial,
        "rule": "distinct scripts / builder requests (the harness de-duplicates scripts); non-trivial = consensus class other than nonstandard, "
                "or a script that does not tokenize (truncated push), or a script the wallet reads, or a builder request. "
                "Generator: corpus (E2, E3, OP_RETURN, P2PKH-like, empty, maturity wrap), the three templates with version byte, hash push (31/32/33, OP_DATA/PUSHDATA1/2), "
                "frozen-period encodings and targets of 19..23 bytes with type/size bytes mutated, every prefix of well-formed scripts and overrunning PUSHDATA lengths, "
                "every opcode in each of the first three positions against %d representatives, multisig (valid/off-curve/malformed keys, wrong counts) and nulldata shapes, "
                "PRNG byte strings up to 300 bytes (uniform, template-biased, edited templates, well-formed op sequences), builders on random hashes/periods/targets (%s)"
                % (12 if tier == "quick" else 29, dist),
        "by_kind": kinds,
        "by_outcome (ParsePkScript, extractAddressInfos, GetScriptClass, ExtractPkScriptAddrs)": {"/".join(k): v for k, v in sorted(outcomes.items())},
        "samples": ilines[5:9] + ilines[len(ilines) // 2: len(ilines) // 2 + 3] + ilines[-3:],
        "disagreements_checked": checked,
        "mismatches": len(fails),
        "mismatches_by_key": {k: v for k, v in per_key.items() if not k.startswith("case:")},
        "constants": consts,
    })
    c.assumptions = ["error values are compared only as ErrUnsupportedScript / any other error",
                     "panics are compared by category (index out of range / nil dereference)",
                     "PkScript.SecondScriptAddress/SecondEncodeAddress are called only when IsStaking or IsBinding (documented to panic otherwise)",
                     "one network (config.ChainParams); IsForNet is not exercised"]
    brk = None
    if drift and not c.violations:
        brk = "constants restated in Codec/Script.v differ from the compiled ones: " + "; ".join(drift)
    if not proofs_ok and not c.violations:
        brk = "proof obligations of Properties/C16.v no longer check: " + str(c.proof_break)
    return c.finish(TRUSTED, no_input_break=brk)
