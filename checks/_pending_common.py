"""Shared by checks/C09.py and checks/C10.py: runs harness/cmd/c09 (one binary, -mode c09|c10), replays its
histories on the extracted model coq/Ledger/Pending.v (ocaml/C09/driver.ml), compares every observation
(implementation = model) and evaluates the specification functions (Pending.v: ideal_pending /
settled_pending / spec_flag / spec_*_history / spec_withdrawable, Spec.v: spec_report) on the
implementation's own observations.  Failures are classified into keys by the shape of the history."""
import json
import os
import vcheck as V

# finding key -> generator option of harness/cmd/c09 that produces the shape (-probes).
# The shapes of the three repaired findings (two pending transactions sharing an input, a transaction
# delivered after it was mined, coinbase deposits) are part of the ordinary generator.
PROBES = {
    "stale-pending:foreign-input": "foreign",
    "stale-pending:unseen-parent": "unseen",
}


def rows(s):
    f = s.split()
    return f[1:] if f else []


def flagmap(s):
    return {tuple(r.split(":")[:2]): r.split(":")[2] for r in rows(s)}


def rowmap(s):
    m = {}
    for r in rows(s):
        p = r.split(":")
        m[tuple(p[:7] + p[8:])] = p[7]      # key without the spent-by-unmined field
    return m


def between(im, lo, hi):
    """keys(lo) <= keys(im) <= keys(hi) and lo flag <= im flag <= hi flag"""
    for k, v in lo.items():
        if k not in im or im[k] < v:
            return False
    for k, v in im.items():
        if k not in hi or v > hi[k]:
            return False
    return True


class History:
    """what the check itself needs to know about a history to classify a failure"""

    def __init__(self, lines):
        self.lines = lines
        self.tx = {}        # id -> (coinbase, ins, outs(sh, val, cls))
        self.owned = set()
        self.blocks = {}    # bid -> [txid]
        self.spenders = {}  # (tx, vout) -> set(txid)
        self.prev = {}      # bid -> previous bid
        cur = None
        curb = None
        for l in lines:
            f = l.split()
            if not f:
                continue
            if f[0] == "A":
                self.owned.add(f[1])
            elif f[0] == "B":
                curb = f[1]
                self.blocks[curb] = []
                self.prev[curb] = f[2]
            elif f[0] in ("T", "D"):
                cur = f[1]
                self.tx[cur] = [f[0] == "T" and f[2] == "1", [], []]
                if f[0] == "T" and curb is not None:
                    self.blocks[curb].append(cur)
            elif f[0] == "I" and cur:
                self.tx[cur][1].append((f[1], f[2]))
                self.spenders.setdefault((f[1], f[2]), set()).add(cur)
            elif f[0] == "O" and cur:
                self.tx[cur][2].append((f[1], f[2], f[3]))

    def chain_at(self, upto):
        """node chain (list of block ids) after the first `upto` lines"""
        c = ["0"]
        for l in self.lines[:upto]:
            f = l.split()
            if f[:2] == ["N", "attach"]:
                c.append(f[2])
            elif f[:2] == ["N", "detach"]:
                c.pop()
        return c

    def shown_at(self, upto):
        """transactions delivered to the wallet, or contained in a block of a chain whose tip it accepted, in the first `upto` lines"""
        shown = set()
        for l in self.lines[:upto]:
            f = l.split()
            if not f:
                continue
            if f[0] == "U":
                shown.add(f[1])
            elif f[0] == "P" and len(f) > 2 and f[2] == "ok":
                b = f[1]
                while b in self.blocks and b != "0":
                    shown.update(self.blocks[b])
                    b = self.prev.get(b, "0")
        return shown

    def out_owned(self, op):
        t = self.tx.get(op[0])
        if not t or int(op[1]) >= len(t[2]):
            return False
        return t[2][int(op[1])][0] in self.owned

    def classify_extra_pending(self, tid, nline):
        """why may a transaction the wallet still holds not be pending any more?"""
        chain = self.chain_at(nline)
        onchain = set()
        for b in chain:
            onchain.update(self.blocks.get(b, []))
        if tid in onchain:
            return "pending-while-mined"
        shown = self.shown_at(nline)
        seen = set()

        def dead_cause(t):
            if t in seen or t not in self.tx:
                return None
            seen.add(t)
            for op in self.tx[t][1]:
                others = [x for x in self.spenders.get(op, ()) if x != t and x in onchain]
                parent_on = op[0] in onchain
                if others or (not parent_on and self.tx.get(op[0], [True])[0]):
                    return "wallet" if self.out_owned(op) else "foreign"
                if not parent_on:
                    r = dead_cause(op[0])
                    if r:
                        if op[0] not in shown:
                            return "unseen"      # the wallet was never shown the parent transaction
                        # the dependency itself runs over this output: registered only when it pays the wallet
                        return r if (self.out_owned(op) or r == "unseen") else "foreign"
            return None
        c = dead_cause(tid)
        if c == "foreign":
            return "stale-pending:foreign-input"
        if c == "unseen":
            return "stale-pending:unseen-parent"
        return None

    def conflict_pair_on(self, op):
        return len(self.spenders.get(op, ())) >= 2

    def is_coinbase(self, tid):
        t = self.tx.get(tid)
        return bool(t and t[0])


def run(c, mode, n, extra_args, tag):
    """runs n histories; returns (impl lines by history, model output lines, stats line) or raises RuntimeError"""
    outs, err = V.go_build(["c09"])
    if outs is None:
        raise RuntimeError("correspondence harness cmd/c09 no longer builds against /repo: " + err[-1500:])
    exe, err = V.ocaml_build("C09")
    if exe is None:
        raise RuntimeError("extraction/OCaml build of the pending-set model failed: " + err[-1500:])
    impl = os.path.join(c.workdir, "impl-%s.txt" % tag)
    args = [outs[0], "-mode", mode, "-n", str(n), "-out", impl, "-j", str(V.NCPU)] + extra_args
    rc, o, e = V.sh(args, timeout=3000)
    stats = e.strip().splitlines()[-1] if e.strip() else ""
    if rc != 0:
        raise RuntimeError("harness cmd/c09 failed to run: " + (o + e)[-1500:])
    rc, mo, me = V.sh("%s < %s" % (exe, impl), timeout=3000)
    if rc != 0:
        raise RuntimeError("model driver failed: " + me[-1500:])
    hist = {}
    cur = None
    for l in V.read_lines(impl):
        if l.startswith("H "):
            cur = int(l.split()[1])
            hist[cur] = []
        if cur is not None:
            hist[cur].append(l)
    return hist, mo.splitlines(), stats, outs[0]


def evaluate(c, hist, model_lines, mode, tag, exe_path, extra_args, counters):
    """compares and classifies; registers violations on c; returns the number of failing histories"""
    bad = {}        # history -> (key, description)
    H = {}

    def hobj(h):
        if h not in H:
            H[h] = History(hist.get(h, []))
        return H[h]

    def line_no(h, k):
        # index of the k-th observation line (P,U,Q,F,S,Y,M,R,C,W) in the history
        n = 0
        for i, l in enumerate(hist.get(h, [])):
            if l[:2] in ("P ", "U ", "Q ", "F ", "S ", "Y ", "M ", "R ", "C ", "W ") or l[:3] in ("UC ", "UI ", "GR ", "GU "):
                n += 1
                if n == k:
                    return i + 1
        return len(hist.get(h, []))

    def fail(h, key, what):
        if h not in bad:
            bad[h] = (key, what)

    for l in model_lines:
        f = l.split("\t")
        k = f[0]
        if k == "X":
            counters["harness_errors"].append(l)
            continue
        h = int(f[1])
        counters["lines"] += 1
        counters["kinds"][k] = counters["kinds"].get(k, 0) + 1
        if k in ("P", "U"):
            if f[4] != f[5]:
                fail(h, "history:model", "%s %s: implementation %s, model %s" % ("announcement of block" if k == "P" else "unconfirmed transaction", f[3], f[4], f[5]))
        elif k == "Q":
            _, _, kk, w, quiet, im, mod, spec, cons = f
            if len(im.split()) > 6:
                counters["distinct"].add(im)
            if im != mod:
                fail(h, "history:model", "wallet %s query %s: implementation [%s] model [%s]" % (w, kk, im[:300], mod[:300]))
            if quiet == "1":
                counters["quiescent"] += 1
                if im != spec:
                    fail(h, "history:spec", "wallet %s query %s: reported [%s] but the best chain pays [%s]" % (w, kk, im[:300], spec[:300]))
                elif im.split()[3:5] != cons.split():
                    ho = hobj(h)
                    cb_game = any(ho.is_coinbase(r.split(":")[0]) and ho.tx[r.split(":")[0]][2][int(r.split(":")[1])][2] in ("1", "2", "3")
                                  for r in im.split()[6:] if r.split(":")[0] in ho.tx)
                    fail(h, "coinbase-deposit-maturity" if cb_game else "history:spec",
                         "wallet %s query %s: withdrawable staking/binding %s, consensus allows %s" % (w, kk, im.split()[3:5], cons.split()))
        elif k == "F":
            _, _, kk, w, quiet, im, mod, lo, hi = f
            if " " in im and ":1" in im:
                counters["distinct"].add("F" + im)
            if im != mod:
                fail(h, "history:model", "wallet %s query %s flags: implementation [%s] model [%s]" % (w, kk, im[:300], mod[:300]))
            elif quiet == "1":
                fi, fl, fh = flagmap(im), flagmap(lo), flagmap(hi)
                for op, v in fi.items():
                    if fl.get(op, "0") > v:
                        ho = hobj(h)
                        key = "flag-lost:shared-input-key" if ho.conflict_pair_on(op) else "history:spec"
                        fail(h, key, "wallet %s query %s: coin %s:%s is spent by a pending transaction but not flagged spent_by_unmined" % (w, kk, op[0], op[1]))
                    elif fh.get(op, "0") < v:
                        ho = hobj(h)
                        causes = set()
                        for sp in ho.spenders.get(op, ()):
                            cz = ho.classify_extra_pending(sp, line_no(h, int(kk)))
                            if cz:
                                causes.add(cz)
                        key = sorted(causes)[0] if causes else "history:spec"
                        fail(h, key, "wallet %s query %s: coin %s:%s is flagged spent_by_unmined but no pending transaction spends it" % (w, kk, op[0], op[1]))
        elif k in ("S", "Y"):
            _, _, kk, w, quiet, excl, im, mod, lo, hi = f
            name = "staking" if k == "S" else "binding"
            if len(im.split()) > 1:
                counters["distinct"].add(k + im)
            if im != mod and (k == "S" or quiet == "1"):
                fail(h, "history:model", "wallet %s query %s %s history(excl=%s): implementation [%s] model [%s]" % (w, kk, name, excl, im[:300], mod[:300]))
            elif quiet == "1" and im != "error":
                ri, rl, rh = rowmap(im), rowmap(lo), rowmap(hi)
                if k == "Y" and any(r.split(":")[-1] != "1" for r in rows(im)):
                    fail(h, "history:spec", "wallet %s query %s binding history reports a binding target that is not the one in the output script [%s]" % (w, kk, im[:300]))
                if not between(ri, rl, rh):
                    ho = hobj(h)
                    key = "history:spec"
                    extra = [r for r in ri if r not in rh]
                    missing = [r for r in rl if r not in ri]
                    for r in extra:
                        if r[7] == "1":     # a pending row
                            cz = ho.classify_extra_pending(r[0], line_no(h, int(kk)))
                            if cz:
                                key = cz
                        elif ho.is_coinbase(r[0]):
                            key = "coinbase-deposit-maturity"
                    fail(h, key, "wallet %s query %s %s history(excl=%s): reported [%s], the chain and the pending set give at least [%s] at most [%s]; extra %s missing %s"
                         % (w, kk, name, excl, im[:300], lo[:300], hi[:300], extra[:3], missing[:3]))
        elif k == "M":
            if f[3] != f[4]:
                fail(h, "history:model", "query %s volatile set: implementation [%s] model [%s]" % (f[2], f[3][:300], f[4][:300]))
        elif k == "R":
            _, _, kk, quiet, im, mod, lo, hi = f
            if ":ok" in im:
                counters["distinct"].add("R" + im)
            if im != mod:
                fail(h, "history:model", "query %s pending set read back: implementation [%s] model [%s]" % (kk, im[:300], mod[:300]))
            elif quiet == "1":
                mi = {r.split(":")[0]: r.split(":")[1] for r in rows(im)}
                ml = {r.split(":")[0]: r.split(":")[1] for r in rows(lo)}
                mh = {r.split(":")[0]: r.split(":")[1] for r in rows(hi)}
                for t, v in mi.items():
                    if v == "bad":
                        fail(h, "pending-unreadable", "query %s: pending transaction %s cannot be read back from the store" % (kk, t))
                    elif ml.get(t) == "ok" and v != "ok":
                        fail(h, "history:spec", "query %s: transaction %s is known, unconfirmed and valid but not in the pending set" % (kk, t))
                    elif mh.get(t) == "none" and v != "none":
                        key = hobj(h).classify_extra_pending(t, line_no(h, int(kk))) or "history:spec"
                        fail(h, key, "query %s: transaction %s is still in the pending set although it is confirmed or can never confirm" % (kk, t))
        elif k == "B":
            if f[4] != f[5]:
                names = {"UC": "unmined credits", "UI": "unmined inputs", "GR": "mined deposit rows", "GU": "unmined deposit rows"}
                fail(h, "history:model", "query %s bucket of %s: implementation [%s] model [%s]" % (f[2], names.get(f[3], f[3]), f[4][:300], f[5][:300]))
        elif k == "C":
            _, _, kk, w, quiet, ie, me, all_, half, ins, el = f
            counters["selections"] += 1
            if ie != me:
                fail(h, "history:model", "wallet %s query %s: eligible total by the wallet's listing %s, model %s" % (w, kk, ie, me))
            if all_ == "ok":
                fail(h, "history:spec", "wallet %s query %s: AutoCreateRawTransaction paid out the whole eligible total %s (no fee left): it used a coin that is not eligible" % (w, kk, ie))
            if half == "ok":
                counters["selections_ok"] += 1
                if not set(ins.split()) <= set(el.split()):
                    fail(h, "history:spec", "wallet %s query %s: automatic selection chose %s, eligible are only %s" % (w, kk, sorted(set(ins.split()) - set(el.split())), el[:300]))
        elif k == "W":
            _, _, kk, w, tid, vout, lock, res, seq, mseq, req, csv = f
            counters["withdrawals"] += 1
            if res == "ok":
                counters["withdrawals_ok"] += 1
                if seq != mseq:
                    fail(h, "history:model", "wallet %s: withdrawal of %s:%s built with sequence %s, model %s" % (w, tid, vout, seq, mseq))
                elif csv != "1" or (req != "any" and seq != req):
                    fail(h, "history:spec", "wallet %s: withdrawal of %s:%s built with sequence %s, consensus requires %s" % (w, tid, vout, seq, req))
    for h, (key, what) in sorted(bad.items()):
        c.violation(key, what, {"history": h, "mode": mode, "batch": tag, "lines": hist.get(h, [])[:600],
                                "rerun": "VERIF_SEED=%d %s -worker -mode %s %s -first %d -n 1" % (c.seed, exe_path, mode, " ".join(extra_args), h)})
    return len(bad)


def new_counters():
    return {"lines": 0, "kinds": {}, "distinct": set(), "quiescent": 0, "selections": 0, "selections_ok": 0,
            "withdrawals": 0, "withdrawals_ok": 0, "harness_errors": []}
