"""C13 — mnemonic encoding is exactly BIP-39.
proof (coq/Properties/C13.v) + correspondence of the extracted model (coq/Codec/Bip39.v) with
keystore.NewMnemonic / EntropyFromMnemonic / MnemonicToByteArray / IsMnemonicValid / NewSeed /
NewSeedWithErrorChecking, + three independent oracles evaluated on the implementation's answers:
the extracted bit-level Coq specification (spec_encode / spec_decode / bip39_seed), the harness'
own BIP-39 written from the BIP text (harness/internal/bip39ref), and hashlib here."""
import hashlib
import json
import os
import subprocess
import sys
import vcheck as V

PID = "C13"
TRUSTED = [
    "Coq 8.16.1 kernel (coqc); vm_compute used for facts about the generated 2048-entry word list (length, NoDup, lower-case ASCII), for byte-range sweeps (256 values, lifted by a lemma) and for closed witnesses/examples; no native_compute",
    "axioms: none (Print Assumptions: Closed under the global context for every theorem)",
    "premises of the theorems (not axioms): H (SHA-256), PBKDF2, NFKD are universally quantified functions; the only law used is the typing fact that H returns at least one byte in 0..255 (premise H_byte0)",
    "translator lib/vcheck.py _gen_wordlist: wordlists/english.go -> coq/Gen/Wordlist.v on every run; the harness compares the list in force with its own copy of bips/bip-0039/english.txt (sha256 2f5eed53...dbda)",
    "extraction: ExtrOcamlBasic only; Z/positive/nat stay inductive; ocamlfind ocamlopt 4.13.1; ocaml/common/conv.ml + ocaml/C13/driver.ml (hex, table look-up of the primitives)",
    "primitive tables: the model's SHA-256 / PBKDF2 / NFKD answers are the values recorded by the harness (crypto/sha256; own PBKDF2 from crypto/hmac+sha512 cross-checked against x/crypto/pbkdf2; x/text/unicode/norm); a question outside the table is reported as a correspondence break",
    "Go harness harness/cmd/c13 + harness/internal/bip39ref (generator, recover() wrapper, reference BIP-39 checked against six official vectors on every run) built from /repo with -tags verif",
    "modelled, not verified: math/big SetBytes/Bytes/And/Or/Mul/Div/Exp on non-negative values, strings.Fields/TrimSpace/Join (unicode.IsSpace, UTF-8 decoding), encoding/binary, Go map semantics, uint shift wrap-around are re-stated in Gallina (Codec/Bip39.v)",
]
NPROC = min(12, V.NCPU)


def run_model(exe, lines, workdir, tag, extra_arg=None):
    """Runs the extracted model on the case lines, in parallel chunks. Returns list of output lines or (None, err)."""
    n = max(1, min(NPROC, len(lines) // 50 + 1))
    procs = []
    for i in range(n):
        chunk = lines[i::n]          # round robin: cheap and expensive kinds are spread evenly
        if not chunk:
            continue
        p = os.path.join(workdir, "%s-chunk%d.txt" % (tag, i))
        with open(p, "w") as f:
            f.write("\n".join(chunk) + "\n")
        cmd = [exe] + ([extra_arg] if extra_arg else [])
        procs.append((i, subprocess.Popen(cmd, stdin=open(p), stdout=open(p + ".out", "w"), stderr=subprocess.PIPE, text=True), len(chunk), p + ".out"))
    out = [None] * len(lines)
    for i, pr, cnt, op in procs:
        try:
            _, e = pr.communicate(timeout=3000)
        except subprocess.TimeoutExpired:
            pr.kill()
            return None, "model driver timed out"
        if pr.returncode != 0:
            return None, "model driver failed: " + e[-1500:]
        ls = V.read_lines(op)
        if len(ls) != cnt:
            return None, "model driver answered %d of %d cases" % (len(ls), cnt)
        out[i::n] = ls
    return out, ""


def py_checksummed(ent):
    """bits(entropy) ++ first ENT/32 bits of SHA-256, as a big-endian integer padded to len+1 bytes (what
    MnemonicToByteArray returns without the raw flag)."""
    cs = len(ent) * 8 // 32
    v = (int.from_bytes(ent, "big") << cs) | (hashlib.sha256(ent).digest()[0] >> (8 - cs))
    return v.to_bytes(len(ent) + 1, "big")


def show(r):
    if r.startswith("ok "):
        try:
            b = bytes.fromhex(r[3:])
            if all(32 <= x < 127 for x in b) and len(b) > 40:
                return "ok %r" % b.decode()
        except ValueError:
            pass
    return r


def main(tier, replay=None):
    c = V.Check(PID, tier)
    proofs_ok = c.proofs(gen_only=["Consts.v", "Wordlist.v"])
    c.log("proofs:", "ok" if proofs_ok else c.proof_break)

    outs, err = V.go_build(["c13"])
    if outs is None:
        return c.finish(TRUSTED, no_input_break="correspondence harness cmd/c13 no longer builds against /repo: " + err[-1500:])
    exe, err = V.ocaml_build(PID)
    if exe is None:
        return c.finish(TRUSTED, no_input_break="extraction/OCaml build of the model failed: " + err[-1500:])

    impl = os.path.join(c.workdir, "impl.txt")
    dist = ""
    if replay:
        rp = json.load(open(replay))
        lines = []
        for v in rp.get("violations", []):
            r = v["replay"]
            if not isinstance(r, dict) or "case" not in r:
                continue
            rc, o, e = V.sh([outs[0], "-replay", r["case"]], timeout=120)
            lines += o.splitlines()
        ilines = lines
    else:
        rc, o, e = V.sh([outs[0], "-tier", tier, "-out", impl], timeout=2400)
        dist = e.strip()
        if rc != 0:
            return c.finish(TRUSTED, no_input_break="harness cmd/c13 failed to run: " + (o + e)[-1500:])
        ilines = V.read_lines(impl)
    c.log("harness: %d cases" % len(ilines))
    mlines, err = run_model(exe, ilines, c.workdir, "m")
    if mlines is None:
        return c.finish(TRUSTED, no_input_break=err)
    c.log("model: done")

    breaks = []      # model/implementation differences that are not property failures
    nspec = 0

    def viol(key, what, case, **kw):
        c.violation(key, what, dict({"case": case, "rerun": outs[0] + " -replay '%s'" % case}, **kw))

    # the word list in force is the BIP-39 English list
    for l in dist.splitlines():
        if l.startswith("wordlist "):
            _, n, d = l.split()
            if int(d) >= 0:
                viol("wordlist:%s" % d, "keystore word list differs from bips/bip-0039/english.txt at index %s (length %s)" % (d, n),
                     "E:" + bytes([int(d) >> 3 & 255, (int(d) << 5) & 255] + [0] * 14).hex() if int(d) < 2048 else "E:" + "00" * 16)

    seen, nontrivial, kinds = set(), set(), {}
    nseeds = 0
    for il, ml in zip(ilines, mlines):
        a, b = il.split("\t"), ml.split("\t")
        if a[0] == "E":
            _, kind, eh, tbl, got, orc = a
            _, _, model, spec = b
            key = ("E", eh)
            if key in seen:
                continue
            seen.add(key)
            kinds["E/" + kind] = kinds.get("E/" + kind, 0) + 1
            if got.startswith("ok"):
                nontrivial.add(key)
            case = "E:" + eh
            nspec += 1
            if got != spec or got != orc:
                viol("case:" + case, "NewMnemonic(%s) = %s; BIP-39 gives %s (Coq spec_encode: %s, model: %s)" % (eh, show(got), show(orc), show(spec), show(model)),
                     case, impl=got, model=model, spec=spec, reference=orc)
            elif got != model:
                breaks.append("NewMnemonic(%s): implementation %s, model %s" % (eh, show(got), show(model)))
            continue
        _, kind, sh, ph, tbl, efm, mtba, raw, valid, seedchk, seed, odec, oseed = a
        _, _, mefm, mmtba, mraw, mvalid, mseedchk, mseed, sdec, sseed, canon = b
        key = ("D", sh, ph, seed != "-")
        if key in seen:
            continue
        seen.add(key)
        kinds["D/" + kind] = kinds.get("D/" + kind, 0) + 1
        has_cand = "h:" in tbl       # legal count and only list words (reference splitter + list)
        if has_cand or seed != "-":
            nontrivial.add(key)
        case = "D:%s:%s:%d" % (sh, ph, 1 if seed != "-" else 0)
        sent = bytes.fromhex(sh)
        nspec += 1
        # acceptance and decoded entropy: exactly the valid sentences, with their entropy
        if sdec != odec:
            breaks.append("specification disagreement on %r: Coq spec_decode %s, Go reference %s" % (sent, sdec, odec))
        bad = None
        if efm != odec:
            bad = "EntropyFromMnemonic(%r) = %s; BIP-39: %s" % (sent, efm, odec)
        elif raw != odec:
            bad = "MnemonicToByteArray(%r, true) = %s; BIP-39: %s" % (sent, raw, odec)
        else:
            want = "err"
            if odec.startswith("ok "):
                want = "ok " + py_checksummed(bytes.fromhex(odec[3:])).hex()
            if mtba != want:
                bad = "MnemonicToByteArray(%r) = %s; expected %s (entropy and checksum bits)" % (sent, mtba, want)
        if bad is None and valid != ("true" if has_cand else "false"):
            bad = "IsMnemonicValid(%r) = %s; legal word count and only list words: %s" % (sent, valid, has_cand)
        if bad:
            viol("case:" + case, bad + " (model: %s / %s / %s / %s)" % (mefm, mmtba, mraw, mvalid), case,
                 impl=[efm, mtba, raw, valid], model=[mefm, mmtba, mraw, mvalid], spec=sdec, reference=odec)
        elif (efm, mtba, raw, valid) != (mefm, mmtba, mraw, mvalid):
            breaks.append("sentence %r: implementation %s, model %s" % (sent, (efm, mtba, raw, valid), (mefm, mmtba, mraw, mvalid)))
        # seeds
        if seed != "-":
            nseeds += 1
            want = ("ok " + oseed) if oseed != "-" else "err"
            pw = bytes.fromhex(ph)
            if oseed != "-" and sseed != oseed:
                breaks.append("specification disagreement on the seed of %r / %r: Coq bip39_seed %s, Go reference %s" % (sent, pw, sseed, oseed))
            if seedchk != want:
                # the one tolerated shape: a non-ASCII passphrase used without NFKD, everything else as BIP-39
                k = "case:" + case
                if any(x > 127 for x in pw) and seedchk == mseedchk and seedchk.startswith("ok ") and want.startswith("ok "):
                    k = "seed:passphrase-not-nfkd"
                viol(k, "NewSeedWithErrorChecking(%r, %r) = %s; BIP-39 seed of these words and passphrase: %s (model: %s)" % (sent, pw, seedchk[:40], want[:40], mseedchk[:40]),
                     case, impl=seedchk, model=mseedchk, reference=want, spec=sseed)
            elif seedchk.startswith("ok ") and seed != seedchk[3:]:
                viol("case:" + case, "NewSeed(%r, %r) = %s differs from NewSeedWithErrorChecking = %s" % (sent, pw, seed[:40], seedchk[:40]), case,
                     impl=seed, model=mseed, reference=want)
            elif (seedchk, seed) != (mseedchk, mseed):
                breaks.append("seed of %r / %r: implementation %s %s, model %s %s" % (sent, pw, seedchk[:24], seed[:24], mseedchk[:24], mseed[:24]))

    c.coverage.update({
        "evaluations": len(ilines),
        "distinct_nontrivial": len(nontrivial),
        "rule": "distinct inputs (entropy | sentence+passphrase); non-trivial = entropy of a legal size (a mnemonic is produced) or sentence with a legal "
                "word count and only list words (the checksum logic is reached) or a seed evaluation. Generator (harness/cmd/c13): official vectors, boundary "
                "sentences, per size all-zero/all-one/leading/trailing zero bytes/one-hot/patterns, illegal sizes 0..40,64, PRNG entropies; every produced mnemonic "
                "is decoded and mutated (substituted list/non-list word, re-checksummed substitution, permuted, truncated, extended, re-spaced with the 25 Unicode "
                "white-space code points, pseudo-spaces and broken UTF-8, foreign-language words, garbage). " + dist.replace("\n", " | "),
        "by_kind": kinds,
        "seed_evaluations": nseeds,
        "samples": ilines[:3] + ilines[len(ilines) // 2: len(ilines) // 2 + 3] + ilines[-3:] if len(ilines) > 9 else ilines,
        "disagreements_checked": len(seen),
        "spec_evaluations": nspec,
        "model_breaks": len(breaks),
    })
    c.coverage["samples"] = [s[:600] for s in c.coverage["samples"]]
    c.assumptions = ["error kinds are not compared (only ok/err/panic and the values)",
                     "Go library semantics as restated in Codec/Bip39.v",
                     "SHA-256 / PBKDF2-HMAC-SHA512 / NFKD themselves are outside the property (any function satisfies the theorems); their values come from Go's crypto packages"]
    brk = None
    if not c.violations:
        if breaks:
            brk = "the model coq/Codec/Bip39.v no longer corresponds to masswallet/keystore/mnemonic.go (theorems of Properties/C13.v are about the model): " + " ;; ".join(breaks[:5])
        elif not proofs_ok:
            brk = "proof obligations of Properties/C13.v no longer check: " + str(c.proof_break)
    return c.finish(TRUSTED, no_input_break=brk)
