"""C18 — a failed storage operation can be retried and leaves no trace.
proof (coq/Properties/C18.v over coq/Ledger/Fault*.v) + storage-fault enumeration on the real
wallet: harness/cmd/c18 replays generated histories once undisturbed (recording every numbered
database call of every operation: kind, calling wallet functions, key) and then with the
database wrapper (harness/internal/dbwrap) failing chosen calls (begin, get, put, delete,
commit, ...): one call of every operation, once or repeatedly (index-rule plans), and —
coverage-guided, quick tier — every distinct fault TARGET (operation kind, calling functions,
call kind, key, ordinal) seen in any twin as a single fault, and every distinct target of a
repair / reload / retry path (the calls an operation makes after a first fault) as the SECOND of
two non-adjacent faults inside one operation.  The operation must report the failure or recover,
nothing observable may change, the repeated operation must return what the fault-free twin
returned (same address, same wallet), operations that run undisturbed after faulted ones must
return the twin's results too (a later NewAddress shows a stale in-memory key counter), and the
state must equal the twin's after every operation and at the end; at the end the WHOLE wallet
database (every bucket, every key, read through the wallet's own database interface) must equal
the twin's, except what differs between two fault-free replays (random salts, wall-clock
fields).  A divergence noticed late is attributed by re-running the plan reduced to one faulted
operation with the state compared after every operation.  Runs are also replayed on the
extracted Ledger model (ocaml/C01 driver) and checked against the chain."""
import json
import os
import re
import vcheck as V

PID = "C18"
TRUSTED = [
    "Coq 8.16.1 kernel (coqc), full .vo build; no native_compute",
    "axioms: none expected (see print_assumptions in this file)",
    "extraction: ExtrOcamlBasic only; ocaml/common/conv.ml + ocaml/C01/driver.ml (replays the histories this check emits)",
    "Go harness: harness/internal/dbwrap (database wrapper: numbers every call that has an error or iterator result, makes call k return an injected error without touching the real database; documented nearest-faithful behaviour for Commit / BeginTx / NewIterator), harness/internal/cfsim (script recorder/replayer, fault procedure, snapshots), harness/internal/sim + harness/internal/hist, harness/cmd/c18",
    "dbwrap fault sets (call k and call k+d of one operation, numbered in the faulted run), call descriptions (kind, two innermost wallet functions, short key) = the fault targets of the coverage-guided plans (harness/cmd/c18/guided.go: persistent worker processes, plans are a function of VERIF_SEED and the twins)",
    "background work is made replayable: the worker goroutine is held (at its next database call) while the API call that queued its task runs, and the harness' own polling reads are not numbered (cfsim.HoldBackground)",
    "whole-database comparison at the end of a guided run (cfsim/store.go): keys / buckets whose content differs between two fault-free replays of the same script are not compared",
    "a FATAL log of the wallet (logrus exit) during a fault run is turned into 'the process stops here' (cfsim/fatal.go) and reported as a divergence",
    "not injected (documented in dbwrap): TopLevelBucket / FetchBucket / Bucket (answer nil for absent and error alike; callers dereference: C19), Rollback (result ignored by every caller), iterator stepping",
    "deterministic entropy: crypto/rand.Reader is replaced during CreateWallet so that a repeated CreateWallet creates the twin's wallet",
    "environment, not verified: mass-core, goleveldb",
    "modelled rather than verified: the wallet operations as store x volatile-cache transformers with a fault position (coq/Ledger/Fault.v)",
]


def main(tier, replay=None):
    c = V.Check(PID, tier)
    proofs_ok = c.proofs(gen_only=["Consts.v"])
    c.log("proofs:", "ok" if proofs_ok else c.proof_break)
    outs, err = V.go_build(["c18"])
    if outs is None:
        return c.finish(TRUSTED, no_input_break="fault harness cmd/c18 no longer builds against the repository: " + err[-1500:])
    exe, err = V.ocaml_build("C01")
    if exe is None:
        return c.finish(TRUSTED, no_input_break="extraction/OCaml build of the Ledger model failed: " + err[-1500:])

    n = 32 if tier == "quick" else 160

    if c.escalated:   # a modelled Go function changed since the pin (c.drift): look harder, no verdict from drift alone

        n *= 3
    out = os.path.join(c.workdir, "impl.txt")
    jobs = int(os.environ.get("VERIF_JOBS", V.NCPU))
    args = [outs[0], "-n", str(n), "-out", out, "-j", str(jobs)]
    # quick: coverage-guided plans (cmd/c18/guided.go) within a budget of runs per history; a modelled Go
    # function whose source changed since the pin (c.drift) raises the budget and the multiplicity.
    # thorough: every call index of every operation + the uniform pairs (k <= 3, 2 <= d <= 6), then the
    # guided plans with multiplicity 4 on 64 further histories
    # (every single-fault target in `mult` histories, every second-fault target of a repair path in `mult2`)
    quota, mult, mult2, legacy = (16, 2, 1, 2) if not c.escalated else (36, 3, 2, 2)
    if tier == "quick":
        passes = [args + ["-guided", "-quota", str(quota), "-mult", str(mult), "-mult2", str(mult2), "-legacy", str(legacy)]]
    else:
        quota, mult, mult2 = 44, 4, 4
        out2 = os.path.join(c.workdir, "impl2.txt")
        passes = [args + ["-all", "-pairs", "3"],
                  [outs[0], "-n", "64", "-first", "1000", "-out", out2, "-j", str(jobs), "-guided", "-quota", str(quota), "-mult", str(mult)]]
    if replay:
        rp = json.load(open(replay))
        os.environ["VERIF_SEED"] = str(rp.get("seed", c.seed))
        chunks = []
        for v in rp.get("violations", [])[:20]:
            r = v.get("replay", {})
            if "history" not in r:
                continue
            cmd = [outs[0], "-worker", "-first", str(r["history"]), "-n", "1"]
            if r.get("only"):
                cmd += ["-only", r["only"]]
            rc, o, e = V.sh(cmd, timeout=900)
            chunks.append(o)
        open(out, "w").write("".join(chunks))
        stats = "replay"
    else:
        stats = ""
        for a in passes:
            rc, o, e = V.sh(a, timeout=3300)
            sl = [l for l in e.strip().splitlines() if l.startswith("STATS ")]
            stats += (" | " if stats else "") + (sl[-1] if sl else "")
            if rc != 0:
                return c.finish(TRUSTED, no_input_break="harness cmd/c18 failed to run: " + (o + e)[-1500:])
        if len(passes) > 1:
            with open(out, "a") as fo:
                fo.write(open(out2).read())

    c.log("harness:", stats[:160])
    model_in = os.path.join(c.workdir, "model.txt")
    runs, traces, harness_err = [], [], []
    foreign, scripts, calls = {}, {}, {}
    targets = {1: {}, 2: {}}     # phase -> target -> (histories that have it, histories it was faulted in)
    observers = [0, 0, 0]        # histories, with a NewAddress of the restored wallet after its import, NewAddress calls that follow an operation on their wallet
    with open(model_in, "w") as mf:
        for l in V.read_lines(out):
            if l.startswith("M "):
                mf.write(l[2:] + "\n")
            elif l.startswith("R "):
                runs.append(l)
            elif l.startswith("V "):
                traces.append(l)
            elif l.startswith("C "):
                f = l.split()
                calls[f[1] + "/" + f[2]] = calls.get(f[1] + "/" + f[2], 0) + int(f[3])
            elif l.startswith("S "):
                f = l.split()
                scripts[int(f[1])] = l
                m = re.search(r"foreign=(\d+)", l)
                foreign[f[1]] = m.group(1) if m else "0"
                m = re.search(r"newaddr_after_import=(\d+) newaddr_after_op_on_wallet=(\d+)", l)
                if m:
                    observers[0] += 1
                    observers[1] += 1 if int(m.group(1)) > 0 else 0
                    observers[2] += int(m.group(2))
            elif l.startswith("G "):
                f = l.split(" ")
                targets[int(f[1])][f[2]] = (int(f[3].split("=")[1]), int(f[4].split("=")[1]))
            elif l.startswith("X "):
                harness_err.append(l)
    rc, mo, me = V.sh("%s < %s" % (exe, model_in), timeout=3000)
    if rc != 0:
        return c.finish(TRUSTED, no_input_break="model driver failed: " + me[-1500:])
    c.log("model: %d lines of output" % len(mo.splitlines()))

    def rerun(h, rid):
        only = rid.split(":", 1)[1] if ":" in rid and not rid.endswith(":twin") else ""
        return {"history": int(h), "only": only,
                "rerun": "VERIF_SEED=%d /verif/build/bin/c18 -worker -first %s -n 1%s   (VERIF_FAULT_STACK=1 prints the stack of the injected fault)" % (c.seed, h, (" -only " + only) if only else "")}

    nev = nfail = nrec = nbg = 0
    kinds = {}
    distinct = set()
    per_key = {}

    def violation(key, what, rr):
        # (the replay file keeps 50 entries: at most 4 per key — the attributed single-operation plans first —
        #  so that every distinct finding of a run is in it)
        per_key[key] = per_key.get(key, 0) + 1
        if per_key[key] <= 4:
            c.violation(key, what, rr)

    found = []
    for l in runs:
        f = l.split(" ")
        h, rid = f[1], f[2]
        kv = dict(x.split("=", 1) for x in f[3:9] if "=" in x)
        nev += int(kv.get("events", 0))
        nfail += int(kv.get("failed", 0))
        nrec += int(kv.get("recovered", 0))
        nbg += int(kv.get("background", 0))
        m = re.search(r"kinds=(\S*)", l)
        for x in (m.group(1) if m else "").split(","):
            if ":" in x:
                k, v = x.split(":")
                kinds[k] = kinds.get(k, 0) + int(v)
                distinct.add(rid + "|" + k)
        if " VIOL " in l:
            key, what = l.split(" VIOL ", 1)[1].split(" ", 1)
            found.append((0 if kv.get("plan") == "attributed" else 1, key, "history %s run %s: %s" % (h, rid, what[:1500]), rerun(h, rid)))
    for l in traces:
        _, h, rid, key, what = l.split(" ", 4)
        found.append((1, key, "history %s run %s: %s" % (h, rid, what[:1500]), rerun(h, rid)))
    for _, key, what, rr in sorted(found, key=lambda x: x[0]):
        violation(key, what, rr)

    nq = nquiet = nproc = 0
    bad = {}
    for l in mo.splitlines():
        f = l.split("\t")
        if f[0] == "X":
            continue
        rid = f[1]
        h = rid.split(":")[0]
        if f[0] == "P":
            nproc += 1
            # (a faulted announcement is refused by the implementation only; the harness then
            #  repeats it, and the repeated one is the line the model sees accepted)
        elif f[0] == "Q":
            nq += 1
            _, _, k, w, quiet, im, mod, spec = f
            if quiet == "1":
                nquiet += 1
                if im != spec and rid not in bad:
                    bad[rid] = ("spec", "wallet %s query %s: reported [%s] but the best chain pays [%s]" % (w, k, im[:400], spec[:400]))
            if im != mod and (quiet == "1" or w != foreign.get(h, "0")) and rid not in bad:
                bad[rid] = ("model", "wallet %s query %s: implementation [%s] model [%s]" % (w, k, im[:400], mod[:400]))
    for rid, (kind, what) in sorted(bad.items()):
        h = rid.split(":")[0]
        if rid.endswith(":twin"):
            c.violation("fault-free-run-vs-model:%s" % kind, "history %s, the fault-free run: %s" % (h, what), rerun(h, rid))
        else:
            c.violation("faulted-run-vs-model:%s" % kind, "history %s run %s (agrees with its twin): %s" % (h, rid, what), rerun(h, rid))

    tcov = {}
    for ph, name in ((1, "single_fault_targets"), (2, "second_fault_targets_in_repair_paths")):
        per, missed = {}, []
        for t, (seen, hit) in sorted(targets[ph].items()):
            lab = t[2:].split("|")[0] if t.startswith("2|") else t.split("|")[0]
            a = per.setdefault(lab, [0, 0])
            a[0] += 1
            a[1] += 1 if hit else 0
            if not hit:
                missed.append(t)
        tcov[name] = {"seen": len(targets[ph]), "faulted": sum(v[1] for v in per.values()),
                      "by_operation_kind_seen_faulted": per, "not_faulted": missed[:60]}
    c.log("fault targets: single %d/%d, second-in-repair-path %d/%d" % (
        tcov["single_fault_targets"]["faulted"], tcov["single_fault_targets"]["seen"],
        tcov["second_fault_targets_in_repair_paths"]["faulted"], tcov["second_fault_targets_in_repair_paths"]["seen"]))

    brk = None
    if harness_err and not c.violations:
        brk = "the harness could not run %d histories/runs: %s" % (len(harness_err), harness_err[0][:600])
    c.coverage.update({
        "divergences_by_key": per_key,
        "evaluations": nev,
        "distinct_nontrivial": len(distinct),
        "rule": "one evaluation = one operation of a replayed history executed with an injected storage fault (create, new address, restore from mnemonic, "
                "remove, block / reorg announcement, background import or removal work): database call number j of the operation fails (plans: fixed j, "
                "j counted from the operation's last call = the commit and the puts before it, j at a fraction of the operation's calls; quick tier samples "
                "plans, thorough tier takes every j), once or repeatedly (the first retry fails at the same call again; two consecutive calls for background "
                "work and announcements); quick tier in addition coverage-guided explicit plans (cmd/c18/guided.go): every distinct fault target of any twin "
                "as a single fault, every distinct target of a repair / reload / retry path as the second of two non-adjacent faults of one operation "
                "(call k and the d-th call after it, numbered in the faulted run; thorough tier: in addition every pair k <= 3, 2 <= d <= 6 as uniform plans "
                "and the guided plans on 64 further histories), each target in up to `mult` histories (again, in a plan of its own, when a plan aimed at it and missed); the NewAddress that follows a faulted operation on the same wallet runs undisturbed and is compared with the twin's. "
                "distinct_nontrivial = distinct (history, plan, kinds of the failing calls). " + stats,
        "fault_target_coverage": tcov,
        "budget": {"guided_runs_per_history_at_most": quota, "multiplicity": mult, "multiplicity_of_second_fault_targets": mult2,
                   "escalated_by_model_source_drift": bool(c.escalated)},
        "observer_newaddress": {"histories": observers[0], "histories_with_newaddress_of_restored_wallet_after_import": observers[1],
                                "newaddress_calls_following_an_operation_on_their_wallet": observers[2]},
        "histories": len(scripts),
        "faulted_runs": len(runs),
        "operation_reported_failure": nfail, "operation_recovered": nrec, "retried_in_background": nbg,
        "failing_call_kinds": kinds,
        "calls_seen_in_fault_free_runs_by_operation_and_kind": calls,
        "model_queries": nq, "quiescent_queries_checked_against_spec": nquiet, "announcements": nproc,
        "samples": [runs[:6]],
        "disagreements_checked": nev + len(runs) + nq,
    })
    c.assumptions = ["node mempool empty, no unconfirmed transactions in these histories", "consensus-valid chains only",
                     "a storage fault = the call returns an error and has no effect (no torn writes, no silent corruption)",
                     "CoinbaseMaturity lowered to 4 and scrypt N to 16 by the harness (package variables)"]
    if not proofs_ok and not c.violations and not brk:
        brk = "proof obligations of Properties/C18.v no longer check: " + str(c.proof_break)
    return c.finish(TRUSTED, no_input_break=brk)
