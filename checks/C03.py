"""C03 — signing yields valid witnesses, alters nothing else, needs the right passphrase.
proof (coq/Properties/C03.v) + correspondence: histories on the real WalletManager (harness/cmd/c03
over internal/sim + internal/hist: coins of all three classes, confirmed and pending; hand-built
unsigned transactions; the six flags; right / wrong / near-miss passphrases interleaved with
SignHash / export / reveal / check / passphrase changes / clear) replayed on the extracted model
(unlock machine + SignRawTx over the perfect-cryptography instance), and the property's own
predicate evaluated independently in the harness (own signature hash, btcec verification against
the address's public key, fresh mass-core engine per input)."""
import json
import os
import vcheck as V

PID = "C03"
TRUSTED = [
    "Coq 8.16.1 kernel (coqc), full .vo build; vm_compute in two closed witnesses (C03_single_unguarded_refuted, C03_ex_sign); no native_compute",
    "axioms: none (Print Assumptions: Closed under the global context for every theorem)",
    "section hypotheses (premises of the theorems, not axioms): unlock_laws (scrypt+SHA-256 digest identifies the passphrase for the stored salt; salted SHA-512 collision-free for the run salt; derived master key non-zero; secretbox opens the stored rows with the right key and not with the zero key; the account key derives the key of every issued address) and sign_laws (ECDSA correctness; the stored public key of an address is the public key of the derived private key = C04_priv_matches_pub; the signature hash ignores witness fields and is 32 bytes; the 1-of-1 redeem script determines its key; mass-core's engine follows the witness template [push(sig++hashtype); redeem], sha256(redeem)=program, verify, CHECKSEQUENCEVERIFY condition of the class)",
    "extraction: ExtrOcamlBasic only; Z/positive/nat stay inductive; ocaml/common/conv.ml + ocaml/C03/driver.ml (line parser, class names); the executed instance is the perfect-cryptography instance Keys/Toy.v (proved to satisfy both law records)",
    "Go harness: harness/internal/sim + internal/hist (real WalletManager on LevelDB, mass-core chain DB in memory), harness/cmd/c03 (generator; own signature-hash implementation, btcec verification, txscript.NewEngine run); scrypt N lowered to 16, CoinbaseMaturity/MinFrozenPeriod lowered, consensus.MASSIP0002WarmUpHeight lowered in every third history (package variables)",
    "hooks (build tag verif): masswallet/hooks_verif.go (VerifStores, VerifReceiveTx, handler accessors), masswallet/keystore/unlock_verif.go (VerifUnlockState, VerifPath)",
    "environment, not verified: mass-core txscript (engine, SignTxOutputWit), btcec, x/crypto scrypt + secretbox, goleveldb",
    "modelled rather than verified: wallet.go SignRawTx, tx.go signWitnessTx (per-input lookup results are inputs of the model: found / unknown / vout out of range / spent / owning address / height), keystore addrmgr.go + manager.go unlock paths",
]
LOCKED = "0,1,1,0,0,0"
# which model the extracted driver runs: True = the salted buffer of checkPassword is freshly
# allocated (Keys/Unlock.v [sfix]); False = the code as found (finding empty-passphrase-zeroes-salt)
SFIX = True
SIX = {"ALL", "NONE", "SINGLE", "ALL|ANYONECANPAY", "NONE|ANYONECANPAY", "SINGLE|ANYONECANPAY"}


def frames_equal(a, b):
    """unlock observables equal except masterKeyZero (2nd component)"""
    x, y = a.split(","), b.split(",")
    return len(x) == len(y) and x[0] == y[0] and x[2:] == y[2:]


def main(tier, replay=None):
    c = V.Check(PID, tier)
    proofs_ok = c.proofs(gen_only=["Consts.v"], extra_targets=["Keys/Exec.vo"])
    c.log("proofs:", "ok" if proofs_ok else c.proof_break)
    outs, err = V.go_build(["c03"])
    if outs is None:
        return c.finish(TRUSTED, no_input_break="correspondence harness cmd/c03 no longer builds against the repository: " + err[-1500:])
    exe, err = V.ocaml_build(PID)
    if exe is None:
        return c.finish(TRUSTED, no_input_break="extraction/OCaml build of the Keys model failed: " + err[-1500:])

    n = 110 if tier == "quick" else 1500

    if c.escalated:   # a modelled Go function changed since the pin (c.drift): look harder, no verdict from drift alone

        n *= 3
    impl = os.path.join(c.workdir, "impl.txt")
    if replay:
        rp = json.load(open(replay))
        firsts = sorted({v["replay"]["history"] for v in rp.get("violations", []) if "history" in v.get("replay", {})})
        os.environ["VERIF_SEED"] = str(rp.get("seed", c.seed))
        lines = []
        for f in firsts[:30]:
            rc, o, e = V.sh([outs[0], "-worker", "-first", str(f), "-n", "1"], timeout=300)
            lines.append(o)
        open(impl, "w").write("".join(lines))
        stats = "replay"
    else:
        rc, o, e = V.sh([outs[0], "-n", str(n), "-out", impl, "-j", str(V.NCPU)], timeout=3000)
        stats = e.strip().splitlines()[-1] if e.strip() else ""
        if rc != 0:
            return c.finish(TRUSTED, no_input_break="harness cmd/c03 failed to run: " + (o + e)[-1500:])
    rc, mo, me = V.sh("%s %s < %s" % (exe, "" if SFIX else "sfix=0", impl), timeout=3000)
    if rc != 0:
        return c.finish(TRUSTED, no_input_break="model driver failed: " + me[-1500:])

    ilines = [l for l in V.read_lines(impl) if l]
    mlines = mo.splitlines()
    cases = [l for l in ilines if l[0] in "OS"]
    if len(cases) != len(mlines):
        return c.finish(TRUSTED, no_input_break="model driver answered %d of %d cases" % (len(mlines), len(cases)))

    hist_lines = {}
    right = {}
    last_obs = {}
    harness_err = []
    corr_breaks = []
    distinct = set()
    kinds = {}
    mi = 0
    nO = nS = 0
    for l in ilines:
        f = l.split("\t")
        if f[0] == "X":
            harness_err.append(l)
            continue
        h = int(f[1])
        hist_lines.setdefault(h, []).append(l)
        if f[0] == "W":
            right[h] = f[2]
            last_obs[h] = LOCKED
            continue
        m = mlines[mi].split("\t")
        mi += 1
        rerun = "VERIF_SEED=%d /verif/build/bin/c03 -worker -first %d -n 1" % (c.seed, h)

        def viol(key, what):
            c.violation(key, what, {"history": h, "line": l[:1500], "model": "\t".join(m), "rerun": rerun})

        prev = last_obs.get(h, LOCKED)
        if f[0] == "O":
            nO += 1
            _, _, kind, passhex, a, hl, arg, im, ob = f[:9]
            last_obs[h] = ob
            is_right = passhex == right.get(h)
            kinds["op:" + kind] = kinds.get("op:" + kind, 0) + 1
            distinct.add(("O", kind, is_right, a != "-", hl, im, prev, ob))
            # the property's predicate: the gate and the frame of refusals
            if kind in ("sh", "ex", "mn", "ck"):
                if kind == "sh" and a == "9.9":
                    want = "err:account-not-found"
                elif kind == "sh" and hl != "32":
                    want = "err:invalid-data-hash"
                else:
                    want = "ok" if is_right else "err:invalid-passphrase"
                if im != want:
                    rawp, rr = bytes.fromhex(passhex), bytes.fromhex(right.get(h, ""))
                    if im == "ok" and not is_right and rawp != rr and rawp.rstrip(b"\x00") == rr:
                        viol("passphrase-trailing-nul-equivalent", "history %d: %s accepted the candidate passphrase %r (the passphrase followed by NUL bytes)" % (h, kind, rawp))
                    elif is_right and im == "err:invalid-passphrase" and prev.split(",")[0] == "1" and prev.split(",")[-1] == "1":
                        viol("empty-passphrase-zeroes-salt",
                             "history %d: %s with the right passphrase is refused: the manager is unlocked and an earlier attempt with the empty passphrase zeroed its salt (state %s)" % (h, kind, prev))
                    elif kind == "mn" and is_right and im == "err:decrypt-failed":
                        viol("mnemonic-after-unlocked-export",
                             "history %d: GetMnemonic with the right passphrase answered 'unable to decrypt' (manager state before: %s)" % (h, prev))
                    else:
                        viol("gate:%s:%s" % (kind, im.split(":other:")[0]),
                             "history %d: %s with %s passphrase answered %s, expected %s (state before %s)" % (h, kind, "the right" if is_right else "a wrong", im, want, prev))
            if im != "ok" and not frames_equal(prev, ob) and ob.split(",")[-1] == "1" and prev.split(",")[-1] == "0":
                viol("empty-passphrase-zeroes-salt", "history %d: refused %s (%s) with passphrase %r zeroed the manager's salt: %s -> %s" % (h, kind, im, bytes.fromhex(passhex), prev, ob))
            elif im != "ok" and kind != "cu" and not frames_equal(prev, ob):
                viol("refusal-changed-state:%s" % kind, "history %d: refused %s (%s) changed the unlock state %s -> %s" % (h, kind, im, prev, ob))
            if im == "panic":
                viol("panic:%s" % kind, "history %d: %s panicked" % (h, kind))
            # correspondence
            if (im.split(":other:")[0], ob) != (m[2], m[5]):
                corr_breaks.append((h, "operation %s: implementation %s / %s, model %s / %s" % (kind, im, ob, m[2], m[5])))
        else:
            nS += 1
            _, _, passhex, flhex, nout, inputs, im, shp, strip, ret, ver, ob = f[:12]
            note = f[12] if len(f) > 12 else ""
            last_obs[h] = ob
            is_right = passhex == right.get(h)
            fl = bytes.fromhex(flhex).decode("latin1")
            ins = [] if inputs == "-" else inputs.split(",")
            nin, no = len(ins), int(nout)
            clean = note.startswith("clean")
            imc = "err:engine" if im.startswith("err:engine") else im
            kinds["flag:" + (fl if fl in SIX else "invalid")] = kinds.get("flag:" + (fl if fl in SIX else "invalid"), 0) + 1
            pend = any(d.split(":")[5] == "-1" and d[0] == "O" for d in ins)
            distinct.add(("S", fl, is_right, inputs, no, imc, shp))
            single_gap = fl.startswith("SINGLE") and nin > no
            if im == "panic":
                viol("sign-pending-input-panic" if pend else "sign-panic",
                     "history %d: SignRawTx panicked (%s) on inputs %s flag %s" % (h, "a pending input" if pend else "no pending input", inputs, fl))
            if strip != "1":
                viol("strip-witness-changed", "history %d: SignRawTx changed a non-witness field of the caller's transaction (inputs %s flag %s result %s)" % (h, inputs, fl, im))
            if ret != "1":
                viol("returned-bytes", "history %d: SignRawTx result %s but the returned bytes are %s" % (h, im, "not the caller's transaction" if im == "ok" else "not nil"))
            if im == "ok" and ver != "1":
                viol("witness-invalid", "history %d: SignRawTx succeeded but the independent check fails: %s (inputs %s flag %s)" % (h, ver, inputs, fl))
            if clean and is_right and fl in SIX and nin > 0 and im != "ok" and im != "panic":
                if im == "err:invalid-passphrase" and prev.split(",")[0] == "1" and prev.split(",")[-1] == "1":
                    viol("empty-passphrase-zeroes-salt",
                         "history %d: SignRawTx with the right passphrase is refused: the manager was unlocked and an earlier attempt with the empty passphrase zeroed its salt (state %s)" % (h, prev))
                elif single_gap and imc == "err:engine" and "witness length" in im:
                    viol("sighash-single-input-without-output",
                         "history %d: flag %s with %d inputs and %d outputs: SignRawTx answered '%s' (witness shape left in the caller's object: %s)" % (h, fl, nin, no, im, shp))
                else:
                    viol("sign-ok:%s" % imc, "history %d: right passphrase, own unspent inputs %s, flag %s, %d outputs: SignRawTx answered %s" % (h, inputs, fl, no, im))
            presigned = any(d.split(":")[7] != "0" for d in ins)
            witsame = "witsame=0" not in note
            if not is_right and nin > 0 and not witsame:
                viol("wrong-pass-material", "history %d: a wrong passphrase (%r) changed the witnesses of the caller's transaction (%s; inputs %s)" % (h, bytes.fromhex(passhex), note, inputs))
            if not is_right and nin > 0 and not (fl.startswith("SINGLE") and no == 0):
                rawp, rr = bytes.fromhex(passhex), bytes.fromhex(right.get(h, ""))
                if im == "ok" and not presigned and rawp != rr and rawp.rstrip(b"\x00") == rr:
                    viol("passphrase-trailing-nul-equivalent", "history %d: SignRawTx accepted the candidate passphrase %r (the passphrase followed by NUL bytes)" % (h, rawp))
                elif im == "ok":
                    viol("wrong-pass-accepted-on-signed-tx" if presigned else "wrong-pass-accepted",
                         "history %d: SignRawTx succeeded with a wrong passphrase (%r), flag %s, %d outputs, on %s (%s)" % (h, bytes.fromhex(passhex), fl, no, inputs, note))
                if not presigned and any(x != "0" for x in shp.split(".")):
                    viol("wrong-pass-material", "history %d: a wrong passphrase left witness data in the transaction: %s" % (h, shp))
                if clean and fl in SIX and not (fl.startswith("SINGLE") and no == 0) and im != "err:invalid-passphrase" and im != "ok":
                    viol("wrong-pass-error:%s" % imc, "history %d: wrong passphrase on signable inputs answered %s, expected the passphrase error" % (h, im))
            if fl in SIX and ob.split(",")[:5] != LOCKED.split(",")[:5]:
                viol("not-locked-after-sign", "history %d: the manager is not locked after SignRawTx: %s" % (h, ob))
            # correspondence
            if (imc, shp, ob) != (m[2], m[3], m[5]) or (im == "ok" and m[4] != "1"):
                corr_breaks.append((h, "SignRawTx(flag %s, %d outputs, inputs %s, %s passphrase): implementation %s / witnesses %s / state %s, model %s / %s / %s" %
                                    (fl, no, inputs, "right" if is_right else "wrong", im, shp, ob, m[2], m[3], m[5])))
    brk = None
    if corr_breaks and not c.violations:
        # model and implementation disagree although the property's predicate holds everywhere
        hs = sorted({h for h, _ in corr_breaks})
        brk = ("the implementation no longer corresponds to the model of Keys/Unlock.v / Keys/Sign.v on %d observations (first: %s); "
               "the theorems of Properties/C03.v are about that model. Histories: %s; rerun: VERIF_SEED=%d /verif/build/bin/c03 -worker -first %d -n 1"
               % (len(corr_breaks), corr_breaks[0][1][:700], hs[:10], c.seed, hs[0]))
    elif corr_breaks:
        c.notes.append("correspondence differences: %d" % len(corr_breaks))
    if harness_err and not c.violations and not brk:
        brk = "the harness could not run %d histories: %s" % (len(harness_err), harness_err[0][:500])
    sample = []
    if hist_lines:
        sample = [l[:300] for l in hist_lines[min(hist_lines)][:14]]
    c.coverage.update({
        "evaluations": nO + nS,
        "distinct_nontrivial": len(distinct),
        "rule": "one evaluation = one SignRawTx call or one keystore operation on a real wallet (2 wallets in one database; coins: standard / staking (frozen 2-5) / old-style binding, "
                "confirmed, spent, foreign and pending; transactions of 0-6 inputs, 0-5 outputs, lock times, payloads; six flags + invalid strings; "
                "right passphrase / one char changed / prefix / suffix / extended / case / empty / long / binary / the public passphrase / another wallet's). "
                "distinct_nontrivial = distinct (operation, flag, passphrase class, input description, outcome, state before/after) tuples. " + stats,
        "sign_calls": nS, "keystore_operations": nO, "by_kind": kinds,
        "histories": len(hist_lines),
        "samples": [sample],
        "disagreements_checked": nO + nS,
        "correspondence_mismatches": len(corr_breaks),
    })
    c.assumptions = ["mass-core's script engine, ECDSA, scrypt, secretbox are environment (assumed by sign_laws / unlock_laws)",
                     "sequential calls (SignRawTx takes no wallet-manager lock; concurrent interleavings are outside this check)",
                     "scrypt N lowered to 16 by the harness"]
    if not proofs_ok and not c.violations and not brk:
        brk = "proof obligations of Properties/C03.v no longer check: " + str(c.proof_break)
    return c.finish(TRUSTED, no_input_break=brk)
