"""C02 — created transactions conserve value and spend only own, mature, free coins.
proof (coq/Properties/C02.v over coq/Tx/{Select,Fee,Build,Proofs}.v) + correspondence:
  * isolated, high volume: topKSelector / optOutputs / maybeSubtractFeeFromAmounts /
    CalcMinRequiredTxRelayFee through masswallet/tx_verif.go against the extracted model;
  * wallet scenarios: UTXO sets produced by real chain histories (internal/hist over internal/sim),
    1-4 consecutive create calls on the real WalletManager (a third of them through the API
    wrappers of api/tx_service.go); every returned transaction is decoded and (a) compared with
    the model's (fee, multiset of input amounts, outputs, change), (b) judged by the property's
    own predicates auto_tx_check / manual_tx_check (extracted from Coq) against the wallet's
    reported UTXO set; every insufficient-funds answer is classified by auto_slack_class /
    manual_slack_class (does an acceptable transaction exist? inside the dust-slack window?)."""
import json
import os
import vcheck as V

PID = "C02"
TRUSTED = [
    "Coq 8.16.1 kernel (coqc), full .vo build; vm_compute only in closed witnesses/examples; no native_compute",
    "axioms: none (Print Assumptions: Closed under the global context for every theorem)",
    "constants: MinRelayTxFee, MaxMass, MaxwellPerMass from coq/Gen/Consts.v (translator harness/cmd/gen, every run); "
    "maxStandardTxSize=100000, 154/63/12 size constants and K=649 are written in coq/Tx and compared on every run with "
    "the values the compiled code reports (line C of the harness output); a difference fails the check",
    "extraction: ExtrOcamlBasic only; Z/positive/nat stay inductive; ocamlfind ocamlopt 4.13.1; ocaml/common/conv.ml + "
    "ocaml/C02/driver.ml (line parsing, canonical sorting of inputs/outputs, no model logic)",
    "Go harness: harness/cmd/c02 (generators, error-class mapping, projection of decoded transactions) over "
    "harness/internal/sim + internal/hist (mass-core chain DB on in-memory storage, real WalletManager on LevelDB), "
    "built from /repo with -tags verif; hooks masswallet/tx_verif.go (calls of unexported functions, unchanged) and hooks_verif.go",
    "the harness tells the model what an explicit input refers to (recorded output of which wallet, class, amount, mined or pending) "
    "from its own knowledge of the chain it built, and the class (standard/staking/binding) of each reported coin from the coin's script",
    "environment, not verified: mass-core (address and script codecs, chain DB, TxPool — empty in the simulation), goleveldb, go-cache (expiry timer)",
    "modelled rather than verified: sort.Slice (any sort: only amount sequences are compared), Go map iteration order "
    "(outputs compared as multisets, first-error choice only within one error class), massutil.Amount range checks",
]

KEY_SLACK = "auto-insufficient-within-dust-slack"
KEY_SHARED = "reservation:shared-coin-freed-by-release"


def run_harness(c, exe_go, tier, replay):
    """returns (path of the concatenated harness output, stats text) or raises RuntimeError"""
    out = os.path.join(c.workdir, "impl.txt")
    pure = os.path.join(c.workdir, "pure.txt")
    scen = os.path.join(c.workdir, "scen.txt")
    rc, o, e = V.sh([exe_go, "-pure", "-tier", tier, "-out", pure], timeout=1800)
    if rc != 0:
        raise RuntimeError("harness cmd/c02 -pure failed: " + (o + e)[-1500:])
    stats = [l for l in e.splitlines() if l.startswith("STATS")][-1:]
    if replay:
        rp = json.load(open(replay))
        os.environ["VERIF_SEED"] = str(rp.get("seed", c.seed))
        firsts = sorted({v["replay"]["scenario"] for v in rp.get("violations", []) if "scenario" in v.get("replay", {})})
        parts = []
        for f in firsts[:40]:
            rc, o, e = V.sh([exe_go, "-worker", "-first", str(f), "-n", "1"], timeout=600)
            parts.append(o)
        open(scen, "w").write("".join(parts))
        stats.append("replay of scenarios %s" % firsts[:40])
    else:
        n = 360 if tier == "quick" else 3500
        if c.escalated:   # a modelled Go function changed since the pin (c.drift): look harder
            n *= 3
        rc, o, e = V.sh([exe_go, "-n", str(n), "-out", scen, "-j", str(V.NCPU)], timeout=3000)
        if rc != 0:
            raise RuntimeError("harness cmd/c02 failed: " + (o + e)[-1500:])
        stats += [l for l in e.splitlines() if "scenarios=" in l][-1:]
    with open(out, "w") as f:
        f.write(open(pure).read())
        f.write(open(scen).read())
    return out, " | ".join(stats)


def main(tier, replay=None):
    c = V.Check(PID, tier)
    proofs_ok = c.proofs(gen_only=["Consts.v"])
    c.log("proofs:", "ok" if proofs_ok else c.proof_break)
    outs, err = V.go_build(["c02"])
    if outs is None:
        return c.finish(TRUSTED, no_input_break="correspondence harness cmd/c02 no longer builds against the repository: " + err[-1500:])
    exe, err = V.ocaml_build(PID)
    if exe is None:
        return c.finish(TRUSTED, no_input_break="extraction/OCaml build of the Tx model failed: " + err[-1500:])
    try:
        impl, stats = run_harness(c, outs[0], tier, replay)
    except RuntimeError as ex:
        return c.finish(TRUSTED, no_input_break=str(ex))
    rc, mo, me = V.sh("%s < %s" % (exe, impl), timeout=3000)
    if rc != 0:
        return c.finish(TRUSTED, no_input_break="model driver failed: " + me[-1500:])
    ilines = [l for l in V.read_lines(impl) if l and l[0] in "CSOFREAMX"]
    mlines = mo.splitlines()
    if len(ilines) != len(mlines):
        return c.finish(TRUSTED, no_input_break="model driver answered %d of %d lines" % (len(mlines), len(ilines)))

    kinds = {}
    outcomes = {}
    distinct = set()
    diffs = []          # correspondence differences whose predicate holds
    harness_err = []
    const_break = None
    slack = {"0": 0, "1": 0, "2": 0}
    for il, ml in zip(ilines, mlines):
        f = ml.split("\t")
        kind, tag, im, mod, pred = f[0], f[1], f[2], f[3], f[4]
        kinds[kind] = kinds.get(kind, 0) + 1
        if kind == "X":
            harness_err.append(il)
            continue
        if kind == "C":
            if im != mod:
                const_break = "constants of the compiled code (K|MinRelayTxFee|maxStandardTxSize|MaxAmount) %s differ from the model's %s" % (im, mod)
            continue
        scenario = None
        if kind in "AME":
            try:
                scenario = int(tag.split(".")[0])
            except ValueError:
                pass
        rp = {"line": il[:6000], "model": mod[:2000], "predicate": pred}
        if scenario is not None:
            rp["scenario"] = scenario
            rp["rerun"] = "VERIF_SEED=%d %s -worker -first %d -n 1" % (c.seed, outs[0], scenario)
        else:
            rp["rerun"] = "VERIF_SEED=%d %s -pure -tier %s | grep -P '^%s\\t%s\\t'" % (c.seed, outs[0], tier, kind, tag)
        if kind in "AM":
            res = im.split("|")
            oc = res[0] + (":" + res[1] if res[0] == "err" else "")
            outcomes[kind + " " + oc] = outcomes.get(kind + " " + oc, 0) + 1
            if res[0] == "ok":
                distinct.add((kind, il.split("\t", 2)[2]))
        elif kind in "SOF":
            if im not in ("err", "b=-;g=-", "ok:-:0") and not im.startswith("err:"):
                distinct.add((kind, il.split("\t", 2)[2]))
        what_fn = {"S": "topKSelector", "O": "optOutputs", "F": "maybeSubtractFeeFromAmounts", "R": "CalcMinRequiredTxRelayFee",
                   "E": "estimateSignedSize", "A": "automatic creation", "M": "CreateRawTransaction"}[kind]
        # ---- the property's predicates on the implementation's observation
        if pred.startswith("fails:"):
            clauses = pred[6:]
            if kind == "M" and "2" in clauses.split(","):
                key = "manual-duplicate-input"
            elif kind == "A" and scenario == 5 and clauses.split(",")[0] == "1":
                # corpus scenario 5 (harness/cmd/c02 corpus): the coin of a still outstanding draft, freed by giving up a
                # later draft that named it explicitly, is taken by the next automatic draft
                key = KEY_SHARED
            elif kind in "AM":
                key = ("auto" if kind == "A" else "manual") + "-clause-" + clauses.split(",")[0]
            else:
                key = "%s-%s" % (what_fn, clauses)
            c.violation(key, "%s %s: the returned result [%s] violates clause(s) %s of the property predicate (model: [%s])"
                        % (what_fn, tag, im[:600], clauses, mod[:600]), rp)
            continue
        if pred.startswith("slack:"):
            cls = pred[6:]
            slack[cls] = slack.get(cls, 0) + 1
            if cls == "1":
                c.violation(KEY_SLACK, "%s %s reports insufficient funds although an acceptable transaction exists "
                            "(funds cover outputs plus a valid fee; surplus inside the dust-change window)" % (what_fn, tag), rp)
            elif cls == "2":
                c.violation("insufficient-beyond-slack", "%s %s reports insufficient funds although the funds exceed outputs + "
                            "largest fee target + MinRelayTxFee (contradicts C02_sufficient_succeeds)" % (what_fn, tag), rp)
        if im != mod:
            diffs.append((kind, tag, "%s %s: implementation [%s], model [%s]" % (what_fn, tag, im[:800], mod[:800]), rp))

    brk = None
    if const_break:
        brk = const_break
    elif harness_err and not c.violations:
        brk = "the harness could not run %d scenarios: %s" % (len(harness_err), harness_err[0][:600])
    elif diffs and not c.violations:
        # correspondence break without a failing input of the property: report the first differences
        d = diffs[0]
        brk = ("correspondence of the Tx model with the code no longer holds on %d cases (the property predicates hold on all "
               "observed results); first: %s ; rerun: %s" % (len(diffs), d[2], d[3]["rerun"]))
    nwallet = kinds.get("A", 0) + kinds.get("M", 0)
    samples = [l[:700] for l in ilines[1:4]]
    for k in "OFAM":
        samples += [l[:900] for l in ilines if l.startswith(k + "\t")][:2]
    c.coverage.update({
        "evaluations": len(ilines),
        "distinct_nontrivial": len(distinct),
        "rule": "one evaluation = one line: an isolated call of topKSelector (S), optOutputs (O), maybeSubtractFeeFromAmounts (F), "
                "CalcMinRequiredTxRelayFee (R), estimateSignedSize (E), or one create call on a wallet whose UTXO set came from a generated "
                "chain history (A automatic/staking/binding, M explicit inputs; 1-4 consecutive calls per wallet, ~30% through the API wrappers). "
                "distinct_nontrivial = distinct (input, result) pairs with a non-empty successful result. Wallet profiles: few coins, many small coins "
                "with ties, equal coins, big+small, more than K=649 coins (overfull path), coins around the relay minimum; plus immature coinbase, "
                "staking and binding coins, a foreign wallet's coins, spent coins, coins spent by pending transactions (delivered through filterTx). "
                "Requests: 1-4 recipients, user fee 0/1/2290/.../>1e6, lock time 0/5/2^40, from own/foreign/invalid, change own/foreign/stranger/invalid, "
                "payload 0-2000 bytes, subtract-fee subsets incl. unknown key, explicit inputs incl. foreign/pending/spent/duplicate/unknown/bad txid/empty. " + stats,
        "by_kind": kinds,
        "wallet_calls": nwallet,
        "outcomes": outcomes,
        "insufficient_answers_classified": {"no acceptable tx exists": slack.get("0", 0), "inside dust-slack window (known finding)": slack.get("1", 0),
                                            "beyond window": slack.get("2", 0)},
        "samples": samples,
        "disagreements_checked": len(ilines) - kinds.get("X", 0),
        "mismatches": len(diffs),
    })
    c.assumptions = [
        "node mempool empty (TxMemPool().CheckPoolOutPointSpend is always false in the simulation); the model has the clause, the harness does not exercise it",
        "reservation cache within its lifetime (5-minute expiry is wall-clock, not modelled)",
        "CoinbaseMaturity lowered to 4, MinFrozenPeriod to 2, scrypt N to 16 by the harness (package variables)",
        "heights stay below MASSIP0002WarmUpHeight (binding inputs keep the default sequence)",
        "error classes compared, not messages: insufficient (ErrInsufficientFunds/ErrNotEnoughInputs), overfull, invalid, dust, other",
        "which of several equal-amount coins is selected is not compared (sort.Slice is unstable); the predicates are evaluated on the coins actually taken",
    ]
    if not proofs_ok and not c.violations and not brk:
        brk = "proof obligations of Properties/C02.v no longer check: " + str(c.proof_break)
    return c.finish(TRUSTED, no_input_break=brk)
