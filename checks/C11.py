"""C11 — the wallet database gives atomic, isolated, ordered key/value transactions.
proof (coq/Properties/C11.v over coq/KV/Model.v) + correspondence of the extracted model with the real
masswallet/db + masswallet/db/ldb on random / exhaustive op sequences against a LevelDB in a temp dir,
+ a second oracle inside the harness (a Go map keyed by (bucket names, key)) that evaluates the property's
predicates directly on the implementation's observations."""
import concurrent.futures as cf
import json
import os
import time
import vcheck as V

PID = "C11"
TRUSTED = [
    "Coq 8.16.1 kernel (coqc); vm_compute only in Examples; no native_compute",
    "axioms: none (Print Assumptions: Closed under the global context for every theorem)",
    "goleveldb is environment, restated in coq/KV/Model.v: DB.Get = s_get, DB.Write(batch) = apply_log (atomic, in recording order), "
    "a range iterator = the ascending entries of [lo,hi) of a snapshot taken at creation (range_entries), util.BytesPrefix = db.BytesPrefix; "
    "DB.GetSnapshot = the store committed at that moment (a read transaction carries it: st_rtx); "
    "durability across Close/Open is goleveldb's and only exercised (close / reopen steps), not proved",
    "Go library semantics restated in Gallina: bytes.Compare/HasPrefix, strings.Split/Join on \"_\", strconv.Itoa, map lookups (KV/Model.v)",
    "extraction: ExtrOcamlBasic only; Z/positive/nat stay inductive; ocamlfind ocamlopt 4.13.1; ocaml/common/conv.ml + ocaml/C11/driver.ml (op parsing, result printing, sorting of listings)",
    "Go harness harness/cmd/c11 (generator, op interpreter, recover() wrapper, 2nd-oracle reference map, canonical sorting of listings) built from /repo with -tags verif",
    "not covered: the rocksdb backend (rdb), the transaction cache hit of FetchBucket for a re-used meta object, concurrent use of one transaction, "
    "aliasing of a value slice mutated by the caller after Put, two LevelDB instances in one process (they share ldb.innerBatch)",
]
TRIVIAL = {"ok", "skip", "nil", "names:[]", "ents:[]", "it:F:nil:-", "dump:"}


def _tmp_env():
    return {"TMPDIR": "/dev/shm"} if os.path.isdir("/dev/shm") and os.access("/dev/shm", os.W_OK) else {}


def run_pair(c, exe_go, exe_ml, args, tag, model_arg=""):
    """Runs the harness with args, then the model on its output. Returns (impl lines, model lines, stderr) or raises."""
    impl = os.path.join(c.workdir, "impl-%s.txt" % tag)
    rc, o, e = V.sh([exe_go] + args + ["-out", impl], timeout=1500, env_extra=_tmp_env())
    if rc != 0:
        raise RuntimeError("harness cmd/c11 failed to run (%s): %s" % (tag, (o + e)[-1500:]))
    rc, mo, me = V.sh("%s %s < %s" % (exe_ml, model_arg, impl), timeout=1800)
    if rc != 0:
        raise RuntimeError("model driver failed (%s): %s" % (tag, me[-1500:]))
    il = V.read_lines(impl)
    ml = mo.splitlines()
    os.remove(impl)
    if len(il) != len(ml):
        raise RuntimeError("model driver answered %d of %d lines (%s)" % (len(ml), len(il), tag))
    return il, ml, e


def split_seqs(il, ml):
    """-> list of (seq id, [(op, impl, ref, model)])"""
    seqs = []
    for a, b in zip(il, ml):
        f = a.split("\t")
        g = b.split("\t")
        op, impl, ref = f[0], f[1] if len(f) > 1 else "", f[2] if len(f) > 2 else "-"
        model = g[1] if len(g) > 1 else ""
        if op.startswith("reset"):
            seqs.append((op.split(" ")[1] if " " in op else "?", []))
            continue
        if not seqs:
            seqs.append(("?", []))
        seqs[-1][1].append((op, impl, ref, model))
    return seqs


def unmerged_rows(c, exe_ml, seqs, idx):
    """Model results of the sequences seqs[i], i in idx, under the model of the levelIterator from before the merging
    repair (driver argument "nomerge" = Model.step_iter_unmerged). -> {i: [model result per row]}"""
    path = os.path.join(c.workdir, "unmerged.txt")
    with open(path, "w") as f:
        for i in idx:
            f.write("reset u%d\n" % i)
            for r in seqs[i][1]:
                f.write(r[0] + "\n")
    rc, mo, me = V.sh("%s nomerge < %s" % (exe_ml, path), timeout=1800)
    if rc != 0:
        raise RuntimeError("model driver failed (nomerge): %s" % me[-1500:])
    out, cur = {}, None
    for line in mo.splitlines():
        g = line.split("\t")
        if g[0].startswith("reset u"):
            cur = int(g[0][len("reset u"):])
            out[cur] = []
        elif cur is not None:
            out[cur].append(g[1] if len(g) > 1 else "")
    return out


def first_failure(rows):
    """index and kind of the first line where the reference predicate fails ('ref') or the model differs ('diff')."""
    for i, (op, impl, ref, model) in enumerate(rows):
        if ref.startswith("BAD"):
            return i, "ref"
        if impl != model:
            return i, "diff"
    return None, None


def fail_key(rows, i, kind):
    op, impl, ref, model = rows[i]
    head = lambda s: s.split(":")[0] if not s.startswith("err") else s
    want = ref[4:] if kind == "ref" else model
    return "%s/%s/%s->%s" % (kind, op.split(" ")[0], head(impl), head(want))


def shrink(c, exe_go, exe_ml, ops, kind, budget_s=25):
    """Drop ops while the sequence still fails in the same way (ref predicate / model diff)."""
    t0 = time.time()

    def failing(cands):
        k = max(1, min(8, V.NCPU, (len(cands) + 3) // 4))
        chunks = [cands[i::k] for i in range(k)]

        def one(j):
            path = os.path.join(c.workdir, "cand%d.txt" % j)
            with open(path, "w") as f:
                for n, cand in enumerate(chunks[j]):
                    f.write("reset c%d\n" % n)
                    for o in cand:
                        f.write(o + "\n")
            il, ml, _ = run_pair(c, exe_go, exe_ml, ["-replay", path], "shrink%d" % j)
            r = [first_failure(rows)[1] == kind for _, rows in split_seqs(il, ml)]
            return r + [False] * (len(chunks[j]) - len(r))
        with cf.ThreadPoolExecutor(max_workers=k) as ex:
            parts = list(ex.map(one, range(k)))
        res = [False] * len(cands)
        for j in range(k):
            for n, v in enumerate(parts[j]):
                res[j + n * k] = v
        return res

    cur = list(ops)
    rounds = 0
    while len(cur) > 1 and time.time() - t0 < budget_s:
        rounds += 1
        cands = [cur[:i] + cur[i + 1:] for i in range(len(cur))]
        ok = failing(cands)
        idx = [i for i, v in enumerate(ok) if v]
        if not idx:
            break
        allc = [o for i, o in enumerate(cur) if i not in set(idx)]
        if len(idx) > 1 and allc and failing([allc])[0]:
            cur = allc
        else:
            cur = cands[idx[0]]
    return cur


def main(tier, replay=None):
    c = V.Check(PID, tier)
    proofs_ok = c.proofs(gen_only=[])
    c.log("proofs:", "ok" if proofs_ok else c.proof_break)

    outs, err = V.go_build(["c11"])
    if outs is None:
        return c.finish(TRUSTED, no_input_break="correspondence harness cmd/c11 no longer builds against /repo: " + err[-1500:])
    exe, err = V.ocaml_build(PID)
    if exe is None:
        return c.finish(TRUSTED, no_input_break="extraction/OCaml build of the model failed: " + err[-1500:])
    c.log("builds done")

    seqs = []
    dist = []
    try:
        if replay:
            rp = json.load(open(replay))
            path = os.path.join(c.workdir, "replay.txt")
            with open(path, "w") as f:
                n = 0
                for v in rp.get("violations", []):
                    f.write("reset replay%d\n" % n)
                    n += 1
                    for o in v["replay"]["ops"]:
                        f.write(o + "\n")
                for o in rp.get("ops", []):
                    f.write(o + "\n")
            il, ml, _ = run_pair(c, outs[0], exe, ["-replay", path], "replay")
            seqs = split_seqs(il, ml)
        else:
            shards = max(1, min(8, V.NCPU))
            with cf.ThreadPoolExecutor(max_workers=shards) as ex:
                futs = [ex.submit(run_pair, c, outs[0], exe, ["-tier", tier, "-shard", "%d/%d" % (i, shards)], "s%d" % i)
                        for i in range(shards)]
                for fu in futs:
                    il, ml, e = fu.result()
                    seqs += split_seqs(il, ml)
                    dist.append(e.strip().splitlines()[-1] if e.strip() else "")
    except RuntimeError as ex:
        return c.finish(TRUSTED, no_input_break=str(ex))
    c.log("ran %d sequences" % len(seqs))

    # The implementation under test may still carry the levelIterator from before the merging repair (the recorded
    # finding write-tx-iterator-not-view): a sequence that differs from the model of the code as it is now (Model.step)
    # but agrees line by line with the model of that iterator (Model.step_iter_unmerged, theorems
    # C11_seek_write_tx_unmerged / C11_write_iter_not_view_refuted) shows that finding and nothing else.
    unmerged_hits = []
    cand = [n for n, (sid, rows) in enumerate(seqs) if first_failure(rows)[1] == "diff"]
    if cand:
        try:
            um = unmerged_rows(c, exe, seqs, cand)
        except RuntimeError as ex:
            return c.finish(TRUSTED, no_input_break=str(ex))
        for n in cand:
            sid, rows = seqs[n]
            alt = um.get(n, [])
            if len(alt) != len(rows):
                continue
            rows2 = [(r[0], r[1], r[2], m) for r, m in zip(rows, alt)]
            if first_failure(rows2)[0] is None:
                i = first_failure(rows)[0]
                unmerged_hits.append((sid, [r[0] for r in rows[:i + 1]], rows[i][0], rows[i][1], rows[i][3]))
                seqs[n] = (sid, rows2)
        c.log("%d of %d sequences differing from the model follow the model of the iterator before the merging repair"
              % (len(unmerged_hits), len(cand)))

    # ---- verdicts
    lines = 0
    judged = 0
    tainted_seqs = 0
    kinds = {}
    nontrivial = set()
    failures = []          # (seq id, rows, index, kind)
    kf_hits = []
    for sid, rows in seqs:
        lines += len(rows)
        t = False
        for op, impl, ref, model in rows:
            k = op.split(" ")[0]
            kinds[k] = kinds.get(k, 0) + 1
            if ref != "-":
                judged += 1
            elif k in ("get", "pfx", "names", "dump"):
                t = True
            if impl not in TRIVIAL:
                nontrivial.add((" ".join(x for x in op.split(" ") if not x.isdigit()), impl))
        tainted_seqs += 1 if t else 0
        i, kind = first_failure(rows)
        if i is not None:
            failures.append((sid, rows, i, kind))
        # the recorded finding (code before the merging repair of levelIterator): an iterator of a write transaction that
        # has touched the range yields the committed entries as they are followed by the net puts (theorem
        # C11_seek_write_tx_unmerged) instead of the transaction's view; reported under its own key, once, with the
        # first sequence showing it
        for j, (op, impl, ref, model) in enumerate(rows):
            if ref.startswith("KF:"):
                kf_hits.append((sid, [r[0] for r in rows[:j + 1]], op, impl, ref[3:]))
                break

    n_ref_hits = len(kf_hits)
    kf_hits += unmerged_hits
    if kf_hits:
        sid, ops, op, impl, want = min(kf_hits, key=lambda h: len(h[1]))
        c.violation("write-tx-iterator-not-view",
                    "sequence %s (%d ops): `%s` on an iterator of the write transaction returned %s, the transaction's own view requires %s "
                    "(%d sequences of this run show it by the reference map, %d follow the model of the iterator before the merging "
                    "repair, step_iter_unmerged, instead of the model of the merging iterator)"
                    % (sid, len(ops), op, impl[:200], want[:200], n_ref_hits, len(unmerged_hits)),
                    {"ops": ops, "failing_op": op, "impl": impl, "view": want, "rerun": "/verif/build/bin/c11 -replay <file with these ops, one per line>"})
    seen_keys = set()
    diffs_only = []
    failures.sort(key=lambda f: (0 if f[3] == "ref" else 1, f[2]))
    for sid, rows, i, kind in failures:
        key = fail_key(rows, i, kind)
        if key in seen_keys:
            continue
        seen_keys.add(key)
        ops = [r[0] for r in rows[:i + 1]]
        if len(seen_keys) <= 3 and not replay:
            try:
                ops = shrink(c, outs[0], exe, ops, kind)
            except RuntimeError as ex:
                c.notes.append("shrink failed: %s" % ex)
        # re-run the (shrunk) sequence to report its own observations
        path = os.path.join(c.workdir, "final.txt")
        with open(path, "w") as f:
            f.write("reset final\n" + "\n".join(ops) + "\n")
        try:
            il, ml, _ = run_pair(c, outs[0], exe, ["-replay", path], "final")
            frows = split_seqs(il, ml)[0][1]
            fi, fk = first_failure(frows)
        except RuntimeError:
            frows, fi, fk = rows, i, kind
        if fi is None:
            frows, fi, fk, ops = rows, i, kind, [r[0] for r in rows[:i + 1]]
        op, impl, ref, model = frows[fi]
        try:   # diagnostic: does the implementation follow the model of the code as first found (no read snapshot)?
            il2, ml2, _ = run_pair(c, outs[0], exe, ["-replay", path], "final-nosnap", model_arg="nosnap")
            if first_failure([(r[0], r[1], "-", r[3]) for r in split_seqs(il2, ml2)[0][1]])[0] is None:
                c.notes.append("on the failing sequence the implementation agrees line by line with the model of the UNREPAIRED code "
                               "(step_unrepaired: a read transaction reads whatever is committed at each read, no snapshot)")
        except RuntimeError:
            pass
        nosnap = " [" + c.notes[-1] + "]" if c.notes and "UNREPAIRED" in c.notes[-1] else ""
        if fk == "ref":
            what = ("sequence %s (%d ops): `%s` returned %s, the property (reference map) requires %s; model says %s"
                    % (sid, len(ops), op, impl[:200], ref[4:][:200], model[:200]))
        else:
            what = ("sequence %s (%d ops): `%s` returned %s, the Coq model (KV/Model.v) says %s; the reference map has no objection (%s)"
                    % (sid, len(ops), op, impl[:200], model[:200], ref))
        what += nosnap
        rep = {"ops": ops, "failing_op": op, "impl": impl, "model": model, "reference": ref,
               "rerun": "/verif/build/bin/c11 -replay <file with these ops, one per line>"}
        if fk == "ref":
            c.violation(key, what, rep)
        else:
            diffs_only.append((key, what, rep))

    samples = []
    for sid, rows in seqs[:1] + seqs[len(seqs) // 2: len(seqs) // 2 + 1]:
        samples += ["%s\t%s\t%s" % (r[0][:80], r[1][:80], r[2][:40]) for r in rows[:6]]
    c.coverage.update({
        "evaluations": lines,
        "sequences": len(seqs),
        "distinct_nontrivial": len(nontrivial),
        "rule": "evaluations = executed ops (each compared with the model; %d of them also judged by the reference map). "
                "distinct_nontrivial = distinct (op without slot numbers, implementation result) pairs whose result carries data "
                "(a value, a non-empty listing / entry set / dump, a positioned iterator, an error). "
                "Generator: per-sequence working sets of 2-4 bucket names and 3-8 keys drawn from adversarial pools "
                "('_', digits, 'b_1_a', 0x00, 0xff runs, '`', empty, 256/257-byte names, 300-byte keys, 700-byte values); "
                "random sequences of 60 (every 10th: 180) ops + every sequence of <= %s ops over a 13-op alphabet after a committed prologue"
                % (judged, "4" if tier == "thorough" else "2"),
        "by_kind": kinds,
        "sequences_with_unjudged_reads": tainted_seqs,
        "harness_stats": dist[:2],
        "samples": samples,
        "disagreements_checked": lines,
        "mismatches": len(failures),
    })
    c.assumptions = [
        "error texts are not compared, only the error identity projected to a small enum",
        "listings (bucket names, prefix reads) are compared as sorted multisets (Go map order is not observable)",
        "behaviour outside the property text is only diffed against the model, not judged: iterators created inside a write transaction, "
        "Bucket()/handles of a bucket deleted earlier in the same transaction, NewBucket twice in one transaction",
    ]
    brk = None
    if not c.violations:
        if diffs_only:
            k, what, rep = diffs_only[0]
            brk = ("correspondence model<->implementation no longer holds (no property violation found by the reference map): "
                   + what + " ; ops: " + " | ".join(rep["ops"]))
        elif not proofs_ok:
            brk = "proof obligations of Properties/C11.v no longer check: " + str(c.proof_break)
    return c.finish(TRUSTED, no_input_break=brk)
