"""C09 — pending transactions are tracked exactly: flagged, not reused, settled once.
proof (coq/Properties/C09.v over coq/Ledger/Pending.v) + correspondence: histories interleaving unconfirmed
transactions (chains, orphans, duplicates, conflicts), block connects, reorganisations and restarts run on the
real WalletManager (harness/cmd/c09 over internal/sim + internal/hist) and replayed on the extracted model;
the specification (what must / may be pending given the best chain, flags, deposit rows, C01's report) is
evaluated on the implementation's own observations."""
import os
import sys
sys.path.insert(0, os.path.dirname(os.path.abspath(__file__)))
import vcheck as V
import _pending_common as PC

PID = "C09"
TRUSTED = [
    "Coq 8.16.1 kernel (coqc), full .vo build; no native_compute; vm_compute only for closed witnesses",
    "axioms: none (Print Assumptions of every theorem of Properties/C09.v: Closed under the global context)",
    "extraction: ExtrOcamlBasic only; N/Z/positive stay inductive; ocaml/common/conv.ml + ocaml/C09/driver.ml (line parser, printers, "
    "bookkeeping of which transactions were broadcast / shown to the wallet for the specification functions)",
    "Go harness: harness/internal/sim (mass-core chain DB on in-memory storage, hand-built blocks on the real genesis, real blockchain.Blockchain "
    "+ real WalletManager on LevelDB in /dev/shm), harness/internal/hist (hist.go generator + pending.go: unconfirmed transactions, projections), harness/cmd/c09",
    "hooks (build tag verif): masswallet/hooks_verif.go — VerifReceiveTx (the real filterTx(tx, nil) without the two p2p look-ups of proccessReceivedTx), "
    "VerifStores (TxStore.ExistUnminedTx), VerifMempool, VerifBest, idle barrier",
    "environment, not verified: mass-core (chain DB answers incl. FetchTxByFileLoc on detached blocks, script templates, address codecs), goleveldb, LevelDB batch atomicity",
    "modelled rather than verified: ntfnshandler.go (filterTx for unconfirmed transactions, processConnectedBlock's volatile bookkeeping), txstore.go "
    "(insertMemPoolTx, insertMinedTx, removeDoubleSpends, removeConflict, Rollback), utxostore.go (unmined inputs/credits, deposit rows, flags) at record level",
]


def main(tier, replay=None):
    c = V.Check(PID, tier)
    proofs_ok = c.proofs(gen_only=["Consts.v"])
    c.log("proofs:", "ok" if proofs_ok else c.proof_break)
    counters = PC.new_counters()
    n = 260 if tier == "quick" else 2200
    if c.escalated:   # a modelled Go function changed since the pin (c.drift): look harder, no verdict from drift alone
        n *= 3
    stats_all = []
    nbad = 0
    nhist = 0
    sample = []
    try:
        if replay:
            import json
            rp = json.load(open(replay))
            os.environ["VERIF_SEED"] = str(rp.get("seed", c.seed))
            todo = sorted({(v["replay"].get("batch", "main"), v["replay"]["history"]) for v in rp.get("violations", []) if "history" in v.get("replay", {})})
            for batch, hno in todo[:20]:
                extra = ["-first", str(hno)] + (["-probes", batch] if batch != "main" else [])
                hist, mo, stats, exe = PC.run(c, "c09", 1, extra, "replay-%s-%d" % (batch, hno))
                nbad += PC.evaluate(c, hist, mo, "c09", batch, exe, [x for x in extra if x not in ("-first", str(hno))], counters)
                nhist += len(hist)
        else:
            hist, mo, stats, exe = PC.run(c, "c09", n, [], "main")
            stats_all.append("main: " + stats)
            nbad += PC.evaluate(c, hist, mo, "c09", "main", exe, [], counters)
            nhist += len(hist)
            sample = hist.get(min(hist), [])[:80] if hist else []
            # shapes that exhibit reported findings: generated when the finding is listed (re-confirmation) or on request
            for key, probe in sorted(PC.PROBES.items()):
                if key in c.known or os.environ.get("VERIF_PROBE"):
                    h2, m2, s2, exe = PC.run(c, "c09", max(40, n // 6), ["-probes", probe], probe)
                    stats_all.append(probe + ": " + s2)
                    nbad += PC.evaluate(c, h2, m2, "c09", probe, exe, ["-probes", probe], counters)
                    nhist += len(h2)
            # the pending set seen from the restore side (directed scenario 200 of harness/cmd/c08, which has the removal /
            # restore machinery): a wallet restored while a known unconfirmed transaction spends one of its coins
            outs8, err8 = V.go_build(["c08"])
            if outs8 is None:
                raise RuntimeError("harness cmd/c08 no longer builds against /repo: " + err8[-1500:])
            rc8, o8, e8 = V.sh([outs8[0], "-scenario", "200"], timeout=300)
            lo = [l for l in o8.splitlines() if l.startswith("C lateowner")]
            if rc8 != 0 or not lo or any(l.startswith("X ") for l in o8.splitlines()):
                raise RuntimeError("the restore-while-pending scenario (cmd/c08 -scenario 200) did not run: " + (o8 + e8)[-800:])
            stats_all.append("restore-while-pending: " + lo[0])
            nhist += 1
            for l in o8.splitlines():
                if l.startswith("V "):
                    f8 = l.split(" ", 2)
                    c.violation(f8[1], f8[2], {"rerun": "/verif/build/bin/c08 -scenario 200", "lines": o8.splitlines()[-60:]})
    except RuntimeError as ex:
        return c.finish(TRUSTED, no_input_break=str(ex))
    brk = None
    if counters["harness_errors"] and not c.violations:
        brk = "the harness could not run %d histories: %s" % (len(counters["harness_errors"]), counters["harness_errors"][0][:500])
    c.coverage.update({
        "evaluations": nhist,
        "distinct_nontrivial": len(counters["distinct"]),
        "rule": "one evaluation = one generated history (1-2 wallets, 10-40 steps: blocks mining pending transactions / held-back conflicts / random "
                "transactions, reorganisations of depth 1-4 re-mining or dropping transactions, unconfirmed transactions spending wallet coins, incoming payments, "
                "children of pending transactions, orphans delivered before their parent, duplicates, conflicting pairs delivered together, transactions delivered after "
                "they were mined, coinbase deposits, restarts of the wallet process, new addresses, queries). "
                "distinct_nontrivial = distinct non-empty observations (reports with coins, flag lists with a flag set, deposit histories with rows, pending sets "
                "with members). " + " | ".join(stats_all),
        "observation_lines_compared": counters["lines"], "by_kind": counters["kinds"],
        "quiescent_queries_checked_against_spec": counters["quiescent"],
        "selections": counters["selections"], "selections_built": counters["selections_ok"],
        "samples": [sample],
        "disagreements_checked": counters["lines"],
        "mismatching_histories": nbad,
    })
    c.assumptions = ["node mempool empty", "consensus-valid chains only",
                     "CoinbaseMaturity lowered to 4, MinFrozenPeriod to 2 and scrypt N to 16 by the harness (package variables)",
                     "unconfirmed transactions are delivered while the wallet is at most one block behind the node (the guard of proccessReceivedTx)",
                     "without -probes foreign no transaction that concerns a wallet depends on a recent non-wallet output (recorded finding stale-pending:foreign-input; "
                     "the shape is generated when the finding is listed in KNOWN_FINDINGS.txt or with VERIF_PROBE=1)",
                     "binding history rows are compared in quiescent states only (GetBindingHistoryDetail reads the transaction by block height from the node)"]
    if not proofs_ok and not c.violations and not brk:
        brk = "proof obligations of Properties/C09.v no longer check: " + str(c.proof_break)
    return c.finish(TRUSTED, no_input_break=brk)
