"""C04 — wallet id and addresses are a function of the mnemonic; keys match addresses.
proof (coq/Properties/C04.v) + correspondence: on the real wallet, create -> N x NewAddress ->
export -> Stop -> import the keystore into a second instance (fresh directory, same node) -> more
addresses -> restart -> ChangePubPassphrase -> restart with the new public passphrase -> import the
(possibly re-spaced) mnemonic with index hints into a third instance; at every stage wallet id,
counters, the address of every index and, for every address, a SignHash signature verified against
the public key an INDEPENDENT BIP-39/BIP-32 implementation derives for that index. The Coq model
(Keys/Derive.v over Codec/Bip32.v, Codec/Bip39.v) is executed on oracle tables of the primitives and
must produce the same id bytes, script hashes, mnemonic and seeds."""
import json
import os
import vcheck as V

PID = "C04"
TRUSTED = [
    "Coq 8.16.1 kernel (coqc), full .vo build; no native_compute",
    "axioms: none (Print Assumptions: Closed under the global context for every theorem)",
    "section hypotheses (premises, not axioms): prim_laws of C14 (HMAC-SHA512 output length; compressed points decode back; k*G is a homomorphism from (Z,+ mod n); ...), hash_wf (SHA-256 returns at least one byte), box_laws (secretbox opens with its key and with no other), unlock_laws for C04_sign_uses_address_key",
    "extraction: ExtrOcamlBasic only; Z/positive/nat stay inductive; ocaml/common/conv.ml + ocaml/C04/driver.ml (table lookup of the primitives: a miss is reported)",
    "second oracle: harness/internal/bipref (independent BIP-32 on crypto/hmac, crypto/sha512, btcec group operations — a copy of harness/cmd/c14/ref.go) and harness/internal/bip39ref (independent BIP-39: word list, checksum, PBKDF2)",
    "Go harness: harness/cmd/c04, harness/internal/simx (opens the real WalletManager on LevelDB with a chosen public passphrase, like internal/sim), internal/sim node; scrypt N lowered to 16",
    "hooks (build tag verif): masswallet/hooks_verif.go (VerifStores, handler accessors), masswallet/keystore/unlock_verif.go (VerifPath, VerifNextIndexes)",
    "environment, not verified: btcec, x/crypto (scrypt, secretbox, pbkdf2, ripemd160), mass-core address codecs and bech32, goleveldb",
    "modelled rather than verified: manager.go create / initAcctBucket / createManagerKeyScope / allocAddrMgrNamespace / ImportKeystoreWithMnemonic (what they derive and persist), addrmgr.go nextAddresses / getPrivKeyBtcec (derivation routes), loadAddrManager (reload of stored public keys)",
]


def parse_addrs(s):
    res = {}
    if s in ("-", ""):
        return res
    for a in s.split(","):
        f = a.split(":")
        res[f[0]] = f[1]
    return res


def main(tier, replay=None):
    c = V.Check(PID, tier)
    proofs_ok = c.proofs(gen_only=["Consts.v", "Wordlist.v"])
    c.log("proofs:", "ok" if proofs_ok else c.proof_break)
    outs, err = V.go_build(["c04"])
    if outs is None:
        return c.finish(TRUSTED, no_input_break="correspondence harness cmd/c04 no longer builds against the repository: " + err[-1500:])
    exe, err = V.ocaml_build(PID)
    if exe is None:
        return c.finish(TRUSTED, no_input_break="extraction/OCaml build of the Derive model failed: " + err[-1500:])

    n = 40 if tier == "quick" else 500

    if c.escalated:   # a modelled Go function changed since the pin (c.drift): look harder, no verdict from drift alone

        n *= 3
    impl = os.path.join(c.workdir, "impl.txt")
    if replay:
        rp = json.load(open(replay))
        firsts = sorted({v["replay"]["case"] for v in rp.get("violations", []) if "case" in v.get("replay", {})})
        os.environ["VERIF_SEED"] = str(rp.get("seed", c.seed))
        lines = []
        for f in firsts[:30]:
            rc, o, e = V.sh([outs[0], "-worker", "-first", str(f), "-n", "1"], timeout=300)
            lines.append(o)
        open(impl, "w").write("".join(lines))
        stats = "replay"
    else:
        rc, o, e = V.sh([outs[0], "-n", str(n), "-out", impl, "-j", str(V.NCPU)], timeout=3000)
        stats = e.strip().splitlines()[-1] if e.strip() else ""
        if rc != 0:
            return c.finish(TRUSTED, no_input_break="harness cmd/c04 failed to run: " + (o + e)[-1500:])
    rc, mo, me = V.sh("%s < %s" % (exe, impl), timeout=3000)
    if rc != 0:
        return c.finish(TRUSTED, no_input_break="model driver failed: " + me[-1500:])
    model = {}
    for l in mo.splitlines():
        f = l.split("\t")
        model[(f[0], int(f[1]))] = f

    cases = {}
    harness_err = []
    for l in V.read_lines(impl):
        if not l:
            continue
        f = l.split("\t")
        if f[0] == "X":
            harness_err.append(l)
            continue
        cases.setdefault(int(f[1]), []).append(f)

    nstages = naddr = nshort = 0
    corr = []
    distinct = set()
    bits_seen = {}
    for k, lines in sorted(cases.items()):
        rerun = "VERIF_SEED=%d /verif/build/bin/c04 -worker -first %d -n 1" % (c.seed, k)

        def viol(key, what):
            c.violation(key, what, {"case": k, "lines": ["\t".join(x)[:600] for x in lines if x[0] in "CI"][:12], "rerun": rerun})

        head = [x for x in lines if x[0] == "C"]
        if not head:
            continue
        _, _, bits, passhex, mnhex, short = head[0][:6]
        short = short == "1"
        nshort += short
        bits_seen[bits] = bits_seen.get(bits, 0) + 1
        R = [x for x in lines if x[0] == "R"]
        ref_id = R[0][2] if R else None
        ref_addr = parse_addrs(R[0][3]) if R else {}
        first_id = None
        seen = {}
        prev_stage_addrs = None
        prev_import = None
        created = None
        for x in lines:
            if x[0] != "I":
                continue
            _, _, stage, wid, counters, addrs, sc, idh = x[:8]
            nstages += 1
            if sc.startswith("import-accepted-the-passphrase-followed"):
                viol("passphrase-trailing-nul-equivalent", "case %d: ImportWallet accepted the passphrase followed by a zero byte" % k)
                continue
            if sc.startswith("stage-failed"):
                viol("stage-failed", "case %d: a stage of the wallet life could not be carried out: %s" % (k, sc))
                continue
            if sc.startswith("revealed-mnemonic-differs"):
                shown = sc.split(":")[-1]
                try:
                    shown = bytes.fromhex(shown).decode("latin1")
                except ValueError:
                    pass
                viol("mnemonic-differs", "case %d: stage %s: GetMnemonic reveals %r, the wallet was created with %r" % (k, stage, shown[:120], bytes.fromhex(mnhex).decode("latin1")[:120]))
                if addrs == "-":
                    continue
                sc = "ok"
            if sc.startswith("import-failed"):
                viol("import-mnemonic-failed", "case %d: %s: %s" % (k, stage, sc))
                continue
            A = parse_addrs(addrs)
            naddr += len(A)
            distinct.add((bits, stage.split(":")[0], len(A), counters))
            if first_id is None:
                first_id = wid
            elif wid != first_id:
                viol("id-differs", "case %d: stage %s has wallet id %s, the created wallet had %s" % (k, stage, wid, first_id))
            if sc != "ok":
                viol("sign:" + sc.split(":")[0].split("-%")[0][:60], "case %d: stage %s: %s" % (k, stage, sc))
            for bi, sh in A.items():
                if bi in seen and seen[bi] != sh:
                    viol("address-differs", "case %d: stage %s: address %s has script hash %s, an earlier stage had %s" % (k, stage, bi, sh, seen[bi]))
                seen.setdefault(bi, sh)
                if not short and bi in ref_addr and ref_addr[bi] != sh:
                    viol("address-not-bip32", "case %d: stage %s: address %s is %s, the independent derivation from the mnemonic gives %s" % (k, stage, bi, sh, ref_addr[bi]))
            if not short and ref_id and idh != ref_id:
                viol("id-not-bip32", "case %d: stage %s: the wallet id encodes %s, the independent derivation gives %s" % (k, stage, idh, ref_id))
            # counters and contiguity
            ex, inn = [int(v) for v in counters.split(",")]
            exs = sorted(int(bi.split(".")[1]) for bi in A if bi.startswith("0."))
            ins_ = sorted(int(bi.split(".")[1]) for bi in A if bi.startswith("1."))
            if exs != list(range(ex)) or ins_ != list(range(inn)):
                viol("addresses-not-contiguous", "case %d: stage %s: counters %s but addresses external %s internal %s" % (k, stage, counters, exs, ins_))
            st = stage.split(":")
            if st[0] == "create":
                created = ex
            elif st[0] == "import-keystore-2hop":
                if prev_import is not None and (A != prev_import[0] or counters != prev_import[1]):
                    viol("second-hop-differs", "case %d: the export of the imported keystore, imported again, gives counters %s / %d addresses; the first import had %s / %d" % (k, counters, len(A), prev_import[1], len(prev_import[0])))
            elif st[0] == "import-keystore" and created is not None and ex != max(1, created):
                viol("import-counter", "case %d: the imported keystore has %d external addresses, the exporter had %d" % (k, ex, created))
            elif st[0] in ("restart", "pubpass-changed", "restart-newpub") and prev_stage_addrs is not None and A != prev_stage_addrs:
                viol("addresses-changed:" + st[0], "case %d: stage %s changed the address list" % (k, stage))
            elif st[0] == "import-mnemonic":
                hint_ex, hint_in = int(st[2]), int(st[3])
                mu_ex, mu_in = (int(st[4]), int(st[5])) if len(st) > 5 else (-1, -1)
                # the chain pays addresses beyond the hints (last paid index mu, -1 = none): the restore discovers them
                # (the internal branch is scanned only when an internal hint > 0 is given: createManagerKeyScope)
                if ex != max(1, hint_ex, mu_ex + 1) or inn != (max(hint_in, mu_in + 1) if hint_in > 0 else 0):
                    viol("import-mnemonic-counter", "case %d: stage %s: counters %s" % (k, stage, counters))
            prev_stage_addrs = A
            if st[0] == "import-keystore":
                prev_import = (A, counters)
        # the model
        if not short:
            md = model.get(("D", k))
            if md is None:
                corr.append((k, "no model answer"))
            else:
                if md[2] != ref_id:
                    corr.append((k, "model wallet_id %s, reference/implementation %s" % (md[2], ref_id)))
                MA = parse_addrs(md[3])
                for bi, sh in ref_addr.items():
                    if MA.get(bi) != sh:
                        corr.append((k, "model wallet_addr %s = %s, reference %s" % (bi, MA.get(bi), sh)))
                        break
            mm = model.get(("M", k))
            M = [x for x in lines if x[0] == "M"]
            if mm is None or not M:
                corr.append((k, "no model answer for the seed"))
            else:
                _, _, ent, ph, mn, variant, seed = M[0][:7]
                canon = bytes.fromhex(mn).decode()
                if mm[2] != bytes(canon, "latin1").hex() + ";" + seed:
                    corr.append((k, "model create_seed gives %s, implementation mnemonic/seed %s;%s" % (mm[2][:80], mn[:40], seed[:40])))
                if mm[3] != ent + ";" + seed:
                    corr.append((k, "model import_mnemonic_seed(%r) gives %s, expected entropy;seed %s;%s" % (bytes.fromhex(variant), mm[3][:80], ent, seed[:40])))
    brk = None
    if corr and not c.violations:
        brk = ("the implementation no longer corresponds to the model of Keys/Derive.v on %d cases (first: case %d: %s); rerun: VERIF_SEED=%d /verif/build/bin/c04 -worker -first %d -n 1"
               % (len(corr), corr[0][0], corr[0][1][:600], c.seed, corr[0][0]))
    if harness_err and not c.violations and not brk:
        brk = "the harness could not run %d cases: %s" % (len(harness_err), harness_err[0][:600])
    sample = []
    if cases:
        sample = ["\t".join(x)[:260] for x in cases[min(cases)] if x[0] in "CIR"][:10]
    c.coverage.update({
        "evaluations": nstages,
        "distinct_nontrivial": len(distinct),
        "rule": "one evaluation = one observed stage of one wallet life (create / import-keystore (+ revealed mnemonic) / more-addresses / restart / pubpass-changed / restart-newpub / import-keystore-2hop = the export of the imported keystore imported into a third fresh instance / import-mnemonic with spacing variant and index hints); "
                "distinct_nontrivial = distinct (entropy size, stage, number of addresses, counters). Every address of every stage is signed for and the signature verified against the reference-derived key. " + stats,
        "cases": len(cases), "addresses_checked": naddr, "entropy_bits": bits_seen,
        "short_parent_cases_skipped_for_reference": nshort,
        "samples": [sample],
        "disagreements_checked": nstages + 2 * len(cases),
        "correspondence_mismatches": len(corr),
    })
    c.assumptions = ["cases whose path m/44'/coin'/1' meets a parent scalar with a leading zero byte are compared across instances only (recorded finding C14 short-parent-hardened-child); "
                     "cases = 7 mod 16 are such wallets on purpose (entropies drawn until one is), and the addresses their restore-with-discovery stage pays are read off a throwaway instance of the implementation, not off the reference",
                     "the only on-chain use of the wallets' addresses is the payments beyond the index hints made before the mnemonic restore (the gap rule itself is C12)",
                     "scrypt N lowered to 16 by the harness"]
    if not proofs_ok and not c.violations and not brk:
        brk = "proof obligations of Properties/C04.v no longer check: " + str(c.proof_break)
    return c.finish(TRUSTED, no_input_break=brk)
