"""C15 — amount strings and integer amounts convert exactly.
proof (coq/Properties/C15.v) + correspondence of the extracted model with
api.StringToAmount / api.AmountToString / masswallet.AmountToString."""
import os
import sys
import vcheck as V

PID = "C15"
TRUSTED = [
    "Coq 8.16.1 kernel (coqc); vm_compute used in two closed witnesses/examples; no native_compute",
    "axioms: none (Print Assumptions: Closed under the global context for every theorem)",
    "translator harness/cmd/gen: MaxMass, MaxwellPerMass printed from the compiled mass-core constants into coq/Gen/Consts.v on every run",
    "extraction: ExtrOcamlBasic only (bool, option, list, prod, unit, sumbool to OCaml natives); Z/positive stay inductive; ocamlfind ocamlopt 4.13.1; ocaml/common/conv.ml + ocaml/C15/driver.ml (hex and zarith<->Z glue)",
    "Go harness harness/cmd/c15 (generator, recover() wrapper) built from /repo with -tags verif",
    "modelled, not verified: Go's strings.Split/TrimLeft/TrimRight/Repeat, strconv.ParseInt/Atoi/Itoa, safetype.Uint128 arithmetic and massutil.NewAmount are re-stated in Gallina (Codec/Amount.v)",
]


def main(tier, replay=None):
    c = V.Check(PID, tier)
    proofs_ok = c.proofs(gen_only=["Consts.v"])
    c.log("proofs:", "ok" if proofs_ok else c.proof_break)

    outs, err = V.go_build(["c15"])
    if outs is None:
        return c.finish(TRUSTED, no_input_break="correspondence harness cmd/c15 no longer builds against /repo: " + err[-1500:])
    exe, err = V.ocaml_build(PID)
    if exe is None:
        return c.finish(TRUSTED, no_input_break="extraction/OCaml build of the model failed: " + err[-1500:])

    impl = os.path.join(c.workdir, "impl.txt")
    if replay:
        import json
        rp = json.load(open(replay))
        lines = []
        for v in rp.get("violations", []):
            r = v["replay"]
            rc, o, e = V.sh([outs[0], "-replay", r["case"]], timeout=60)
            lines += o.splitlines()
        open(impl, "w").write("\n".join(lines) + "\n")
        dist = ""
    else:
        rc, o, e = V.sh([outs[0], "-tier", tier, "-out", impl], timeout=1200)
        dist = e.strip()
        if rc != 0:
            return c.finish(TRUSTED, no_input_break="harness cmd/c15 failed to run: " + (o + e)[-1500:])
    rc, mo, me = V.sh("%s < %s" % (exe, impl), timeout=1800)
    if rc != 0:
        return c.finish(TRUSTED, no_input_break="model driver failed: " + me[-1500:])
    ilines = V.read_lines(impl)
    mlines = mo.splitlines()
    if len(ilines) != len(mlines):
        return c.finish(TRUSTED, no_input_break="model driver answered %d of %d cases" % (len(mlines), len(ilines)))

    seen = set()
    nontrivial = set()
    fails = []
    kinds = {}
    for il, ml in zip(ilines, mlines):
        k, inp, got = il.split("\t")
        _, _, model, spec = ml.split("\t")
        key = (k, inp)
        if key in seen:
            continue
        seen.add(key)
        kinds[k] = kinds.get(k, 0) + 1
        if k == "P":
            raw = bytes.fromhex(inp)
            if (got.startswith("ok") and b"." in raw) or (got == "err" and any(48 <= b <= 57 for b in raw)):
                nontrivial.add(key)
        elif k == "D":
            if got.startswith("ok") and "2e" in got:
                nontrivial.add(key)
        else:
            if got.startswith("ok") and b"." in bytes.fromhex(got[3:]):
                nontrivial.add(key)
        if got != spec or got != model:
            fails.append((len(inp), k, inp, got, model, spec))
    fails.sort()
    for ln, k, inp, got, model, spec in fails:
        if k == "P":
            what = "StringToAmount(%r) = %s, the grammar of C15 gives %s (model: %s)" % (bytes.fromhex(inp), got, spec, model)
            case = "P:" + inp
        elif k == "D":
            sh = lambda r: r if not r.startswith("ok ") else "ok " + ",".join(repr(bytes.fromhex(x).decode("latin1")) for x in r[3:].split(","))
            what = "DecodeRawTransaction of a transaction with output values [%s] answers %s, expected %s (model: %s)" % (inp, sh(got), sh(spec), sh(model))
            case = "D:" + inp
        else:
            fn = "api.AmountToString" if k == "F" else "masswallet.AmountToString"
            what = "%s(%s) = %s, expected %s (model: %s)" % (fn, inp, _show(got), _show(spec), _show(model))
            case = "%s:%s" % (k, inp)
        c.violation("case:" + case, what, {"case": case, "impl": got, "model": model, "spec": spec,
                                           "rerun": "/verif/build/bin/c15 -replay '%s'" % case})

    c.coverage.update({
        "evaluations": len(ilines),
        "distinct_nontrivial": len(nontrivial),
        "rule": "distinct (function, input) pairs; non-trivial = accepted numeral with a '.', rejected string containing a digit, or formatted amount with a fractional part. "
                "Generator: corpus of boundary/once-failing cases, all strings over \"019.+-e_ \" up to length %d, then PRNG streams (%s)" % (4 if tier == "quick" else 6, dist),
        "by_function": kinds,
        "samples": [l for l in ilines[:6]] + [l for l in ilines[len(ilines) // 2: len(ilines) // 2 + 3]] + ilines[-3:],
        "disagreements_checked": len(seen),
        "mismatches": len(fails),
    })
    c.assumptions = ["error kinds are not compared (only ok/err and the value)", "Go library semantics as restated in Codec/Amount.v"]
    brk = None
    if not proofs_ok and not c.violations:
        brk = "proof obligations of Properties/C15.v no longer check: " + str(c.proof_break)
    return c.finish(TRUSTED, no_input_break=brk)


def _show(r):
    if r.startswith("ok "):
        try:
            return "ok %r" % bytes.fromhex(r[3:]).decode("latin1")
        except ValueError:
            return r
    return r
