"""C12 — addresses are issued once, in order, durably, and stay rediscoverable.
proof (coq/Properties/C12.v over coq/Keys/Gap.v) + correspondence: histories of new-address requests
(WalletManager.NewAddress and the API's CreateAddress, both classes), payments to issued addresses,
reorgs, restarts and restores (mnemonic with hints / keystore file) run on the real WalletManager
(harness/cmd/c12 over internal/sim + internal/hist) and replayed on the extracted model; the
property's predicates (issuing rule, listing, used flags against the node's best chain, discovery)
are evaluated on the implementation's own observations; the Coq witnesses of the refuted
statements are replayed on the real wallet."""
import collections
import json
import os
import vcheck as V

PID = "C12"
TRUSTED = [
    "Coq 8.16.1 kernel (coqc), full .vo build; vm_compute only in closed witnesses/examples; no native_compute",
    "axioms: none (Print Assumptions: Closed under the global context for every theorem of Properties/C12.v)",
    "extraction: ExtrOcamlBasic only; N/Z/positive/nat stay inductive; ocaml/common/conv.ml + ocaml/C12/driver.ml (line parser, chain bookkeeping, evaluation of the predicates with the extracted pays_any/pays_form/spec_refuse/gap_inv_b/balance_of_chain)",
    "Go harness: harness/internal/sim (mass-core chain DB on in-memory storage incl. the script-hash index CheckScriptHashUsed reads, real blockchain.Blockchain + real WalletManager on LevelDB in /dev/shm), harness/internal/hist (+addresses.go), harness/cmd/c12 (generator, scripted witness replay, the table script hash <-> (branch,index) derived with the exported hdkeychain API)",
    "hooks (build tag verif): masswallet/hooks_verif.go accessors (handler, idle barrier, stores) — no new hook file",
    "environment, not verified: mass-core (chain DB, script-hash index, address codecs), goleveldb, btcec/hdkeychain derivation (C04/C14's subject; here only an injective naming of addresses, premise injective2), scrypt lowered to N=16",
    "assumed in the model: hdkeychain.Child never answers ErrInvalidChild (probability 2^-127 per index); no storage errors (C18)",
    "modelled rather than verified: addrmgr.go nextAddresses/updateManagedAddress, manager.go createManagerKeyScope scan/loadAddrManager/Import*, wallet.go NewAddress/GetAddresses, utxostore.go AddCredits (address record)/PutNewAddress, txstore.go Rollback (address record), api CreateAddress unused-limit rule; config.LoadConfig's normalisation of MaxUnusedStakingAddress is mirrored by the harness, not modelled",
]

WITNESSES = [
    # (name, script, what the real wallet must show for the Coq witness to count as replayed)
    ("C12_listed_refuted_after_reorg", "gap=2;create;new 1 0;pay 1:0:std;observe;detach 1;empty", "listing"),
    ("C12_discovery_refuted_under_reorg",
     "gap=2;create;new 1 0;new 1 0;pay 1:1:std;new 1 0;new 1 0;detach 1;empty;pay 1:3:std;instance;restore 1 m 0 0", "discovery"),
    ("C12_index_collision_refuted",
     "gap=2;create;pay 1:i0:std;pay 1:i1:std;instance;restore 1 m 2 2;restart;new 2 0", "collision"),
]


# Directed corpus (runs first, judged like any generated history): sequences that need a specific
# order to expose state kept between requests, e.g. "the gap window had history, then a reorg took
# it away, then more addresses are requested" (kept after seeded change seeded/C12).
DIRECTED = []
for _g in (2, 3, 5):
    _issue = ";".join(["new 1 0"] * _g)
    DIRECTED.append("gap=%d;create;%s;pay 1:%d:std;new 1 0;observe;detach 1;empty;%s;observe;pay 1:%d:std;observe;%s;observe" %
                    (_g, _issue, _g - 1, ";".join(["new 1 0"] * (_g + 1)), _g, ";".join(["new 1 0"] * 2)))
    DIRECTED.append("gap=%d;create;%s;pay 1:%d:stk;new 1 1;detach 1;empty;new 1 1;new 1 0;restart;new 1 0;observe" %
                    (_g, ";".join(["new 1 1"] * _g), _g - 1))
    # two wallets in one manager: the reorganisation that removes wallet 1's payment arrives while wallet 2 is the
    # selected one (state kept per keystore must be dropped for EVERY keystore, not for the current one: seed C12f)
    DIRECTED.append("gap=%d;create;create;%s;pay 1:%d:std;new 1 0;new 2 0;observe;detach 1;empty;%s;observe;pay 1:%d:std;observe;%s;new 2 0;observe;instance;restore 1 m 0 0" %
                    (_g, _issue, _g - 1, ";".join(["new 1 0"] * (_g + 1)), _g, ";".join(["new 1 0"] * 2)))


def judge(c, mo, hist, tag, seed_note):
    """Evaluates the model driver's output; registers violations; returns statistics."""
    st = collections.Counter()
    distinct = set()
    seen = set()
    missed = {}   # (history, wallet) -> key of the discovery miss of that wallet's restore

    def report(h, key, what, line):
        # one report per (history, key)
        if (h, key) in seen:
            return
        seen.add((h, key))
        st["finding:" + key] += 1
        c.violation(key, what, {"history": h, "source": tag, "line": line[:600], "lines": hist.get(h, [])[:500], "rerun": seed_note % h})

    for l in mo.splitlines():
        f = l.split("\t")
        t = f[0]
        st[t] += 1
        if t == "X":
            st["harness_errors"] += 1
            report(f[1] if len(f) > 1 else "?", "harness-error", "the harness or the model driver could not run a history: " + l[:400], l)
            continue
        h = f[1]
        if t == "NA":
            _, _, k, w, cls, api, impl, model, spec, info = f
            inf = dict(x.split("=") for x in info.split(","))
            if impl.startswith("ok"):
                distinct.add(("NA", impl, info))
            st["na_" + impl.split(":")[0]] += 1
            if impl != model:
                report(h, "model:new-address", "request %s of wallet %s (class %s, api %s): implementation %s, model %s" % (k, w, cls, api, impl, model), l)
            bad = None
            if spec == "refuse" and impl.startswith("ok"):
                bad = "issued although none of the last gap-limit addresses has chain history"
            elif spec.startswith("issue") and api == "0" and not impl.startswith("ok"):
                bad = "refused (%s) although the gap rule allows the request" % impl
            elif spec.startswith("issue") and impl.startswith("ok") and impl.split(":")[1] != spec.split(":")[1]:
                bad = "returned script hash %s, the next index is %s" % (impl.split(":")[1], spec.split(":")[1])
            elif impl.startswith("ok") and impl.split(":")[2] != cls:
                bad = "returned an address of the other class"
            if bad:
                key = "gap-window-reads-internal-branch" if inf.get("internal") == "1" and impl == model else "gap-rule"
                report(h, key, "wallet %s request %s (n=%s): %s" % (w, k, inf.get("n"), bad), l)
        elif t == "L":
            _, _, k, w, flt, impl, model, verdict = f
            if len(impl.split()) > 1:
                distinct.add(("L", impl))
            if impl != model:
                report(h, "model:listing", "GetAddresses(%s) of wallet %s (#%s): implementation [%s] model [%s]" % (flt, w, k, impl[:300], model[:300]), l)
            if verdict != "ok":
                for p in verdict.split(";"):
                    q = p.split(":")
                    if q[0] == "missing":
                        if q[3] == "paidnow=0" and q[4] == "disconnected=1":
                            key = "listing-lost-after-reorged-first-payment"
                        else:
                            key = "listing-missing"
                        report(h, key, "wallet %s: issued address (class %s, script hash #%s) is not listed by GetAddresses(%s) [%s %s]" % (w, q[1], q[2], flt, q[3], q[4]), l)
                    elif q[0] == "flag":
                        # an address the wallet issued although the chain already paid it: only possible after a
                        # restore that missed it; same finding as the miss itself
                        key = missed.get((h, w), "used-flag") if (q[5] == "prepaid=1" and q[3] == "impl=0") else "used-flag"
                        report(h, key, "wallet %s: entry (class %s, script hash #%s) has used=%s but the best chain says %s" % (w, q[1], q[2], q[3][5:], q[4][6:]), l)
                    else:
                        report(h, "listing-entry", "wallet %s: malformed entry %s" % (w, p), l)
        elif t == "KS":
            if f[4] != f[5]:
                report(h, "model:keystore", "keystore of wallet %s: implementation [%s] model [%s]" % (f[3], f[4][:300], f[5][:300]), l)
            distinct.add(("KS", f[4]))
        elif t == "BAL":
            if f[4] != f[5]:
                key = "balance"
                if int(f[7]) > 0 and int(f[6]) <= int(f[4]) <= int(f[5]):
                    key = missed.get((h, f[3]), "balance")
                report(h, key, "wallet %s reports total %s, the best chain pays its addresses %s (%s without the %s address(es) already paid when this wallet issued them)" % (f[3], f[4], f[5], f[6], f[7]), l)
        elif t == "RX":
            st["rx_" + f[6]] += 1
            if f[4] != f[5]:
                report(h, "model:restore", "restore into wallet %s: implementation %s, model %s" % (f[3], f[4], f[5]), l)
        elif t == "DISC":
            missing = f[4]
            info = dict(x.split("=") for x in f[5:])
            if missing:
                if info.get("polluted") == "1":
                    key = "discovery-after-index-collision"
                elif info.get("gapinv") == "0" and info.get("reorged") == "1":
                    key = "discovery-after-reorged-first-payment"
                else:
                    key = "discovery-incomplete"
                missed[(h, f[3])] = key
                report(h, key, "restored wallet %s does not hold paid index(es) %s of %s issued (gapinv=%s reorged=%s)" % (f[3], missing, info.get("issued"), info.get("gapinv"), info.get("reorged")), l)
            else:
                st["disc_complete"] += 1
        elif t == "P":
            if f[4] != f[5]:
                report(h, "model:process", "announcement of block %s: implementation %s, model %s" % (f[3], f[4], f[5]), l)
    return st, distinct


def split_hist(lines):
    hist, cur = {}, None
    for l in lines:
        if l.startswith("H "):
            cur = l.split()[1]
            hist[cur] = []
        if cur is not None and not l.startswith("D "):
            hist[cur].append(l)
    return hist


def main(tier, replay=None):
    c = V.Check(PID, tier)
    proofs_ok = c.proofs(gen_only=["Consts.v"])
    c.log("proofs:", "ok" if proofs_ok else c.proof_break)
    outs, err = V.go_build(["c12"])
    if outs is None:
        return c.finish(TRUSTED, no_input_break="correspondence harness cmd/c12 no longer builds against /repo: " + err[-1500:])
    exe, err = V.ocaml_build(PID)
    if exe is None:
        return c.finish(TRUSTED, no_input_break="extraction/OCaml build of the address model failed: " + err[-1500:])
    os.environ["VERIF_SEED"] = str(c.seed)

    # 1. the witnesses of the refuted statements, replayed on the real wallet
    wit = {}
    for name, script, kind in WITNESSES:
        p = os.path.join(c.workdir, name + ".txt")
        rc, o, e = V.sh([outs[0], "-script", script, "-out", p], timeout=120)
        if rc != 0 or not os.path.exists(p):
            return c.finish(TRUSTED, no_input_break="witness replay %s failed to run: %s" % (name, (o + e)[-800:]))
        rc, mo, me = V.sh("%s < %s" % (exe, p), timeout=120)
        if rc != 0:
            return c.finish(TRUSTED, no_input_break="model driver failed on witness %s: %s" % (name, me[-800:]))
        hist = split_hist(V.read_lines(p))
        stw, _ = judge(c, mo, hist, "witness " + name, "/verif/build/bin/c12 -script '" + script.replace("%", "%%") + "'  # history %s")
        want = {"listing": "finding:listing-lost-after-reorged-first-payment", "discovery": "finding:discovery-after-reorged-first-payment",
                "collision": "finding:gap-window-reads-internal-branch"}[kind]
        if kind == "collision":
            # repaired in /repo (314e4a7): the witness of the code as found must NOT reproduce any more
            wit[name] = ("STILL reproduced on the real wallet (the repair is gone)" if stw[want]
                         else "not reproduced: the repaired wallet refuses, as the model with fx=true does")
        else:
            wit[name] = "reproduced on the real wallet" if stw[want] else "NOT reproduced (the implementation no longer shows it)"
    c.log("witnesses:", wit)

    # 1b. the directed corpus
    ndirected = 0
    for k, script in enumerate(DIRECTED):
        p = os.path.join(c.workdir, "directed%d.txt" % k)
        rc, o, e = V.sh([outs[0], "-script", script, "-out", p], timeout=120)
        if rc != 0 or not os.path.exists(p):
            return c.finish(TRUSTED, no_input_break="directed script %d failed to run: %s" % (k, (o + e)[-800:]))
        rc, mo, me = V.sh("%s < %s" % (exe, p), timeout=120)
        if rc != 0:
            return c.finish(TRUSTED, no_input_break="model driver failed on directed script %d: %s" % (k, me[-800:]))
        judge(c, mo, split_hist(V.read_lines(p)), "directed %d" % k, "/verif/build/bin/c12 -script '" + script + "'  # history %s")
        ndirected += 1
    c.coverage["directed_scripts"] = ndirected

    # 2. generated histories
    n = 128 if tier == "quick" else 1280
    if c.escalated:   # a modelled Go function changed since the pin (c.drift): look harder, no verdict from drift alone
        n *= 3
    impl = os.path.join(c.workdir, "impl.txt")
    if replay:
        rp = json.load(open(replay))
        firsts = sorted({int(v["replay"]["history"]) for v in rp.get("violations", []) if str(v.get("replay", {}).get("history", "")).isdigit()
                         and v["replay"].get("source") == "generated"})
        os.environ["VERIF_SEED"] = str(rp.get("seed", c.seed))
        lines = []
        for f in firsts[:25]:
            rc, o, e = V.sh([outs[0], "-worker", "-first", str(f), "-n", "1"], timeout=300)
            lines.append(o)
        open(impl, "w").write("".join(lines))
        stats = "replay of %d histories" % len(firsts)
    else:
        rc, o, e = V.sh([outs[0], "-n", str(n), "-out", impl, "-j", str(V.NCPU)], timeout=3000)
        agg = collections.Counter()
        for sl in e.splitlines():
            if "=" in sl and "histories=" in sl:
                for kv in sl.split():
                    if "=" in kv and kv.split("=")[1].isdigit():
                        agg[kv.split("=")[0]] += int(kv.split("=")[1])
        stats = "generator: " + " ".join("%s=%d" % kv for kv in sorted(agg.items()))
        c.coverage["generator_distribution"] = dict(agg)
        if rc != 0:
            return c.finish(TRUSTED, no_input_break="harness cmd/c12 failed to run: " + (o + e)[-1500:])
    rc, mo, me = V.sh("%s < %s" % (exe, impl), timeout=3000)
    if rc != 0:
        return c.finish(TRUSTED, no_input_break="model driver failed: " + me[-1500:])
    hist = split_hist(V.read_lines(impl))
    st, distinct = judge(c, mo, hist, "generated", "VERIF_SEED=%d /verif/build/bin/c12 -worker -first %%s -n 1" % c.seed)

    brk = None
    model_keys = [k for k, _, _ in c.violations if k.startswith("model:")]
    sample = hist.get(min(hist, key=int), [])[:70] if hist else []
    c.coverage.update({
        "evaluations": len(hist),
        "distinct_nontrivial": len(distinct),
        "rule": "one evaluation = one generated history: gap limit from {2,3,5,20}, 1-2 wallets, 10-40 steps of new-address requests "
                "(class 0/1, 25% through the API's CreateAddress), blocks paying 0-3 issued addresses (standard / staking / binding outputs, "
                "coinbase or transaction, biased to the last gap-limit addresses; cross-class payments in 20% of the histories), reorgs of depth 1-3 "
                "announced per block or by the tip only, restarts, keystore exports; then 1-3 restores into fresh wallet instances on the same node "
                "(mnemonic with external hint 0..n+3, 12% also with an internal hint after payments to internal addresses; or the exported keystore file), "
                "each observed (keystore content, balance, GetAddresses with the three filters) and 60% continued with further steps. "
                "distinct_nontrivial = distinct successful requests (address, state) + distinct non-empty listings + distinct keystore contents. " + stats,
        "requests": st["NA"], "requests_ok": st["na_ok"], "requests_refused_gap": st["na_gap"], "requests_refused_api_limit": st["na_limit"],
        "listings": st["L"], "keystore_observations": st["KS"], "balances": st["BAL"], "announcements": st["P"],
        "restores": st["RX"], "restores_mnemonic": st["rx_m"], "restores_keystore_file": st["rx_k"], "restores_discovering_everything": st["disc_complete"],
        "findings_by_key": {k[8:]: v for k, v in st.items() if k.startswith("finding:")},
        "witness_replays": wit,
        "samples": [sample],
        "disagreements_checked": st["NA"] + st["L"] + st["KS"] + st["BAL"] + st["RX"] + st["P"],
    })
    c.assumptions = ["announcements are processed before every request and observation (no lagging tips: C01/C17 cover those)",
                     "the node's chain does not move while the wallet is stopped",
                     "scrypt N lowered to 16, CoinbaseMaturity 4 (package variables)",
                     "payments only to addresses below the issuing wallet's counter, to internal addresses only in the index-collision histories"]
    if not c.violations:
        if not proofs_ok:
            brk = "proof obligations of Properties/C12.v no longer check: " + str(c.proof_break)
        elif st["harness_errors"]:
            brk = "the harness could not run %d histories" % st["harness_errors"]
    elif model_keys and all(k.startswith("model:") for k, _, _ in c.violations):
        # the implementation left the model but every predicate of the property holds on what was explored
        first = c.violations[0]
        brk = ("correspondence between coq/Keys/Gap.v and the implementation no longer holds (%d histories, e.g. %s; "
               "rerun: %s) while every predicate of the property held on all explored histories"
               % (len(c.violations), first[1][:600], first[2].get("rerun")))
        c.violations = []
    return c.finish(TRUSTED, no_input_break=brk)
