"""C07 — a restored wallet recovers its full history, even while the chain moves.
proof (coq/Properties/C07.v over coq/Ledger/Import.v) + correspondence: an original wallet lives
through a generated history (instance 1); a twin is restored from the mnemonic / exported keystore in a
fresh instance on the same node while blocks and reorganisations keep arriving, the import worker
driven batch by batch (harness/cmd/c07 over internal/sim, internal/hist, internal/gate); instance 2 is
replayed on the extracted model and compared with the chain specification; at the end both instances
are brought to the same tip and the twin is compared with the original.
The bounce family (harness/cmd/c07/bounce.go): a batch runs while the node is on a side branch the handler has
not been told about, and the node is back on the handler's chain before the handler runs again (worker parked
in front of the batch's write transaction and again inside its commit, handler suspended all along)."""
import importlib.util
import json
import os
import vcheck as V

PID = "C07"
_spec = importlib.util.spec_from_file_location("check_C08_shared", os.path.join(V.ROOT, "checks", "C08.py"))
C08 = importlib.util.module_from_spec(_spec)
_spec.loader.exec_module(C08)

TRUSTED = [
    "Coq 8.16.1 kernel (coqc), full .vo build; vm_compute in closed witnesses only; no native_compute",
    "axioms: none expected (see print_assumptions in this file)",
    "extraction: coq/Extract/C07.v, ExtrOcamlBasic only; N/Z/positive stay inductive; ocaml/common/conv.ml + ocaml/C07/driver.ml (line parser, printers)",
    "translator (in checks/C08.py consts()): the import batch size is read from /repo's source text by an anchored regular expression (ntfnshandler.go 'stop = ws.SyncedHeight + N') and passed to the model driver; a missing anchor fails the check",
    "Go harness: harness/internal/sim, harness/internal/hist (generator, projections, importremove.go, irdrive.go), harness/internal/gate (DB wrapper that parks the import worker after each of its write transactions), harness/cmd/c07",
    "hooks (build tag verif): masswallet/hooks_verif.go accessors (handler, idle barrier, volatile tip, queue length, chain fetcher)",
    "schedule control: whether a queued announcement is processed between two batches or after the next one is decided by the handler's select; the harness records the order that happened and the model replays it; "
    "in the bounce family the worker is parked by the DB gate in front of a batch's write transaction and inside its commit, which keeps the handler suspended while the node moves",
    "environment, not verified: mass-core (chain DB, script-hash index written by the sim through SubmitAddrIndex, CheckScriptHashUsed), goleveldb",
    "modelled rather than verified: asyncImport / filterTxForImporting / insertMinedTxForImporting / disconnectBlock cursor pull-back / worker task handling at record level; key derivation and gap-limit discovery are NOT modelled (the discovered script hashes are an input of the model; the harness checks that every address of the original that the chain index calls used was discovered); the pending set and the handler's mempool bookkeeping (heightAdded / expiredMempool) are not modelled",
]


def token(h):
    """history id -> the -list token of harness/cmd/c07"""
    if h >= 700000:
        return "%s%d" % (("BF", "BZ")[h % 2], h)
    if h >= 600000:
        return "B%d" % h
    return ("L%d" % h) if h >= 500000 else str(h)


def main(tier, replay=None):
    c = V.Check(PID, tier)
    proofs_ok = c.proofs(gen_only=["Consts.v"])
    c.log("proofs:", "ok" if proofs_ok else c.proof_break)
    k = C08.consts()
    if k is None:
        return c.finish(TRUSTED, no_input_break="translator: cannot find the import batch size literal in /repo (ntfnshandler.go asyncImport)")
    batch, cap = k
    outs, err = V.go_build(["c07"])
    if outs is None:
        return c.finish(TRUSTED, no_input_break="correspondence harness cmd/c07 no longer builds against /repo: " + err[-1500:])
    exe, err = V.ocaml_build("C07")
    if exe is None:
        return c.finish(TRUSTED, no_input_break="extraction/OCaml build of the Import/Remove model failed: " + err[-1500:])

    n, nlong = (220, 6) if tier == "quick" else (1200, 36)
    nb, nbl = (64, 6) if tier == "quick" else (480, 40)
    if c.escalated:   # a modelled Go function changed since the pin (c.drift): look harder
        n, nlong = n * 3, nlong * 2
        nb, nbl = nb * 3, nbl * 2
    impl = os.path.join(c.workdir, "impl.txt")
    stats = ""
    if replay:
        rp = json.load(open(replay))
        os.environ["VERIF_SEED"] = str(rp.get("seed", c.seed))
        lines = []
        for v in rp.get("violations", [])[:20]:
            r = v.get("replay", {})
            if "scenario" in r:
                rc, o, e = V.sh(["timeout", "280", outs[0], "-scenario", str(r["scenario"])], timeout=300)
            elif "history" in r:
                h = r["history"]
                rc, o, e = V.sh(["timeout", "280", outs[0], "-worker", "-batch", str(batch), "-list", token(h)], timeout=300)
            else:
                continue
            lines.append(o if o.endswith("\n") or not o else o + "\n")
            if rc != 0:
                lines.append("F died replay\nE\n")
        open(impl, "w").write("".join(lines))
    else:
        d1 = os.path.join(c.workdir, "directed.txt")
        rc, o, e = V.sh("(timeout 280 %s -scenario 1; timeout 280 %s -scenario 2) > %s" % (outs[0], outs[0], d1), timeout=600)
        if rc != 0:
            return c.finish(TRUSTED, no_input_break="harness cmd/c07 -scenario 1/2 failed to run: " + (o + e)[-1500:])
        d2 = os.path.join(c.workdir, "random.txt")
        rc, o, e = V.sh([outs[0], "-n", str(n), "-long", str(nlong), "-bounce", str(nb), "-blong", str(nbl), "-batch", str(batch),
                         "-out", d2, "-j", str(V.NCPU)], timeout=3000)
        stats = e.strip().splitlines()[-1] if e.strip() else ""
        if rc != 0:
            return c.finish(TRUSTED, no_input_break="harness cmd/c07 failed to run: " + (o + e)[-1500:])
        open(impl, "w").write(open(d1).read() + open(d2).read())
    rc, mo, me = V.sh("%s %d %d < %s" % (exe, batch, cap, impl), timeout=3000)
    if rc != 0:
        return c.finish(TRUSTED, no_input_break="model driver failed: " + me[-1500:])
    hist = C08.split_histories(impl)
    rc, mord, me = V.sh("%s %d %d order < %s" % (exe, batch, cap, impl), timeout=3000)
    st, bad = C08.evaluate(c, mo, hist, exe, C08.p_lines(mord) if rc == 0 else None)

    # the witness of C07_import_abandoned_refuted: on the directed scenario the model of the code AS FOUND
    # must drop the import task
    rc, mu, me = V.sh("%s %d %d unfixed < %s" % (exe, batch, cap, impl), timeout=3000)
    abandon_seen = rc == 0 and any(l.split("\t")[0] == "M" and l.split("\t")[6] == "abandon" for l in mu.splitlines() if l.startswith("M\t8"))
    # the bounce family: the model of the code BEFORE the tip comparison (notip) must end wrong on some of these
    # histories (a quiescent report that differs from the chain specification); where the implementation follows
    # that model instead of the repaired one, the violation is named after the property, not after the first
    # differing line
    rc, mn, me = V.sh("%s %d %d notip < %s" % (exe, batch, cap, impl), timeout=3000)
    bounce_ids = sorted(h for h in hist if 600000 <= h < 800000)
    notip_wrong, impl_wrong = set(), {}
    if rc == 0:
        for l in mn.splitlines():
            f = l.split("\t")
            if f[0] == "Q" and len(f) == 8 and 600000 <= int(f[1]) < 800000 and f[4] == "1":
                if f[6] != f[7] and f[6] != "error":
                    notip_wrong.add(int(f[1]))
                if f[5] != f[7] and f[5] == f[6] and int(f[1]) not in impl_wrong:
                    impl_wrong[int(f[1])] = (f[3], f[5], f[7])
    for h, (w, im, spec) in impl_wrong.items():
        if h in bad and bad[h][0].startswith("model:"):
            bad[h] = ("import-bounce:stale-ledger",
                      "wallet %s is ready and reports [%s] but the best chain pays [%s]: a rescan batch ran while the node was on a side branch the "
                      "handler had not been told about, committed what it read there, and the node was back on the handler's chain before the handler "
                      "ran again (the implementation follows the model of the code WITHOUT the comparison of the node's block at the batch's upper "
                      "height with the synced block; first differing line: %s)" % (w, im[:300], spec[:300], bad[h][1][:200]))
    twins = sum(1 for l in mo.splitlines() if l.startswith("C\t") and "twin-equals-original" in l)
    multi = sum(1 for l in mo.splitlines() if l.startswith("M\t") and l.split("\t")[5].startswith("importing:") and l.split("\t")[4] == "ok")

    for h, (key, what) in sorted(bad.items()):
        rep = {"history": h, "kind": key, "lines": hist.get(h, [])[:300] + ["..."] + hist.get(h, [])[-300:]}
        if 800000 <= h < 900000:
            rep = {"scenario": h - 800000, "kind": key, "lines": [l for l in hist.get(h, []) if l[0] not in "BTIO"][-200:]}
            rep["rerun"] = "/verif/build/bin/c07 -scenario %d" % rep["scenario"]
        else:
            rep["rerun"] = "VERIF_SEED=%d /verif/build/bin/c07 -worker -batch %d -list %s" % (c.seed, batch, token(h))
        c.violation(key, what, rep)
    brk = None
    short = [h for h in hist if h < 500000]
    sample = [l for l in hist.get(min(short), []) if l[0] not in "BTIO"][:80] if short else []
    c.coverage.update({
        "evaluations": len(hist),
        "distinct_nontrivial": len(st["distinct"]),
        "rule": "one evaluation = one history on the real wallet: instance 1 (original wallet, 1-6 standard/staking addresses issued over time, optionally a second wallet) lives through 10-29 random steps "
                "(blocks with 0-3 random transactions, coinbase/standard/staking/binding outputs, in-block spend chains, reorgs of depth 1-4, re-mined transactions; long cases add 1010-1159 empty blocks so that the rescan needs "
                "two or more batches); instance 2 (fresh directory, same node, optionally one wallet of its own) restores the twin from the mnemonic or from the exported keystore JSON; in short cases a block paying the twin is delivered around the start of the import — with the handler kept INSIDE processConnectedBlock of that block (commit done, tip copy not yet updated) while the task starts, or queued right after the task was pushed; between the batches the node extends "
                "its chain or reorganises (near the tip, or 100-159 deep below the cursor) and the announcement is queued; listing/UseWallet while importing; queries against model and chain spec; 2-6 further steps; "
                "finally instance 1 is reopened, caught up to the same tip, and report / staking+binding rows / used addresses of twin and original are compared. Plus directed scenarios: C07_import_abandoned_refuted's witness, and the single-batch import started while the handler is mid-block. "
                "Bounce family (C07_import_bounce_refuted's shape, ids 600000+ short / 700000+ long): the worker is parked in FRONT of the write transaction of one batch (handler suspended); the node "
                "disconnects 1-3 blocks (long cases: the blocks around height 1000) and connects a side branch of depth-1..depth+1 blocks that pays the twin, spends one of its coins, both, or neither; the batch runs "
                "and is parked again inside its commit / roll-back; the node disconnects the side branch, connects all or the lower part of the old blocks again and 0-2 new ones; the side tip (stale) or the "
                "current tip is announced or nothing; then everybody is released, the import is driven to its end, queries against model and chain spec, further steps, twin vs original. "
                "distinct_nontrivial = distinct reports with at least one listed coin. " + stats,
        "queries": st["nq"], "quiescent_queries_checked_against_spec": st["nquiet"], "announcements": st["nproc"],
        "import_steps": st["nsteps"], "batches_that_did_not_finish_the_import": multi, "twin_vs_original_comparisons_equal": twins,
        "import_batch_size": batch,
        "bounce_histories": len(bounce_ids),
        "bounce_histories_on_which_the_model_without_the_tip_comparison_ends_wrong": len(notip_wrong),
        "samples": [sample],
        "disagreements_checked": st["nq"] + st["nproc"] + st["nsteps"] + twins,
        "mismatching_histories": len(bad),
    })
    c.assumptions = ["node mempool empty", "consensus-valid chains only", "CoinbaseMaturity lowered to 4, scrypt N to 16, gap limit 20 (package variables / config)",
                     "payments during and after the import go to addresses the twin discovered (an address the original issued but the chain never paid is not derived by a restore: C12's subject)",
                     "spent-by-pending flags and pending staking/binding rows are not compared between twin and original (the original remembers reorganised-away transactions)"]
    if not replay and not abandon_seen and not c.violations:
        brk = "the directed scenario no longer makes the model of the code as found drop the import task (C07_import_abandoned_refuted's witness)"
    if not replay and not brk and not c.violations and bounce_ids and not notip_wrong:
        brk = "the bounce family no longer reaches the defect's shape: on none of its histories does the model of asyncImport without the tip comparison end with a wrong report (C07_import_bounce_refuted's witness family)"
    if not proofs_ok and not c.violations and not brk:
        brk = "proof obligations of Properties/C07.v no longer check: " + str(c.proof_break)
    return c.finish(TRUSTED, no_input_break=brk)
