"""C07 — a restored wallet recovers its full history, even while the chain moves.
proof (coq/Properties/C07.v over coq/Ledger/Import.v) + correspondence: an original wallet lives
through a generated history (instance 1); a twin is restored from the mnemonic / exported keystore in a
fresh instance on the same node while blocks and reorganisations keep arriving, the import worker
driven batch by batch (harness/cmd/c07 over internal/sim, internal/hist, internal/gate); instance 2 is
replayed on the extracted model and compared with the chain specification; at the end both instances
are brought to the same tip and the twin is compared with the original."""
import importlib.util
import json
import os
import vcheck as V

PID = "C07"
_spec = importlib.util.spec_from_file_location("check_C08_shared", os.path.join(V.ROOT, "checks", "C08.py"))
C08 = importlib.util.module_from_spec(_spec)
_spec.loader.exec_module(C08)

TRUSTED = [
    "Coq 8.16.1 kernel (coqc), full .vo build; vm_compute in closed witnesses only; no native_compute",
    "axioms: none expected (see print_assumptions in this file)",
    "extraction: coq/Extract/C07.v, ExtrOcamlBasic only; N/Z/positive stay inductive; ocaml/common/conv.ml + ocaml/C07/driver.ml (line parser, printers)",
    "translator (in checks/C08.py consts()): the import batch size is read from /repo's source text by an anchored regular expression (ntfnshandler.go 'stop = ws.SyncedHeight + N') and passed to the model driver; a missing anchor fails the check",
    "Go harness: harness/internal/sim, harness/internal/hist (generator, projections, importremove.go, irdrive.go), harness/internal/gate (DB wrapper that parks the import worker after each of its write transactions), harness/cmd/c07",
    "hooks (build tag verif): masswallet/hooks_verif.go accessors (handler, idle barrier, volatile tip, queue length, chain fetcher)",
    "schedule control: whether a queued announcement is processed between two batches or after the next one is decided by the handler's select; the harness records the order that happened and the model replays it",
    "environment, not verified: mass-core (chain DB, script-hash index written by the sim through SubmitAddrIndex, CheckScriptHashUsed), goleveldb",
    "modelled rather than verified: asyncImport / filterTxForImporting / insertMinedTxForImporting / disconnectBlock cursor pull-back / worker task handling at record level; key derivation and gap-limit discovery are NOT modelled (the discovered script hashes are an input of the model; the harness checks that every address of the original that the chain index calls used was discovered); the pending set and the handler's mempool bookkeeping (heightAdded / expiredMempool) are not modelled",
]


def main(tier, replay=None):
    c = V.Check(PID, tier)
    proofs_ok = c.proofs(gen_only=["Consts.v"])
    c.log("proofs:", "ok" if proofs_ok else c.proof_break)
    k = C08.consts()
    if k is None:
        return c.finish(TRUSTED, no_input_break="translator: cannot find the import batch size literal in /repo (ntfnshandler.go asyncImport)")
    batch, cap = k
    outs, err = V.go_build(["c07"])
    if outs is None:
        return c.finish(TRUSTED, no_input_break="correspondence harness cmd/c07 no longer builds against /repo: " + err[-1500:])
    exe, err = V.ocaml_build("C07")
    if exe is None:
        return c.finish(TRUSTED, no_input_break="extraction/OCaml build of the Import/Remove model failed: " + err[-1500:])

    n, nlong = (220, 6) if tier == "quick" else (1200, 36)
    if c.escalated:   # a modelled Go function changed since the pin (c.drift): look harder
        n, nlong = n * 3, nlong * 2
    impl = os.path.join(c.workdir, "impl.txt")
    stats = ""
    if replay:
        rp = json.load(open(replay))
        os.environ["VERIF_SEED"] = str(rp.get("seed", c.seed))
        lines = []
        for v in rp.get("violations", [])[:20]:
            r = v.get("replay", {})
            if "scenario" in r:
                rc, o, e = V.sh(["timeout", "280", outs[0], "-scenario", str(r["scenario"])], timeout=300)
            elif "history" in r:
                h = r["history"]
                rc, o, e = V.sh(["timeout", "280", outs[0], "-worker", "-list", ("L%d" % h) if h >= 500000 else str(h)], timeout=300)
            else:
                continue
            lines.append(o if o.endswith("\n") or not o else o + "\n")
            if rc != 0:
                lines.append("F died replay\nE\n")
        open(impl, "w").write("".join(lines))
    else:
        d1 = os.path.join(c.workdir, "directed.txt")
        rc, o, e = V.sh("(timeout 280 %s -scenario 1; timeout 280 %s -scenario 2) > %s" % (outs[0], outs[0], d1), timeout=600)
        if rc != 0:
            return c.finish(TRUSTED, no_input_break="harness cmd/c07 -scenario 1/2 failed to run: " + (o + e)[-1500:])
        d2 = os.path.join(c.workdir, "random.txt")
        rc, o, e = V.sh([outs[0], "-n", str(n), "-long", str(nlong), "-out", d2, "-j", str(V.NCPU)], timeout=3000)
        stats = e.strip().splitlines()[-1] if e.strip() else ""
        if rc != 0:
            return c.finish(TRUSTED, no_input_break="harness cmd/c07 failed to run: " + (o + e)[-1500:])
        open(impl, "w").write(open(d1).read() + open(d2).read())
    rc, mo, me = V.sh("%s %d %d < %s" % (exe, batch, cap, impl), timeout=3000)
    if rc != 0:
        return c.finish(TRUSTED, no_input_break="model driver failed: " + me[-1500:])
    hist = C08.split_histories(impl)
    rc, mord, me = V.sh("%s %d %d order < %s" % (exe, batch, cap, impl), timeout=3000)
    st, bad = C08.evaluate(c, mo, hist, exe, C08.p_lines(mord) if rc == 0 else None)

    # the witness of C07_import_abandoned_refuted: on the directed scenario the model of the code AS FOUND
    # must drop the import task
    rc, mu, me = V.sh("%s %d %d unfixed < %s" % (exe, batch, cap, impl), timeout=3000)
    abandon_seen = rc == 0 and any(l.split("\t")[0] == "M" and l.split("\t")[6] == "abandon" for l in mu.splitlines() if l.startswith("M\t8"))
    twins = sum(1 for l in mo.splitlines() if l.startswith("C\t") and "twin-equals-original" in l)
    multi = sum(1 for l in mo.splitlines() if l.startswith("M\t") and l.split("\t")[5].startswith("importing:") and l.split("\t")[4] == "ok")

    for h, (key, what) in sorted(bad.items()):
        rep = {"history": h, "kind": key, "lines": hist.get(h, [])[:300] + ["..."] + hist.get(h, [])[-300:]}
        if 800000 <= h < 900000:
            rep = {"scenario": h - 800000, "kind": key, "lines": [l for l in hist.get(h, []) if l[0] not in "BTIO"][-200:]}
            rep["rerun"] = "/verif/build/bin/c07 -scenario %d" % rep["scenario"]
        else:
            rep["rerun"] = "VERIF_SEED=%d /verif/build/bin/c07 -worker -list %s" % (c.seed, ("L%d" % h) if h >= 500000 else str(h))
        c.violation(key, what, rep)
    brk = None
    short = [h for h in hist if h < 500000]
    sample = [l for l in hist.get(min(short), []) if l[0] not in "BTIO"][:80] if short else []
    c.coverage.update({
        "evaluations": len(hist),
        "distinct_nontrivial": len(st["distinct"]),
        "rule": "one evaluation = one history on the real wallet: instance 1 (original wallet, 1-6 standard/staking addresses issued over time, optionally a second wallet) lives through 10-29 random steps "
                "(blocks with 0-3 random transactions, coinbase/standard/staking/binding outputs, in-block spend chains, reorgs of depth 1-4, re-mined transactions; long cases add 1010-1159 empty blocks so that the rescan needs "
                "two or more batches); instance 2 (fresh directory, same node, optionally one wallet of its own) restores the twin from the mnemonic or from the exported keystore JSON; in short cases a block paying the twin is delivered around the start of the import — with the handler kept INSIDE processConnectedBlock of that block (commit done, tip copy not yet updated) while the task starts, or queued right after the task was pushed; between the batches the node extends "
                "its chain or reorganises (near the tip, or 100-159 deep below the cursor) and the announcement is queued; listing/UseWallet while importing; queries against model and chain spec; 2-6 further steps; "
                "finally instance 1 is reopened, caught up to the same tip, and report / staking+binding rows / used addresses of twin and original are compared. Plus directed scenarios: C07_import_abandoned_refuted's witness, and the single-batch import started while the handler is mid-block. "
                "distinct_nontrivial = distinct reports with at least one listed coin. " + stats,
        "queries": st["nq"], "quiescent_queries_checked_against_spec": st["nquiet"], "announcements": st["nproc"],
        "import_steps": st["nsteps"], "batches_that_did_not_finish_the_import": multi, "twin_vs_original_comparisons_equal": twins,
        "import_batch_size": batch,
        "samples": [sample],
        "disagreements_checked": st["nq"] + st["nproc"] + st["nsteps"] + twins,
        "mismatching_histories": len(bad),
    })
    c.assumptions = ["node mempool empty", "consensus-valid chains only", "CoinbaseMaturity lowered to 4, scrypt N to 16, gap limit 20 (package variables / config)",
                     "payments during and after the import go to addresses the twin discovered (an address the original issued but the chain never paid is not derived by a restore: C12's subject)",
                     "spent-by-pending flags and pending staking/binding rows are not compared between twin and original (the original remembers reorganised-away transactions)"]
    if not replay and not abandon_seen and not c.violations:
        brk = "the directed scenario no longer makes the model of the code as found drop the import task (C07_import_abandoned_refuted's witness)"
    if not proofs_ok and not c.violations and not brk:
        brk = "proof obligations of Properties/C07.v no longer check: " + str(c.proof_break)
    return c.finish(TRUSTED, no_input_break=brk)
