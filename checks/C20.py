"""C20 — shutdown always completes; follower and background worker never deadlock.
proof (coq/Properties/C20.v over the transition system coq/Sched/Handshake.v)
+ schedule-controlled correspondence: the observable projections of the model's maximal paths are
replayed on the REAL handler / worker / Stop goroutines (harness/cmd/c20; control only through the
database wrapper harness/internal/sched, the block queue, the API calls and Stop), and every
observed event sequence must be a path of the model (subset simulation, ocaml/C20/driver.ml)."""
import json
import os
import re
import vcheck as V

PID = "C20"
# parallel worker processes of the harness (one schedule each); VERIF_JOBS caps it on a shared machine
JOBS = int(os.environ.get("VERIF_JOBS", "0")) or 2 * V.NCPU
TRUSTED = [
    "Coq 8.16.1 kernel (coqc), full .vo build; vm_compute only in the closed Examples; no native_compute",
    "axioms: none (Print Assumptions: Closed under the global context for every theorem)",
    "extraction: ExtrOcamlBasic only; nat stays inductive; ocamlfind ocamlopt 4.13.1; ocaml/C20/driver.ml (breadth-first enumeration, projection to observable labels, subset simulation of observed sequences: glue, no model logic)",
    "Go harness harness/cmd/c20 + harness/internal/sched (mwdb.DB wrapper that holds the handler / worker goroutines at BeginTx / Commit, identifies them by their call stack, reads goroutine states with runtime.Stack) + harness/internal/sim (real WalletManager on LevelDB in /dev/shm over a simulated node); built from /repo with -tags verif",
    "hooks (build tag verif): masswallet/hooks_verif.go VerifHandler / VerifQueueLen / VerifTaskQueueLen only; no yield point inside /repo",
    "modelled rather than verified: ntfnshandler.go handle / worker / suspend / resume / asyncImport / asyncRemove / Stop / Start's goroutine creation, task.go, wallet.go ImportWallet* / RemoveWallet (IsWorkerBusy + push) as program counters at channel operations; work per task abstracted to counters",
    "outside every Gallina model (remainder): Go scheduler fairness (a runnable goroutine is eventually run: real executions are maximal paths), the random choice of `select` (modelled as nondeterminism, every choice explored), the memory model; API calls other than the two that queue tasks; queueMsgTx (same shape as queueBlock)",
]


def field(line, key):
    m = re.search(r"(?:^| )%s=(\S+)" % re.escape(key), line)
    return m.group(1) if m else ""


def qp_summary(lines, undisc):
    """what the queue-pressure family covered (counts from the result lines of this run)"""
    by = {"variant": {}, "hold": {}, "unfinished_at_startup": {}, "release": {}, "accepted_while_held": {}}
    acc = fin = tips = reqs_i = reqs_r = refused = grants = 0
    nwmax = 0
    for l in lines:
        sh = (field(l, "shape") + ":::").split(":")
        for k, v in (("variant", sh[0]), ("hold", sh[1]), ("unfinished_at_startup", sh[2]), ("release", sh[3]), ("accepted_while_held", field(l, "filled"))):
            by[k][v] = by[k].get(v, 0) + 1
        acc += int(field(l, "acc") or 0)
        fin += int(field(l, "fin") or 0)
        tips += int(field(l, "blocks") or 0)
        nwmax = max(nwmax, int(field(l, "wallets") or 0))
        grants += int((field(l, "steered") or "0/0").split("/")[0])
        ev = field(l, "obs").split(",")
        reqs_i += ev.count("ti")
        reqs_r += ev.count("tr")
        refused += ev.count("tb")
    return {
        "schedules": len(lines),
        "what": "a multi-round task is running (long: import on a chain of more than 1000 blocks = two rescan rounds; retry: import whose first round is refused because the node silently switched tips), the worker is held "
                "inside a round (A: after the suspend hand-shake before its transaction, B: after its transaction before resume, C: in suspend() while the follower is held in a block transaction), API callers request "
                "imports/removals of other wallets until ErrTooManyTask, tips are announced meanwhile, then every pending passage is granted in the schedule's order with further tips/requests while the queue drains; "
                "kN = N unfinished tasks re-queued by initTaskChan at a restart. Required: every accepted task finishes, every announced tip is processed, Stop returns; the observed sequence must be a path of the "
                "extracted model with capacity start_cap(#wallet status rows) ending in a terminal idle state.",
        "by": by,
        "tasks_accepted": acc, "tasks_finished": fin, "imports_accepted_by_api": reqs_i, "removals_accepted_by_api": reqs_r, "requests_refused_busy": refused,
        "tips_announced": tips, "handler_worker_passages_granted": grants, "max_wallet_status_rows_at_startup": nwmax,
        "schedules_a_MaxWaitingTaskNum_slot_queue_would_also_pass": undisc,
    }


def main(tier, replay=None):
    c = V.Check(PID, tier)
    proofs_ok = c.proofs(gen_only=["Consts.v"])
    c.log("proofs:", "ok" if proofs_ok else c.proof_break)
    outs, err = V.go_build(["c20"])
    if outs is None:
        return c.finish(TRUSTED, no_input_break="correspondence harness cmd/c20 no longer builds against /repo: " + err[-1500:])
    exe, err = V.ocaml_build(PID)
    if exe is None:
        return c.finish(TRUSTED, no_input_break="extraction/OCaml build of the Sched model failed: " + err[-1500:])

    # model-checking evidence (enumeration up to the built-in scenarios; NOT the proof)
    enum = {}
    for cfgname in ("repaired", "found"):
        rc, o, e = V.sh([exe, "enum", cfgname, tier], timeout=600)
        if rc != 0:
            return c.finish(TRUSTED, no_input_break="model driver (enum) failed: " + e[-1500:])
        enum[cfgname] = [l[2:] for l in o.splitlines() if l.startswith("M ")]
    dead_repaired = sum(int(field(l, "end_deadlock") or 0) for l in enum["repaired"])
    dead_found = sum(int(field(l, "end_deadlock") or 0) for l in enum["found"])

    sched = os.path.join(c.workdir, "sched.txt")
    res = os.path.join(c.workdir, "res.txt")
    if replay:
        rp = json.load(open(replay))
        lines = []
        for v in rp.get("violations", []):
            r = v.get("replay", {})
            if r.get("spec"):
                lines.append(r["spec"])
        open(sched, "w").write("\n".join(lines) + "\n")
        nrace = nqp = 0
        only = sorted(x for x in {v.get("replay", {}).get("scenario", "") for v in rp.get("violations", [])} if x.startswith(("qp/", "race-stop/")))
    else:
        limit = 300 if tier == "quick" else 100000
        rc, o, e = V.sh([exe, "sched", "repaired", str(limit), str(c.seed), tier], timeout=600)
        if rc != 0:
            return c.finish(TRUSTED, no_input_break="model driver (sched) failed: " + e[-1500:])
        open(sched, "w").write(o)
        nrace = 24 if tier == "quick" else 400
        # queue-pressure schedules (harness/cmd/c20/pressure.go); more of them when the modelled functions changed
        nqp = (36 if not c.escalated else 96) if tier == "quick" else 600
        only = []
    nproj = {field(l, "scenario"): int(field(l, "projections")) for l in V.read_lines(sched) if l.startswith("P ")}
    rc, o, e = V.sh([outs[0], "-in", sched, "-out", res, "-j", str(JOBS), "-race", str(nrace), "-qp", str(nqp)]
                       + (["-scen", ",".join(only)] if only else []), timeout=3000)
    if rc != 0:
        return c.finish(TRUSTED, no_input_break="harness cmd/c20 failed to run: " + (o + e)[-1500:])
    rc, mo, me = V.sh("%s check < %s" % (exe, res), timeout=1200)
    if rc != 0:
        return c.finish(TRUSTED, no_input_break="model driver (check) failed: " + me[-1500:])

    specs = {field(l, "id"): l for l in V.read_lines(sched) if l.startswith("S ")}
    stacks, cur = {}, None
    rlines, xlines = [], []
    for l in mo.splitlines():
        if l.startswith("STACKS-BEGIN"):
            cur = field(l, "id")
            stacks[cur] = []
        elif l.startswith("STACKS-END"):
            cur = None
        elif cur is not None:
            stacks[cur].append(l)
        elif l.startswith("R "):
            rlines.append(l)
        elif l.startswith("X "):
            xlines.append(l)
    dlines = {field(l, "id"): l for l in mo.splitlines() if l.startswith("D ")}

    by_scen, outcomes, distinct = {}, {}, set()
    exact = after_close = 0
    qp_lines, qp_undiscriminating = [], 0
    for l in rlines:
        rid = field(l, "id")
        scen = rid.split("/")[0]
        by_scen[scen] = by_scen.get(scen, 0) + 1
        out = field(l, "outcome")
        outcomes[out] = outcomes.get(out, 0) + 1
        obs = field(l, "obs")
        if len(obs.split(",")) >= 4:
            distinct.add((scen, obs))
        if field(l, "diverged") == "0" and "/" in rid and not rid.startswith("race-stop") and not rid.startswith("qp/"):
            exact += 1
        if "api_panic_after_close=1" in l:
            after_close += 1
        rep, fnd = field(l, "repaired"), field(l, "found")
        rerun = "VERIF_SEED=%d %s -worker " % (c.seed, outs[0]) + ("-spec '%s'" % specs[rid] if rid in specs else "-scenario " + rid)
        rp = {"id": rid, "spec": specs.get(rid, ""), "scenario": "" if rid in specs else rid, "result": l, "rerun": rerun}
        if field(l, "qp") == "1":
            qp_lines.append(l)
            acc, fin = int(field(l, "acc") or 0), int(field(l, "fin") or 0)
            tight = field(l, "tight")
            shape = field(l, "shape")
            rp["shape"] = shape
            rp["model"] = {"capacity_start_cap": rep, "capacity_MaxWaitingTaskNum": tight}
            if out == "busy" or field(l, "stopret") == "0":
                rp["goroutines"] = stacks.get(rid, [])[:120]
            bad = False
            if fin < acc:
                bad = True
                unf = field(l, "unfinished")
                if tight.endswith(":dropped") and not rep.startswith("acc"):
                    c.violation("accepted-task-never-finishes:requeue-dropped",
                                "while the wallet runs an ACCEPTED task never finishes (schedule %s, shape %s: %d accepted, %d finished, task queue length %s, both loops parked; %s). "
                                "The observed sequence %s is not a path of the model with the queue capacity of its start-up rule (%s) but IS a path of the model with a queue of "
                                "MaxWaitingTaskNum slots ending with a dropped re-queue (C20_requeue_dropped_refuted): the worker's non-blocking re-queue of the task it was running found the queue full"
                                % (rid, shape, acc, fin, field(l, "taskq"), unf, obs, rep), rp)
                else:
                    c.violation("accepted-task-never-finishes", "while the wallet runs an ACCEPTED task does not finish within the bound (schedule %s, shape %s: %d accepted, %d finished, outcome %s; %s; observed %s; model: %s)"
                                % (rid, shape, acc, fin, out, unf, obs, rep), rp)
            if field(l, "tipsok") != "1":
                bad = True
                c.violation("announced-tip-never-processed", "an announced tip is not processed within the bound (schedule %s, shape %s: synced %s, outcome %s, observed %s)" % (rid, shape, field(l, "synced"), out, obs), rp)
            if field(l, "stopret") == "0":
                bad = True
                c.violation("stop-hang", "WalletManager.Stop() did not return after a queue-pressure schedule (%s, shape %s)" % (rid, shape), rp)
            if not bad and out != "idle":
                bad = True
                c.violation("no-quiescence", "handler/worker did not become idle after all announced blocks and accepted tasks (schedule %s, shape %s, observed %s)" % (rid, shape, obs), rp)
            if not bad and not rep.startswith("acc"):
                c.violation("trace-not-in-model:" + rep.split(":", 1)[-1],
                            "the real goroutines produced an event sequence that is not a path of the transition system (schedule %s, shape %s): %s outcome %s [%s]" % (rid, shape, obs, out, rep), rp)
            if not bad and rep.startswith("acc") and tight.startswith("acc"):
                qp_undiscriminating += 1
            continue
        if out == "hang":
            rp["goroutines"] = stacks.get(rid, [])[:120]
            rp["threads"] = dlines.get(rid, "")
            if fnd.startswith("acc") and "NtfnsHandler.suspend" in dlines.get(rid, ""):
                c.violation("stop-vs-suspend-deadlock",
                            "WalletManager.Stop() did not return and the database stayed open (schedule %s, observed %s): worker blocked sending on sigSuspend after the handler left on quit; "
                            "this is the deadlock state of the model of the code as found (C20_stop_deadlock_refuted)" % (rid, obs), rp)
            else:
                c.violation("stop-hang", "WalletManager.Stop() did not return (schedule %s, observed %s; %s)" % (rid, obs, dlines.get(rid, "")), rp)
        elif out == "panic":
            key = "taskchan-nil-before-worker-start" if fnd.startswith("acc") else "api-panic"
            c.violation(key, "an import request issued right after Start panicked (%s): %s" % (rid, l[l.find("detail="):][:300]), rp)
        elif out == "busy":
            c.violation("no-quiescence", "handler/worker did not become idle after all announced blocks and accepted tasks (schedule %s, observed %s)" % (rid, obs), rp)
        elif not rep.startswith("acc"):
            c.violation("trace-not-in-model:" + rep.split(":", 1)[-1],
                        "the real goroutines produced an event sequence that is not a path of the transition system (schedule %s): %s outcome %s [%s]" % (rid, obs, out, rep), rp)

    c.coverage.update({
        "evaluations": len(rlines),
        "distinct_nontrivial": len(distinct),
        "rule": "one evaluation = one schedule run on the real goroutines in its own process: (a) the distinct observable projections (block queued, task queued, handler/worker transaction begin/end, Stop, DB closed) "
                "of the maximal paths of the repaired model for the scenarios below, steered through the database gates; quick tier: a seeded sample of %d of %s; "
                "(b) 3 fixed regression probes (f1det-remove, f1det-import: the deterministic F1 schedule using a held KeystoreManager mutex; nilrace: import while the worker goroutine has not run); "
                "(c) %d unsteered request/Stop races; (d) %d queue-pressure schedules (see queue_pressure). distinct_nontrivial = distinct (scenario, observed sequence) pairs with at least 4 events. "
                "Every observed sequence + outcome is checked for membership in the model by subset simulation." % (len(specs), sum(nproj.values()), nrace, nqp),
        "by_scenario": by_scen,
        "outcomes": outcomes,
        "schedules_followed_exactly": exact,
        "schedules_diverged_by_select_choice_or_timing": sum(1 for l in rlines if field(l, "diverged") == "1"),
        "projections_per_scenario": nproj,
        "model_checking_evidence_NOT_proof": {"repaired": enum["repaired"], "code_as_found": enum["found"],
                                              "deadlock_end_states": {"repaired": dead_repaired, "code_as_found": dead_found}},
        "placements_not_reachable_from_outside": "positions of a goroutine between two channel operations without a database call in between cannot be held: worker between its quit check and the sigSuspend send "
                                                 "(reached only through the KeystoreManager-mutex trick of the f1det probes), handler between a select wake-up and BeginTx, the instant between close(quit) and quitWg.Wait; the choice of a `select` with several ready branches cannot be forced "
                                                 "(schedules that need a particular choice are followed up to that point and the rest of the run is still checked for membership)",
        "api_calls_after_database_close_that_panicked": after_close,
        "queue_pressure": qp_summary(qp_lines, qp_undiscriminating),
        "samples": rlines[:4] + rlines[len(rlines) // 2: len(rlines) // 2 + 3] + rlines[-3:],
        "disagreements_checked": len(rlines),
        "mismatches": len(c.violations),
    })
    c.assumptions = ["import = one batch in the steered model schedules, two batches (chain of 1001..1030 blocks, or one refused + one accepted batch) in the queue-pressure schedules; removal = one phase-2 round (fewer than 20000 credits); the theorems cover any number",
                     "API requests issued after the database was closed are expected to fail; RemoveWallet then panics on a nil bucket instead of returning an error (counted above, reported under C19, not a C20 violation)"]
    brk = None
    if xlines and not c.violations:
        brk = "the harness could not run %d schedules: %s" % (len(xlines), xlines[0][:600])
    if dead_repaired and not c.violations and not brk:
        brk = "the repaired model has deadlock end states in the enumerated scenarios although C20_stop_terminates is proved: model/driver inconsistency"
    if not proofs_ok and not c.violations and not brk:
        brk = "proof obligations of Properties/C20.v no longer check: " + str(c.proof_break)
    return c.finish(TRUSTED, no_input_break=brk)
