"""C19 — no client request or chain event can crash or silently stall the wallet.
PARTIAL claim, three legs, all run on every invocation:
  1. proof (coq/Properties/C19.v) about the model coq/Api/{Validate,Panic}.v with explicit Panic outcomes,
     and about the follower (Ledger model, process_or_keep);
  2. inventory drift: translate/bce_inventory.go regenerates, from $VERIF_REPO, the compiler-unproven bounds
     checks (go build -gcflags=-d=ssa/check_bce/debug=1) and the nil sources of the four packages, keyed by
     (file, function, expression); every entry inside a MODELLED function must be pinned in
     corpus/C19_inventory.json with the lemma (or contract) that covers it;
  3. exploration of the REAL API (harness/cmd/c19): every APIServer request handler (the node carries mass-core's real
     SyncManager in vault mode, never started: no socket, no peers) and the exported WalletManager methods, under
     recover(), valid / boundary / malformed arguments plus a structured mostly-valid stream for the transaction,
     history, node-query and block methods (gen2.go), in every wallet state (none, unselected, selected, pending,
     after restart, importing, removing, removed, starting, lagging behind a reorganisation of the node), deterministic
     schedules racing requests with the background removal, blocks / unconfirmed transactions with unsupported or
     malformed scripts followed by a liveness probe; plus correspondence of the extracted model with the
     implementation's answers on the same requests and the same store answers."""
import json
import os
import re
import vcheck as V

PID = "C19"
KEY_STALL = "stall:masswallet/keystore/manager.go:index-hint"
TRUSTED = [
    "Coq 8.16.1 kernel (coqc), full .vo build; vm_compute only in closed witnesses and Examples; no native_compute",
    "axioms: none (Print Assumptions: Closed under the global context for every theorem of Properties/C19.v)",
    "the model is hand-written (coq/Api/Validate.v, coq/Api/Panic.v): modelled rather than verified; tied to the code by (a) the drift inventory, (b) the correspondence run; everything behind the modelled part of a method (fee arithmetic, output construction, signing, serialisation, keystore, database) is a boolean oracle in the model and is covered by the exploration only",
    "translator translate/bce_inventory.go: go build -gcflags=-d=ssa/check_bce/debug=1 (the Go compiler's own prove pass decides which bounds checks are unproven) + go/ast for the enclosing function, the expression text and the nil sources; the nil-check debug flag (-d=nil) is NOT used (it cannot separate proven from fault-based checks)",
    "pinned inventory corpus/C19_inventory.json (dispositions written by translate/pin_c19_inventory.py and reviewed by hand): 'contract' / 'assumption' / 'constructor' dispositions are trusted statements about callees and data (non-nil results when err == nil, no nil elements in decoded slices, fields assigned once by the constructors)",
    "extraction: ExtrOcamlBasic only; Z/N/positive/nat stay inductive; ocaml/common/conv.ml + ocaml/C19/driver.ml (line parser, record construction, printing)",
    "Go harness harness/cmd/c19 (world builder on harness/internal/sim: real WalletManager on LevelDB in /dev/shm, real api.APIServer built with api.NewAPIServer, simulated node with mass-core's netsync.SyncManager in vault mode (sim/sync.go), the Blockchain object re-opened after the history was built so that node-side queries see it; mass-core package variables lowered: CoinbaseMaturity, MinFrozenPeriod, StakingTxRewardStart, and MASSIP0002WarmUpHeight in every other instance; request generator by reflection over api/proto plus the structured generator gen2.go (addresses / binding targets / heights / payloads of the state, BLS-signed pool-coinbase payloads, transactions signed through SignRawTransaction); DB gate wrapping BeginTx/BeginReadTx/Rollback for the held states and schedules; recover()/deadline wrappers; stack-to-key mapping); hooks (build tag verif): masswallet/hooks_verif.go, masswallet/server_verif.go",
    "wf_store of the model (ExistsTx answers only for credits of existing, script-readable outputs; a hash names one transaction; ExistsUtxo answers only for existing outputs) is justified by C01/C16, not re-proved here; on every run the harness reads the real store through the same functions and the model is evaluated on those answers",
    "environment, not verified: mass-core (chain DB, script engine, address codecs, txpool), goleveldb, grpc/protobuf (a handler panic kills the process: grpc-go does not recover; the wallet's own Recover() logs at FATAL and logrus exits)",
]

SITE_KEY = {  # model site -> key the exploration computes for a real panic there
    "PCtiIndex": "panic:masswallet/tx.go:WalletManager.constructTxIn", "PCtiBlockNil": "panic:masswallet/tx.go:WalletManager.constructTxIn",
    "PSenders0": "panic:masswallet/wallet.go:WalletManager.CreateRawTransaction",
    "PEstIndex": "panic:masswallet/tx.go:WalletManager.estimateSignedSize", "PEstAddrs0": "panic:masswallet/tx.go:WalletManager.estimateSignedSize",
    "PSignIndex": "panic:masswallet/tx.go:WalletManager.signWitnessTx", "PSignMetaNil": "panic:masswallet/tx.go:WalletManager.signWitnessTx",
    "PSignScriptCurNil": "panic:masswallet/tx.go:WalletManager.signWitnessTx", "PFindMaNil": "panic:masswallet/tx.go:WalletManager.findEligibleUtxos",
    "PExistsTxCurNil": "panic:masswallet/txmgr/txstore.go:TxStore.ExistsTx", "PExistsUtxoCurNil": "panic:masswallet/txmgr/txstore.go:TxStore.ExistsUtxo",
    "PBalanceCurNil": "panic:masswallet/txmgr/utxostore.go:UtxoStore.ScriptAddressBalance",
    "PUnspentsCurNil": "panic:masswallet/txmgr/utxostore.go:UtxoStore.ScriptAddressUnspents",
    "PSelectSlice": "panic:masswallet/tx.go:selectRelatedTx", "PTaskChanNil": "panic:masswallet/task.go:WalletTaskChan.IsBusy",
    "PImportRecNil": "panic:masswallet/ntfnshandler.go:NtfnsHandler.asyncImport",
    # the second group (tx_service.go / block_service.go / txmgr history)
    "PBindHistIndex": "panic:masswallet/txmgr/utxostore.go:UtxoStore.GetBindingHistoryDetail",
    "PBindHistTargetNil": "panic:api/tx_service.go:APIServer.GetBindingHistory", "PBindHistPrevIndex": "panic:api/tx_service.go:APIServer.GetBindingHistory",
    "PTargetIdx": "panic:api/tx_service.go:APIServer.CheckTargetBinding", "PTxTypeIndex": "panic:api/block_service.go:APIServer.getTxType",
    "PCurEvictedNil": "panic:masswallet/keystore/manager.go:KeystoreManager.GetManagedAddressByScriptHashInCurrent",
    "PVinIndex": "panic:api/tx_service.go:APIServer.createVinList", "PRewardTxOut": "panic:api/block_service.go:APIServer.GetBlockStakingReward",
}


def inventory(c):
    """leg 2. Returns (drift description or None, statistics)."""
    binp = os.path.join(V.BIN, "bce_inventory")
    os.makedirs(V.BIN, exist_ok=True)
    rc, o, e = V.sh(["go", "build", "-o", binp, "bce_inventory.go"], cwd=os.path.join(V.ROOT, "translate"), timeout=600)
    if rc != 0:
        return "translator translate/bce_inventory.go does not build: " + (o + e)[-800:], {}, []
    inv_path = os.path.join(c.workdir, "inventory.json")
    rc, o, e = V.sh([binp, "-repo", V.REPO, "-out", inv_path], timeout=900)
    if rc != 0:
        return "translator failed (a translator that cannot find its anchor fails the check): " + (o + e)[-800:], {}, []
    inv = json.load(open(inv_path))
    pin = json.load(open(os.path.join(V.ROOT, "corpus", "C19_inventory.json")))
    modelled = pin["modelled_functions"]
    partial = {}
    for k, rules in pin["partially_modelled"].items():
        f, fn = k.split(":")
        partial[(f, fn)] = [(r.split(" /")[0], r.split(" /", 1)[1].rstrip("/")) for r in rules]
    pinned = {e["key"]: e for e in pin["entries"]}
    pinned_else = {e["key"] for k, v in pin.items() if k.startswith("bounds_checks_elsewhere (counted") for e in v}
    new_else = []

    def in_scope(e):
        if e["func"] in modelled.get(e["file"], []):
            return True
        for kind, rx in partial.get((e["file"], e["func"]), []):
            if e["kind"] == kind and (re.search(rx, e.get("var") or "") if kind == "nil" else re.search(rx, e["expr"])):
                return True
        return False

    problems = []
    drift_funcs = []
    # modelled functions must still exist
    for f, fns in modelled.items():
        for fn in fns:
            if fn not in inv.get("functions", {}).get(f, []):
                problems.append("modelled function %s:%s no longer exists (the model describes code that is gone)" % (f, fn))
    for (f, fn) in partial:
        if fn not in inv.get("functions", {}).get(f, []):
            problems.append("partially modelled function %s:%s no longer exists" % (f, fn))
    seen = set()
    elsewhere = {}
    n_scope = 0
    for e in inv["entries"]:
        key = "|".join([e["kind"], e["file"], e["func"], e.get("var", ""), e["expr"]])
        if not in_scope(e):
            if e["kind"] in ("index", "slice", "inlined"):
                elsewhere[e["kind"]] = elsewhere.get(e["kind"], 0) + e["count"]
                if key not in pinned_else:
                    new_else.append("%s:%s `%s`" % (e["file"], e["func"], e["expr"]))
            continue
        n_scope += 1
        seen.add(key)
        p = pinned.get(key)
        if p is None:
            problems.append("new %s site without a lemma in modelled function %s:%s: `%s`%s (lines %s)" % (
                {"index": "bounds-check", "slice": "slice-bounds", "inlined": "inlined bounds-check", "nil": "nil-source", "nilx": "nil-dereference", "field": "field-dereference"}[e["kind"]],
                e["file"], e["func"], e["expr"], (" of variable " + e["var"]) if e.get("var") else "", e["lines"]))
            drift_funcs.append("%s:%s" % (e["file"], e["func"]))
        elif e["count"] > p["count"]:
            problems.append("%d more occurrence(s) of pinned site `%s` in %s:%s" % (e["count"] - p["count"], e["expr"], e["file"], e["func"]))
            drift_funcs.append("%s:%s" % (e["file"], e["func"]))
    gone = [k for k in pinned if k not in seen]
    # every disposition must name things that exist
    proofs_src = "\n".join(open(os.path.join(V.COQ, "Api", f)).read() for f in sorted(os.listdir(os.path.join(V.COQ, "Api"))) if f.startswith("Proofs") and f.endswith(".v"))
    valid_src = open(os.path.join(V.COQ, "Api", "Validate.v")).read()
    lemmas = set(re.findall(r"^\s*(?:Lemma|Theorem)\s+([A-Za-z0-9_']+)", proofs_src, re.M))
    sites = set(re.findall(r"^\|\s*(P[A-Za-z0-9]+)", valid_src, re.M))
    n_lemma = n_contract = 0
    for k, p in pinned.items():
        d = p["disposition"]
        for name in re.findall(r"(?:lemma|generic):([A-Za-z0-9_']+)", d):
            n_lemma += 1
            if name not in lemmas:
                problems.append("pinned entry `%s` refers to lemma %s, which coq/Api/Proofs.v does not prove" % (k, name))
        for s in re.findall(r"site:([A-Za-z0-9]+)", d):
            if s not in sites:
                problems.append("pinned entry `%s` refers to site %s, which coq/Api/Validate.v does not define" % (k, s))
        if not re.search(r"(lemma|generic):", d):
            n_contract += 1
        if d == "UNCLASSIFIED":
            problems.append("pinned entry `%s` is unclassified" % k)
    stats = {"compiler_unproven_bounds_checks": inv["compiler_reports"], "entries_in_modelled_functions": n_scope,
             "pinned_entries": len(pinned), "pinned_with_lemma": n_lemma, "pinned_by_contract_or_assumption": n_contract,
             "pinned_entries_no_longer_reported": len(gone), "bounds_checks_elsewhere (counted only)": elsewhere,
             "bounds_checks_elsewhere_not_in_the_pinned_classification (counted only)": new_else[:40]}
    return ("; ".join(problems[:12]) + (" … (%d in all)" % len(problems) if len(problems) > 12 else "")) if problems else None, stats, drift_funcs


def run_harness(c, exe, tier, extra_env=None):
    impl = os.path.join(c.workdir, "impl-%d.txt" % len(os.listdir(c.workdir)))
    # the machine is shared: at most 8 worker processes (VERIF_JOBS overrides)
    jobs = min(V.NCPU, int(os.environ.get("VERIF_JOBS", "8")))
    rc, o, e = V.sh([exe, "-tier", tier, "-out", impl, "-j", str(jobs)], timeout=3300, env_extra=extra_env)
    if rc != 0:
        return None, (o + e)[-1500:]
    return impl, ""


def main(tier, replay=None):
    c = V.Check(PID, tier)
    proofs_ok = c.proofs(gen_only=["Consts.v"])
    c.log("proofs:", "ok" if proofs_ok else c.proof_break)

    drift, inv_stats, drift_funcs = inventory(c)
    c.log("inventory:", "no drift" if not drift else drift[:600])

    outs, err = V.go_build(["c19"])
    if outs is None:
        return c.finish(TRUSTED, no_input_break="exploration harness cmd/c19 no longer builds against the repository: " + err[-1500:])
    exe, err = V.ocaml_build(PID)
    if exe is None:
        return c.finish(TRUSTED, no_input_break="extraction/OCaml build of the API model failed: " + err[-1500:])

    files = []
    if replay:
        rp = json.load(open(replay))
        lines = []
        for v in rp.get("violations", []):
            r = v.get("replay", {})
            if "worker" in r:
                tmp = os.path.join(c.workdir, "replay-%d.txt" % len(lines))
                V.sh([outs[0]] + r["worker"] + ["-wout", tmp], timeout=300)
                if os.path.exists(tmp):
                    lines += V.read_lines(tmp)
        p = os.path.join(c.workdir, "impl-replay.txt")
        open(p, "w").write("\n".join(lines) + "\n")
        files = [p]
    else:
        impl, err = run_harness(c, outs[0], tier)
        if impl is None:
            return c.finish(TRUSTED, no_input_break="harness cmd/c19 failed to run: " + err)
        files = [impl]

    def analyse(path):
        lines = V.read_lines(path)
        rc, mo, me = V.sh("%s < %s" % (exe, path), timeout=1800)
        model = {}
        if rc == 0:
            for l in mo.splitlines():
                f = l.split("\t")
                if len(f) >= 3 and f[0] == "R":
                    model[f[1]] = f[2].split("|")
        return lines, model, (me[-800:] if rc != 0 else "")

    per_key = {}

    def violation(key, what, rep):
        """one report per key (the first, i.e. lowest case); the number of further hits goes to the evidence"""
        per_key[key] = per_key.get(key, 0) + 1
        if per_key[key] == 1:
            c.violation(key, what, rep)

    stat = {"requests": 0, "by_state": {}, "by_class": {}, "by_method": {}, "events": 0, "events_beyond_consensus": 0, "liveness_probes": 0,
            "race_schedules": 0, "model_cases": 0, "model_predicts_error": 0, "distinct": set(), "unknown_fields": set()}
    samples = []
    hints = []
    corr_fail = []

    def handle_file(path):
        lines, model, merr = analyse(path)
        if merr:
            corr_fail.append(("driver", "model driver failed: " + merr, {}))
        mins = {}
        for l in lines:
            f = l.split("\t")
            if f[0] == "M":
                mins[f[1]] = f
        for l in lines:
            f = l.split("\t")
            t = f[0]
            if t == "C" and len(f) >= 9:
                _, scen, inst, part, k, state, method, cls, req = f[:9]
                info = f[9] if len(f) > 9 else ""
                cid = "%s/%s/%s/%s" % (scen, inst, part, k)
                stat["requests"] += 1
                stat["by_state"][state.split(":")[0]] = stat["by_state"].get(state.split(":")[0], 0) + 1
                kcls = cls if not cls.startswith("err") else "err"
                stat["by_class"][kcls] = stat["by_class"].get(kcls, 0) + 1
                stat["by_method"].setdefault(method, {}).setdefault(kcls if kcls in ("ok", "err") else "panic-or-stall", 0)
                stat["by_method"][method][kcls if kcls in ("ok", "err") else "panic-or-stall"] += 1
                stat["distinct"].add((state, method, cls))
                if scen == "race-remove":
                    stat["race_schedules"] += 1
                if len(samples) < 6 and stat["requests"] % 701 == 1:
                    samples.append(l[:400])
                worker = ["-worker", "-scen", scen, "-inst", inst, "-part", part, "-nreq", str(int(k) + 1)]
                rep = {"case": cid, "state": state, "method": method, "request": req[:1500], "answer": cls, "detail": info[:1500],
                       "worker": worker, "rerun": "VERIF_SEED=%d %s %s -wout /dev/stdout" % (c.seed, outs[0], " ".join(worker))}
                if cls.startswith("panic") or cls == "stall":
                    m = mins.get(cls + "@" + method)
                    if m and m[2:6] == [scen, inst, part, k]:
                        rep["single_request_reproduces_on_fresh_state"] = m[6] == "1"
                        if m[6] == "1":
                            rep["worker"] = worker + ["-only", k]
                    what = "%s in state '%s' answered with a %s: %s | request %s" % (
                        method, state, "panic" if cls.startswith("panic") else "stall (no answer within the deadline)", info[:300], req[:300])
                    violation(cls if cls.startswith("panic") else "stall:" + method, what, rep)
                # correspondence with the model
                if cid in model:
                    pred = model[cid]
                    stat["model_cases"] += 1
                    if pred == ["skip"]:
                        continue
                    if any(p.startswith("driver-error") for p in pred):
                        corr_fail.append((cid, "model driver: " + pred[0], rep))
                        continue
                    ok = False
                    for p in pred:
                        if p == "ok":
                            ok = ok or not cls.startswith("panic")
                        elif p.startswith("err:"):
                            code = p[4:]
                            if code == "0" or method.startswith("WM."):   # Go errors of the WalletManager carry no gRPC code
                                ok = ok or cls.startswith("err")
                            else:
                                ok = ok or cls == "err:" + code
                        elif p.startswith("panic:"):
                            ok = ok or cls == SITE_KEY.get(p[6:], "?")
                    if any(p.startswith("err") for p in pred):
                        stat["model_predicts_error"] += 1
                    if not ok:
                        corr_fail.append((cid, "%s in state '%s': implementation answers %s, the model %s | request %s" % (method, state, cls, "|".join(pred), req[:300]), rep))
            elif t == "V" and len(f) >= 8:
                _, scen, inst, part, k, ev, cls, live = f[:8]
                detail = f[8] if len(f) > 8 else ""
                stat["events"] += 1
                beyond = "[beyond" in ev
                if beyond:
                    stat["events_beyond_consensus"] += 1
                stat["distinct"].add(("event", ev, cls, live))
                worker = ["-worker", "-scen", scen, "-inst", inst, "-part", part, "-nreq", str(int(k) + 1)]
                rep = {"case": "%s/%s/%s/%s" % (scen, inst, part, k), "event": ev, "result": cls, "liveness": live, "detail": detail[:1500], "worker": worker}
                if cls.startswith("panic") or cls == "stall":
                    violation(cls if cls.startswith("panic") else "stall:event", "chain event '%s': %s %s" % (ev, cls, detail[:300]), rep)
                elif live == "dead" and not beyond:
                    violation("wedge:" + re.sub(r"[^a-z0-9_-]+", "-", ev.lower()), "after chain event '%s' (%s) the follower no longer processes an ordinary block: %s" % (ev, cls, detail[:300]), rep)
                if live != "-":
                    stat["liveness_probes"] += 1
            elif t == "L" and len(f) >= 5:
                stat["liveness_probes"] += 1
                if f[4] != "ok":
                    worker = ["-worker", "-scen", f[1], "-inst", f[2], "-part", f[3], "-nreq", "100000"]
                    violation("liveness:" + f[1], "after the requests of instance %s/%s/%s the follower no longer processes an ordinary block: %s" % (f[1], f[2], f[3], f[5] if len(f) > 5 else ""),
                                {"case": "/".join(f[1:4]), "worker": worker})
            elif t == "X" and len(f) >= 7:
                _, scen, inst, part, k, what = f[:6]
                worker = ["-worker", "-scen", scen, "-inst", inst, "-part", part, "-nreq", str(int(k) + 1 if k.lstrip("-").isdigit() and int(k) >= 0 else 100000)]
                if what == "background-panic":
                    violation(f[6], "a background goroutine of the wallet panicked (its Recover() logs FATAL and the process exits) at case %s of %s/%s/%s: %s" % (k, scen, inst, part, (f[7] if len(f) > 7 else "")[:600]),
                                {"case": "%s/%s/%s/%s" % (scen, inst, part, k), "detail": (f[7] if len(f) > 7 else "")[:3000], "worker": worker})
                elif what in ("worker-died",):
                    corr_fail.append(("harness", "worker process of %s/%s/%s died: %s" % (scen, inst, part, f[6][:300]), {"worker": worker}))
                elif what == "harness":
                    corr_fail.append(("harness", "state %s/%s/%s could not be built: %s" % (scen, inst, part, f[6][:400]), {"worker": worker}))
            elif t == "H" and len(f) >= 8:
                hints.append((int(f[4]), float(f[5]), f[3], float(f[7]), f[6]))
            elif t == "U":
                stat["unknown_fields"].update(f[1].split())

    for p in files:
        handle_file(p)

    # the index-hint stall (known finding): slope of the import's duration in the hint, extrapolated to 2^32-1
    stall_note = None
    hs = sorted(h for h in hints if h[4] == "ok")
    if len(hs) >= 2 and hs[-1][0] > hs[0][0]:
        slope = (hs[-1][1] - hs[0][1]) / (hs[-1][0] - hs[0][0])
        extrap = slope * (2 ** 32 - 1)
        blocked = max(h[3] for h in hs)
        stall_note = "ImportMnemonic: %s; %.2f ms per index; a hint of 2^32-1 keeps WalletManager.mu and the database write transaction for about %.0f s (%.1f days); a concurrent Wallets() request waited %.2f s of the %.2f s import" % (
            ", ".join("hint %d -> %.3f s" % (h[0], h[1]) for h in hs), slope * 1000, extrap, extrap / 86400, blocked, hs[-1][1])
        if extrap > 60:
            c.violation(KEY_STALL, stall_note, {"case": "hints", "measurements": [{"hint": h[0], "seconds": h[1], "kind": h[2], "other_request_blocked_s": h[3]} for h in hs],
                                                "worker": ["-worker", "-scen", "hints", "-inst", "2", "-nreq", "1"]})
    elif not replay:
        corr_fail.append(("harness", "the index-hint probe produced no measurement", {}))

    # broken obligations: inventory drift / correspondence break / proofs -> focused search, then no-failing-input-found
    brk = None
    if drift or corr_fail or not proofs_ok:
        if not c.violations and not replay:
            c.log("an obligation is broken; focused search with 8x the exploration budget")
            impl2, err2 = run_harness(c, outs[0], tier, {"C19_INSTANCES": str(24 if tier == "quick" else 64), "C19_NREQ": "300"})
            if impl2:
                handle_file(impl2)
        parts = []
        if drift:
            parts.append("inventory drift against corpus/C19_inventory.json: " + drift)
        if corr_fail:
            parts.append("correspondence: " + "; ".join(x[1] for x in corr_fail[:4]) + (" … (%d in all)" % len(corr_fail) if len(corr_fail) > 4 else ""))
        if not proofs_ok:
            parts.append("proof obligations of Properties/C19.v no longer check: " + str(c.proof_break))
        brk = " || ".join(parts)

    c.coverage.update({
        "evaluations": stat["requests"] + stat["events"],
        "distinct_nontrivial": len(stat["distinct"]),
        "rule": "one evaluation = one API / WalletManager request executed on the real wallet in a generated state, or one chain event (block / unconfirmed "
                "transaction / reorganisation / re-import) followed by a liveness probe. distinct_nontrivial = distinct (state, method, answer class incl. error code) "
                "resp. (event, result, liveness) combinations observed (measured). Requests are drawn by reflection over api/proto: each field from a pool chosen by its "
                "name (ids / addresses / txids / outpoints / passphrases / mnemonics / keystores / transaction hex of this very state, of the other wallet, of another network; "
                "empty, 1 char, limits -1/0/+1, 10 000 chars, non-hex, odd hex, class confusion, overflowing numbers), 95/85/70/40 % valid per request.",
        "requests": stat["requests"], "by_state": stat["by_state"], "by_answer": stat["by_class"],
        "by_method (ok / err / panic-or-stall)": {m: v for m, v in sorted(stat["by_method"].items())},
        "chain_events": stat["events"], "chain_events_beyond_consensus (wedges not counted as violations)": stat["events_beyond_consensus"],
        "liveness_probes": stat["liveness_probes"], "race_schedules (request frozen at each DB read boundary x removal frozen before write 1/2)": stat["race_schedules"],
        "model_cases_compared": stat["model_cases"], "model_cases_where_the_model_predicts_an_error": stat["model_predicts_error"],
        "disagreements_checked": stat["model_cases"] + stat["requests"] + stat["events"],
        "correspondence_failures": len(corr_fail),
        "violating_cases_by_key": per_key,
        "inventory": inv_stats,
        "index_hint_probe": stall_note,
        "request_fields_without_a_pool": sorted(stat["unknown_fields"]),
        "samples": samples,
        "modelled_functions": json.load(open(os.path.join(V.ROOT, "corpus", "C19_inventory.json")))["modelled_functions"],
        "not_explored": "Start/Stop/RunGateway, the gRPC and HTTP plumbing; GetClientStatus and proccessReceivedTx's best-peer look-up are served by a "
                        "SyncManager that was never started (no peers, nothing listening): peer lists with entries are not explored. SendRawTransaction: "
                        "transactions built and signed through the API itself are accepted by mass-core's pool and reach the follower through "
                        "OnTransactionReceived; transactions the pool would relay to peers go to a channel nobody reads (capacity 10000)",
    })
    c.assumptions = [
        "requests reach the handlers as protobuf decoding produces them: no nil element inside a repeated message field, uint32/uint64 fields in range",
        "blocks and unconfirmed transactions are those a consensus-following node delivers; events beyond that (the same coin spent twice in a block, negative or overflowing values, binding input and binding output together) are run and shown but a refused block there is not a violation",
        "one wallet database per process (driver-global write batch); CoinbaseMaturity 4, MinFrozenPeriod 2, StakingTxRewardStart 2, scrypt N=16 (package variables lowered by the harness)",
        "chain consistency (model: wf_env): a transaction the node serves (block, mempool, chain look-up by hash) was validated by it, so its inputs refer to existing outputs; a coinbase pays the staking rewards its payload announces. What the wallet RECORDED about the chain may be stale (state lagging-reorg): no assumption there",
        "a stall is a request without an answer within 6 s (120 s for the index-hint probe)",
    ]
    return c.finish(TRUSTED, no_input_break=brk)
