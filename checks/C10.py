"""C10 — staking and binding deposits follow their lifecycle exactly.
proof (coq/Properties/C10.v over coq/Ledger/Pending.v) + correspondence: deposit-heavy histories (staking outputs with
small frozen periods, old/new binding outputs around a lowered MASSIP0002 warm-up height, their withdrawals, pending
versions, reorganisations) run on the real WalletManager (harness/cmd/c09 -mode c10) and replayed on the extracted model;
deposit rows, withdrawable amounts (against the consensus lock), automatic selection and the sequence numbers of
withdrawal transactions the wallet builds are checked."""
import os
import sys
sys.path.insert(0, os.path.dirname(os.path.abspath(__file__)))
import vcheck as V
import _pending_common as PC

PID = "C10"
TRUSTED = [
    "Coq 8.16.1 kernel (coqc), full .vo build; no native_compute; vm_compute only for closed witnesses",
    "axioms: none (Print Assumptions of every theorem of Properties/C10.v: Closed under the global context)",
    "extraction: ExtrOcamlBasic only (coq/Extract/C09.v serves C09 and C10); ocaml/common/conv.ml + ocaml/C09/driver.ml",
    "Go harness: harness/internal/sim, harness/internal/hist (hist.go + pending.go), harness/cmd/c09 -mode c10 -warmup 7 (consensus.MASSIP0002WarmUpHeight lowered: package variable)",
    "hooks (build tag verif): masswallet/hooks_verif.go accessors",
    "the consensus side of the theorems is a transcription of mass-core: txscript/engine.go (CHECKSEQUENCEVERIFY operand of staking/binding witness programs), "
    "txscript/opcode.go (opcodeCheckSequenceVerify), blockchain/chain.go (calcSequenceLock), blockchain/validate.go (SequenceLockActive), blockchain/scriptval.go (ScriptMASSip2 flag)",
    "environment, not verified: mass-core, goleveldb",
    "modelled rather than verified: utxostore.go (AddCredits deposit rows, history queries), txstore.go (updateMinedBalance/withdrawGame, Rollback/unwithdrawGame), "
    "utils/txscript.go (Maturity), tx.go/common.go (constructTxIn/addTxIn sequence, getUtxosExcludeBindingAndStaking)",
]


def main(tier, replay=None):
    c = V.Check(PID, tier)
    proofs_ok = c.proofs(gen_only=["Consts.v"])
    c.log("proofs:", "ok" if proofs_ok else c.proof_break)
    counters = PC.new_counters()
    n = 340 if tier == "quick" else 1800
    if c.escalated:   # a modelled Go function changed since the pin (c.drift): look harder, no verdict from drift alone
        n *= 3
    base = ["-warmup", "7"]
    stats_all = []
    nbad = 0
    nhist = 0
    sample = []
    try:
        if replay:
            import json
            rp = json.load(open(replay))
            os.environ["VERIF_SEED"] = str(rp.get("seed", c.seed))
            todo = sorted({(v["replay"].get("batch", "main"), v["replay"]["history"]) for v in rp.get("violations", []) if "history" in v.get("replay", {})})
            for batch, hno in todo[:20]:
                extra = base + ["-first", str(hno)] + (["-probes", batch] if batch != "main" else [])
                hist, mo, stats, exe = PC.run(c, "c10", 1, extra, "replay-%s-%d" % (batch, hno))
                nbad += PC.evaluate(c, hist, mo, "c10", batch, exe, [x for x in extra if x not in ("-first", str(hno))], counters)
                nhist += len(hist)
        else:
            hist, mo, stats, exe = PC.run(c, "c10", n, base, "main")
            stats_all.append("main: " + stats)
            nbad += PC.evaluate(c, hist, mo, "c10", "main", exe, base, counters)
            nhist += len(hist)
            sample = hist.get(min(hist), [])[:80] if hist else []
            for key, probe in sorted(PC.PROBES.items()):
                if key in c.known or os.environ.get("VERIF_PROBE"):
                    h2, m2, s2, exe = PC.run(c, "c10", max(40, n // 6), base + ["-probes", probe], probe)
                    stats_all.append(probe + ": " + s2)
                    nbad += PC.evaluate(c, h2, m2, "c10", probe, exe, base + ["-probes", probe], counters)
                    nhist += len(h2)
    except RuntimeError as ex:
        return c.finish(TRUSTED, no_input_break=str(ex))
    brk = None
    if counters["harness_errors"] and not c.violations:
        brk = "the harness could not run %d histories: %s" % (len(counters["harness_errors"]), counters["harness_errors"][0][:500])
    if not brk and not c.violations and not replay and counters["withdrawals_ok"] < 50:
        brk = "the generator no longer produces withdrawal transactions to compare (%d built)" % counters["withdrawals_ok"]
    c.coverage.update({
        "evaluations": nhist,
        "distinct_nontrivial": len(counters["distinct"]),
        "rule": "one evaluation = one generated history (1-2 wallets, 10-40 steps; 55% of the wallet payees are staking scripts with frozen periods 2-6 or binding "
                "scripts — 20-byte targets below the warm-up height 7, 22-byte targets from it on —, withdrawals as soon as consensus allows, pending deposits "
                "and withdrawals, reorganisations across deposit and withdrawal blocks, restarts). At every query the wallet is asked to build the withdrawal of every "
                "listed deposit (CreateRawTransaction, lock time 0 or not) and, at some, to select coins automatically. distinct_nontrivial = distinct non-empty "
                "observations. " + " | ".join(stats_all),
        "observation_lines_compared": counters["lines"], "by_kind": counters["kinds"],
        "quiescent_queries_checked_against_spec": counters["quiescent"],
        "withdrawal_transactions_requested": counters["withdrawals"], "withdrawal_transactions_built_and_compared": counters["withdrawals_ok"],
        "selections": counters["selections"], "selections_built": counters["selections_ok"],
        "samples": [sample],
        "disagreements_checked": counters["lines"],
        "mismatching_histories": nbad,
    })
    c.assumptions = ["node mempool empty", "consensus-valid chains only (binding target length follows the warm-up height, staking withdrawals carry the required sequence)",
                     "CoinbaseMaturity lowered to 4, MinFrozenPeriod to 2, MASSIP0002WarmUpHeight to 7, scrypt N to 16 by the harness (package variables); "
                     "legal frozen periods (>= 61440) are not mined — the wallet reads the period out of the script without range-checking it",
                     "coinbase deposits carry frozen periods >= CoinbaseMaturity, as every legal period does (the history shows max(CoinbaseMaturity, frozen+1)-1)",
                     "without -probes foreign no transaction that concerns a wallet depends on a recent non-wallet output (recorded finding stale-pending:foreign-input)",
                     "binding history rows are compared in quiescent states only"]
    if not proofs_ok and not c.violations and not brk:
        brk = "proof obligations of Properties/C10.v no longer check: " + str(c.proof_break)
    return c.finish(TRUSTED, no_input_break=brk)
