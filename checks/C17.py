"""C17 — queries racing with synchronisation see one block boundary; no data races.  (claimed partial)
proof (coq/Properties/C17.v: Sched/Reads.v over the frozen Ledger model; Sched/Locks.v over the table
coq/Gen/Locks.v that this check regenerates with translate/locks from the Go source)
+ correspondence: queries of the real WalletManager whose database reads are numbered by the wrapper
harness/internal/sched while the REAL handler goroutine commits blocks between chosen reads
(harness/cmd/c17), replayed on the extracted model (ocaml/C17/driver.ml)
+ transaction-building calls (harness/cmd/c17/build.go): AutoCreateRawTransaction with one, two and three
selection rounds, CreateStakingTransaction, CreateBindingTransaction, EstimateTxFee, CreateRawTransaction with
explicit inputs; the wrapper numbers the READ TRANSACTIONS of the call and the real handler commits 1-3 blocks
before each of them in turn; every result is compared with the extracted model coq/Sched/Build.v and judged by
the extracted predicate tx_ok_at / refusal_ok_at (one boundary between the call's start and its end)
+ exploration (supporting evidence only): the same binary built with -race, API callers, block
processing, import and removal running concurrently."""
import json
import os
import re
import shutil
import vcheck as V

PID = "C17"
TRUSTED = [
    "Coq 8.16.1 kernel (coqc), full .vo build; vm_compute in the closed witnesses and in the two boolean table checks (lifted by discipline_sound / refuted_sound); no native_compute",
    "axioms: none (Print Assumptions: Closed under the global context for every theorem)",
    "translator translate/locks (go/parser + go/ast only): which Lock/RLock..Unlock pairs and which suspend/resume bracket syntactically enclose each access to a field of NtfnsHandler, WalletManager, KeystoreManager, AddrManager, UtxoStore, "
    "propagated along the call graph from the thread roots (handle, worker, exported WalletManager methods, node callbacks, constructors/Start, Stop); regenerated into coq/Gen/Locks.v on every run; fails when an anchor is missing",
    "extraction: ExtrOcamlBasic only; N/Z/positive/nat stay inductive; ocaml/common/conv.ml + ocaml/C17/driver.ml (line parser, answer printer, uint32 masks: glue, no model logic)",
    "transaction-building calls: harness/cmd/c17/build.go (a second DB wrapper that runs a hook right before BeginReadTx of the calling goroutine; one wallet per scenario, swept and re-funded before every placement), "
    "W lines evaluated by ocaml/C17/driver.ml with the extracted build_sched / tx_boundary / refusal_boundary / lookup_can_fail / manual_boundary of coq/Sched/Build.v; selection, size estimate and relay fee are the C02 model functions (Tx/Select.v, Tx/Fee.v) on the coin rows of Reads.v",
    "Go harness harness/cmd/c17 + harness/internal/sched (mwdb.DB wrapper numbering the reads of a read transaction) + harness/internal/hist, harness/internal/sim (real WalletManager on LevelDB in /dev/shm over a simulated node)",
    "hooks (build tag verif): masswallet/query_verif.go VerifSpendableCoins (getUtxosExcludeBindingAndStaking under w.mu.RLock), masswallet/hooks_verif.go accessors",
    "environment, not verified: goleveldb (snapshot = the store at the moment it is taken; iterator pinned at creation), LevelDB batch atomicity, mass-core",
    "outside every Gallina model (remainder): the Go memory model (that a common mutex or the hand-shake orders two accesses), aliasing (the table is per struct type, not per instance), accesses the syntactic translator cannot see; the race detector only reports pairs its schedules happen to meet",
]

REPO_PKG = "massnet.org/mass-wallet/"
JOBS = int(os.environ.get("VERIF_JOBS", V.NCPU))
# Refusals that are right at a boundary only for an amount (dust adjustment / fee target) decided on ANOTHER boundary
# (theorem C17_build_refusal_carried_refuted): judged by the theorem's predicate refusal_ok_at, counted in the
# evidence; VERIF_C17_STRICT_REFUSALS=1 reports them under the key build-refusal-carried-adjustment instead.
STRICT_REFUSALS = os.environ.get("VERIF_C17_STRICT_REFUSALS", "1") == "1"   # reported under the key (listed in KNOWN_FINDINGS.txt)
BUILD_SCENARIOS = 72   # 8 calls x 9 kinds of pending blocks


def run_translator(c):
    """Returns (content or None, error)."""
    rc, o, e = V.sh(["go", "run", os.path.join(V.ROOT, "translate/locks/main.go"), V.REPO], timeout=300,
                    cwd=os.path.join(V.ROOT, "translate/locks"), env_extra={"GO111MODULE": "off"})
    if rc != 0 or "Definition lock_table" not in o:
        return None, (e or o)[-1500:]
    m = re.search(r"locks: (\d+) functions, (\d+) with a thread context, (\d+) table entries", e)
    if m:
        c.coverage["lock_table"] = {"functions": int(m.group(1)), "functions_with_thread_context": int(m.group(2)), "entries": int(m.group(3))}
    return o, ""


def scratch_lock_check(c, table):
    """Compiles Sched/Locks*.v against a given table outside the shared tree. Returns (ok, actual writers or log)."""
    d = os.path.join(c.workdir, "locks")
    shutil.rmtree(d, ignore_errors=True)
    os.makedirs(os.path.join(d, "Gen"))
    os.makedirs(os.path.join(d, "Sched"))
    open(os.path.join(d, "Gen/Locks.v"), "w").write(table)
    for f in ("Locks.v", "LocksProofs.v"):
        shutil.copy(os.path.join(V.COQ, "Sched", f), os.path.join(d, "Sched", f))
    open(os.path.join(d, "w.v"), "w").write("Require Import MW.Gen.Locks MW.Sched.Locks.\nEval vm_compute in (unprotected_writers lock_table).\n")
    pre = "ulimit -v 8000000; cd %s && " % d
    rc, o, e = V.sh(pre + "timeout 300 coqc -Q . MW Gen/Locks.v && timeout 300 coqc -Q . MW Sched/Locks.v && timeout 300 coqc -Q . MW w.v", timeout=900)
    writers = re.findall(r'\("([^"]+)",\s*"([^"]+)"\)', o)
    rc2, o2, e2 = V.sh(pre + "timeout 300 coqc -Q . MW Sched/LocksProofs.v", timeout=900)
    return rc == 0 and rc2 == 0, writers, (o + e + o2 + e2)[-1500:]


def culprits(table):
    """Names the unprotected pairs of the table by the access that lacks the mutex of the
    variable's own struct (key material only: the discipline itself is the Coq theorem)."""
    rows = []
    for l in table.splitlines():
        m = re.match(r'\s*\("([^"]+)", "([^"]+)", (true|false), "([^"]+)", \[(.*)\]\)', l)
        if m:
            locks = dict((a, b == "true") for a, b in re.findall(r'\("([^"]+)", (true|false)\)', m.group(5)))
            rows.append((m.group(1), m.group(2), m.group(3) == "true", m.group(4), locks))

    def conc(r1, r2):
        if r1 == "I" or r2 == "I":
            return False
        return r1 == "A" if r1 == r2 else True

    def prot(l1, l2):
        return any(k in l2 and (x or l2[k]) for k, x in l1.items())
    # the guard of a variable = the mutex most of its accesses hold; the culprit of an unprotected
    # pair = the side that does not hold it
    guard = {}
    for v in set(r[0] for r in rows):
        cnt = {}
        for r in rows:
            if r[0] == v:
                for k in r[4]:
                    if k != "handshake" and k != "WalletManager.mu":
                        cnt[k] = cnt.get(k, 0) + 1
        guard[v] = max(cnt, key=cnt.get) if cnt else None
    res = {}
    for a in rows:
        if not a[2]:
            continue
        for b in rows:
            if a[0] == b[0] and conc(a[3], b[3]) and not prot(a[4], b[4]):
                g = guard.get(a[0])
                sides = [(x, y) for x, y in ((a, b), (b, a)) if g is None or g not in x[4]] or [(a, b), (b, a)]
                for x, y in sides:
                    d = res.setdefault(x[1], {"variables": set(), "against": set(), "roles": set(), "guard": g})
                    d["variables"].add(x[0])
                    d["against"].add("%s (%s)" % (y[1], y[3]))
                    d["roles"].add(x[3])
    return res


def short_fn(f):
    m = re.search(r"\(\*?(\w+)\)\.(\w+)", f)
    return "%s.%s" % (m.group(1), m.group(2)) if m else f.split(".")[-1]


def race_pairs(stderr):
    """Projects the race detector's reports to pairs of (file:function). The access itself is the
    innermost frame of each of the two stacks: when both lie in the repository the pair is a
    wallet race; when the racing memory belongs to a dependency (e.g. mass-core's logger) it is
    recorded apart (environment, not the wallet's shared state)."""
    wallet, dep = {}, {}
    for blk in stderr.split("WARNING: DATA RACE")[1:]:
        blk = blk.split("==================")[0]
        parts = re.split(r"\n(?=Previous (?:read|write)|Goroutine \d+ \()", blk)
        acc = [p for p in parts if re.match(r"\s*(Read|Write|Previous read|Previous write)", p.strip())][:2]
        inner, callers = [], []
        for p in acc:
            fr = re.findall(r"\n\s+(\S+)\(\)\n\s+(\S+?):(\d+)", "\n" + p)
            if not fr:
                continue
            # map and slice operations are runtime calls made on behalf of the accessing function
            fr2 = [x for x in fr if not x[0].startswith("runtime.")] or fr
            fn, path, _ = fr2[0]
            inner.append((fn, path))
            caller = next(("%s:%s" % (os.path.basename(pa), f.split("/")[-1]) for f, pa, _ in fr if REPO_PKG in f and not pa.endswith("_verif.go")), "?")
            callers.append(caller)
        if len(inner) != 2:
            continue
        if all(REPO_PKG in fn and not path.endswith("_verif.go") for fn, path in inner):
            key = "|".join(sorted("%s:%s" % (os.path.basename(path), fn.split("/")[-1]) for fn, path in inner))
            wallet.setdefault(key, blk.strip()[:3000])
        elif any("verifharness" in fn or path.endswith("_verif.go") for fn, path in inner):
            continue  # the harness' own accessors
        else:
            key = "|".join(sorted(set(fn.split("/")[-1] for fn, _ in inner))) + " (reached from " + " and ".join(sorted(set(callers))) + ")"
            dep.setdefault(key, blk.strip()[:1500])
    return wallet, dep


def main(tier, replay=None):
    c = V.Check(PID, tier)
    # 1. lock table from the source as it is now
    table, terr = run_translator(c)
    lock_break = None
    if table is None:
        lock_break = "translator translate/locks failed: " + terr
    elif V.REPO == "/repo":
        V.write_if_changed(os.path.join(V.COQ, "Gen", "Locks.v"), table)
    else:
        ok, writers, log = scratch_lock_check(c, table)   # mutation runs must not touch the shared coq/Gen
        if not ok:
            lock_break = "Sched/LocksProofs.v no longer checks against the table of %s: %s" % (V.REPO, log[-600:])
    proofs_ok = c.proofs(gen_only=[])
    c.log("proofs:", "ok" if proofs_ok else c.proof_break)
    if not proofs_ok and table is not None and "Locks" in str(c.proof_break):
        lock_break = "lock discipline (Sched/LocksProofs.v) no longer checks against the regenerated table: " + str(c.proof_break)
    culp = culprits(table) if table else {}
    for site, d in sorted(culp.items()):
        c.violation("race:" + site,
                    "%s accesses %s without %s (roles %s); conflicting accesses that share no lock with it: %s" % (
                        site, ", ".join(sorted(d["variables"])), d["guard"] or "any lock", "/".join(sorted(d["roles"])), "; ".join(sorted(d["against"])[:8])),
                    {"site": site, "variables": sorted(d["variables"]), "against": sorted(d["against"]),
                     "theorem": "C17_lock_discipline_refuted", "rerun": "go run /verif/translate/locks/main.go %s | grep '%s'" % (V.REPO, site)})

    outs, err = V.go_build(["c17"])
    if outs is None:
        return c.finish(TRUSTED, no_input_break="correspondence harness cmd/c17 no longer builds against /repo: " + err[-1500:])
    exe, err = V.ocaml_build(PID)
    if exe is None:
        return c.finish(TRUSTED, no_input_break="extraction/OCaml build of the Reads model failed: " + err[-1500:])

    # 2. scheduled queries on the real wallet
    n = 70 if tier == "quick" else 1500
    if c.escalated:   # a modelled Go function changed since the pin (c.drift): look harder, no verdict from drift alone
        n *= 3
    impl = os.path.join(c.workdir, "impl.txt")
    if replay:
        rp = json.load(open(replay))
        replay_doc = rp
        firsts = sorted({v["replay"]["history"] for v in rp.get("violations", []) if "history" in v.get("replay", {})})
        os.environ["VERIF_SEED"] = str(rp.get("seed", c.seed))
        lines = []
        for f in firsts[:20]:
            rc, o, e = V.sh([outs[0], "-worker", "-first", str(f), "-n", "1"], timeout=300)
            lines.append(o)
        open(impl, "w").write("".join(lines))
        stats = "replay"
    else:
        rc, o, e = V.sh([outs[0], "-n", str(n), "-out", impl, "-j", str(JOBS)], timeout=3000)
        stats = e.strip().splitlines()[-1] if e.strip() else ""
        if rc != 0:
            return c.finish(TRUSTED, no_input_break="harness cmd/c17 failed to run: " + (o + e)[-1500:])
    rc, mo, me = V.sh("%s < %s" % (exe, impl), timeout=3000)
    if rc != 0:
        return c.finish(TRUSTED, no_input_break="model driver failed: " + me[-1500:])
    hist, cur = {}, None
    for l in V.read_lines(impl):
        if l.startswith("H "):
            cur = int(l.split()[1])
            hist[cur] = []
        if cur is not None:
            hist[cur].append(l)
    nv = nmixed_possible = nq = 0
    kinds, distinct, bad, harness_err = {}, set(), {}, []
    injected_total = 0
    for l in mo.splitlines():
        f = l.split("\t")
        if f[0] == "X":
            harness_err.append(l)
            continue
        h = int(f[1])
        if f[0] == "V":
            nv += 1
            _, _, _, kind, im, nosnap, nr_impl, nr_nosnap, boundary, snap_eq, imm, sched, nr_snap = f
            kinds[kind] = kinds.get(kind, 0) + 1
            idxs = [int(x) for x in sched.split(",")]
            injected_total += max(idxs)
            if max(idxs) > min(idxs):
                distinct.add((h, kind, sched))
            if nosnap != im or True:
                pass
            # would the code as found have mixed boundaries here? (the no-snapshot model's answer differs from every boundary)
            if snap_eq == "1" and nr_impl == nr_snap:
                if nosnap != im:
                    nmixed_possible += 1
                continue
            if h in bad:
                continue
            rp = {"history": h, "kind": kind, "schedule": sched, "implementation": im, "no_snapshot_model": nosnap, "lines": hist.get(h, [])[:400],
                  "rerun": "VERIF_SEED=%d /verif/build/bin/c17 -worker -first %d -n 1" % (c.seed, h)}
            if im == nosnap and boundary == "-1":
                wrap = imm != "0" or re.search(r":42949672\d\d(\s|$)", im) is not None
                key = "query-mixed-boundary-confs-wrap" if wrap else "query-mixed-boundary"
                bad[h] = (key, "a %s query overlapped by block commits (commit index per read: %s) answered [%s]: the answer of no single block boundary between its start and its end%s; "
                               "this is the behaviour of the model without read snapshots (C17_single_boundary_refuted)" % (kind, sched, im[:300], " — an immature coin is offered as spendable (confs wrapped)" if wrap else ""), rp)
            else:
                bad[h] = ("query-model-mismatch", "%s query with commit schedule %s: implementation [%s] (%s reads), snapshot model differs (%s reads), no-snapshot model [%s]" % (kind, sched, im[:300], nr_impl, nr_snap, nosnap[:300]), rp)
        elif f[0] == "P":
            if f[4] != f[5] and h not in bad:
                bad[h] = ("history:model", "announcement of block %s: implementation %s, model %s" % (f[3], f[4], f[5]), {"history": h, "lines": hist.get(h, [])[:400]})
        elif f[0] == "Q":
            nq += 1
            if f[5] != f[6] and h not in bad:
                bad[h] = ("history:model", "quiescent report of wallet %s: implementation [%s] model [%s]" % (f[3], f[5][:300], f[6][:300]), {"history": h, "lines": hist.get(h, [])[:400]})
    for h, (key, what, rp) in sorted(bad.items()):
        c.violation(key, what, rp)

    # 2b. transaction-building calls: commits before every read transaction of the call
    bimpl = os.path.join(c.workdir, "impl_build.txt")
    nb = BUILD_SCENARIOS if tier == "quick" else BUILD_SCENARIOS * 6
    if c.escalated:
        nb *= 2
    bstats, bw = "", {}
    if replay:
        scen = []
        for v in sorted(replay_doc.get("violations", []), key=lambda v: v.get("key") == "build-model-mismatch"):
            if "scenario" in v.get("replay", {}) and v["replay"]["scenario"] not in scen:
                scen.append(v["replay"]["scenario"])
        lines = []
        for sidx in scen[:20]:
            rc, o, e = V.sh([outs[0], "-worker", "-mode", "build", "-first", str(sidx), "-n", "1"], timeout=600)
            lines.append(o)
        open(bimpl, "w").write("".join(lines))
    else:
        rc, o, e = V.sh([outs[0], "-mode", "build", "-n", str(nb), "-out", bimpl, "-j", str(JOBS)], timeout=3000)
        bstats = e.strip().splitlines()[-1] if e.strip() else ""
        if rc != 0:
            return c.finish(TRUSTED, no_input_break="harness cmd/c17 -mode build failed to run: " + (o + e)[-1500:])
    rc, bmo, bme = V.sh("%s < %s" % (exe, bimpl), timeout=3000)
    if rc != 0:
        return c.finish(TRUSTED, no_input_break="model driver failed on the transaction-building family: " + bme[-1500:])
    bhist, cur = {}, None
    for l in V.read_lines(bimpl):
        if l.startswith("H "):
            cur = int(l.split()[1])
            bhist[cur] = []
        if cur is not None and l[:2] in ("W ", "X "):
            bhist[cur].append(l)
    bbad, bcalls, bkinds, bres = {}, {}, {}, {}
    nW = nW_nontrivial = n_alone_tx = n_alone_ref = n_keep_like = 0
    kinds_list = ["plain", "spendLS", "spendTop", "away", "chain", "mature", "create", "reorg", "ratchet"]
    for l in bmo.splitlines():
        f = l.split("\t")
        if f[0] == "X":
            harness_err.append(l)
            continue
        h = int(f[1])
        if f[0] == "P":
            if f[4] != f[5] and h not in bbad:
                bbad[h] = ("history:model", "announcement of block %s: implementation %s, model %s" % (f[3], f[4], f[5]), {"scenario": h - 100000})
            continue
        if f[0] == "Q":
            nq += 1
            if f[5] != f[6] and h not in bbad:
                bbad[h] = ("history:model", "quiescent report of wallet %s: implementation [%s] model [%s]" % (f[3], f[5][:300], f[6][:300]), {"scenario": h - 100000})
            continue
        if f[0] != "W":
            continue
        _, _, _, callp, im, model, keepeq, nri, nrm, boundary, alone, sched, lo, hi, others = f
        call, placement = callp.split("@")
        scen_i = h - 100000
        kind = kinds_list[(scen_i // 8) % len(kinds_list)]
        nW += 1
        bcalls[call] = bcalls.get(call, 0) + 1
        bkinds[kind] = bkinds.get(kind, 0) + 1
        rcls = " ".join(im.split()[:2]) if im.startswith("err") else "ok"
        bres[rcls] = bres.get(rcls, 0) + 1
        if lo != hi:
            nW_nontrivial += 1
        man = call == "MAN"
        rp_ = {"scenario": scen_i, "call": call, "pending_blocks": kind, "placement": int(placement), "implementation": im, "model": model,
               "commit_index_per_read_transaction": sched, "first_and_last_commit_index": [int(lo), int(hi)],
               "lines": [x for x in bhist.get(h, []) if x.startswith("X ") or (" %s " % callp) in x][:3],
               "rerun": "VERIF_SEED=%d %s -worker -mode build -first %d -n 1 | grep ' %s '" % (c.seed, outs[0], scen_i, callp)}
        viol = None
        if im.startswith("ok"):
            if boundary == "-1":
                viol = ("build-mixed-boundary", "%s (pending blocks: %s), blocks committed before read transaction(s) as in schedule %s: the transaction that came back [%s] is a correct answer at NO block boundary between the call's start (%s) and its end (%s): "
                        "some input is not an unspent, mature, unreserved coin of the wallet there, or value is not conserved%s" % (
                            call, kind, sched, im[:300], lo, hi, " — this is the behaviour of the model that keeps the picks of earlier rounds (C17_build_single_boundary_refuted)" if keepeq == "1" else ""))
            elif alone == "-1" and not man:
                n_alone_tx += 1
        elif rcls in ("err insufficient", "err overfull"):
            if boundary == "-1":
                viol = ("build-refusal-at-no-boundary", "%s (pending blocks: %s), schedule %s: refused for lack of funds, but at every boundary between %s and %s the funds within the input cap cover outputs + the largest fee target + the dust slack" % (call, kind, sched, lo, hi))
            elif alone == "-1":
                n_alone_ref += 1
                if STRICT_REFUSALS:
                    viol = ("build-refusal-carried-adjustment", "%s (pending blocks: %s), schedule %s: refused, although the call run alone at any boundary between %s and %s builds a transaction: the amount asked carries the dust adjustment / fee target decided on another boundary (C17_build_refusal_carried_refuted)" % (call, kind, sched, lo, hi))
        elif rcls == "err lookup":
            if boundary == "-1":
                viol = ("build-lookup-failure-without-cause", "%s (pending blocks: %s), schedule %s: a previous-transaction look-up failed although every coin eligible at a boundary of the call can be looked up at every later one" % (call, kind, sched))
        else:
            viol = ("build-call-error", "%s (pending blocks: %s), schedule %s: %s" % (call, kind, sched, im[:300]))
        if viol is None:
            same = (im.split()[0:1] == model.split()[0:1] and (im.startswith("ok") or im == model)) if man else (im == model)
            if not same or (nri != nrm and not (man and not im.startswith("ok"))) or (others != "0" and not man):
                viol = ("build-model-mismatch", "%s (pending blocks: %s), schedule %s: implementation [%s] (%s read transactions, %s unmodelled), model Sched/Build.v [%s] (%s read transactions)" % (
                    call, kind, sched, im[:300], nri, others, model[:300], nrm))
        if keepeq == "1" and im != model:
            n_keep_like += 1
        # one report per scenario: a failing input of the property itself before a model difference
        if viol and (h not in bbad or (bbad[h][0] == "build-model-mismatch" and viol[0] != "build-model-mismatch")):
            bbad[h] = (viol[0], viol[1], rp_)
    for h, (key, what, rp_) in sorted(bbad.items(), key=lambda kv: (kv[1][0] == "build-model-mismatch", kv[0])):
        c.violation(key, what, rp_)
    m = dict(re.findall(r"(\w+)=(\d+)", bstats))
    c.coverage["transaction_building_calls"] = {
        "rule": "one evaluation = one transaction-building call of the real WalletManager during which the real handler committed the pending blocks of its scenario right before a chosen read transaction "
                "(or before a chosen read inside a selection round); scenario = call shape x kind of pending blocks, placements = every read transaction of the call as traced without commits. "
                "Each result is compared with the extracted model build_sched (inputs in order, outputs total, fee, number of read transactions) and judged by the extracted predicate: "
                "tx_boundary (one boundary in [start, end] at which no input is listed twice, every input is an unspent mature standard unreserved coin, inputs - outputs = fee), "
                "refusal_boundary, lookup_can_fail, manual_boundary. " + bstats,
        "scenarios": int(m.get("build_scenarios", 0)), "calls": nW, "calls_overlapped_by_a_commit": nW_nontrivial,
        "by_call": bcalls, "by_pending_blocks": bkinds, "by_result": bres,
        "max_read_transactions_of_one_call": int(m.get("maxrts", 0)), "read_transactions": int(m.get("read_transactions", 0)),
        "commits_injected": int(m.get("commits_injected", 0)), "placements_inside_a_selection_round": int(m.get("intra_placements", 0)),
        "plans_spreading_the_blocks_over_several_placements": int(m.get("split_plans", 0)),
        "transactions_correct_at_a_boundary_but_with_a_fee_target_carried_over_from_another": n_alone_tx,
        "refusals_right_only_for_an_amount_carried_over_from_another_boundary (C17_build_refusal_carried_refuted)": n_alone_ref,
        "results_equal_to_the_keep_picks_model_and_not_to_the_model_of_the_code": n_keep_like,
        "mismatching_scenarios": len(bbad),
        "samples": [l for l in bmo.splitlines() if l.startswith("W\t")][:4],
    }

    # 3. race detector exploration (supporting evidence only)
    race_info = {"status": "not run"}
    routs, rerr = V.go_build(["c17"], race=True)
    if routs is None:
        race_info = {"status": "the -race build failed: " + rerr[-500:]}
    else:
        runs = 3 if tier == "quick" else 40
        pairs, deps, ops = {}, {}, 0
        for i in range(runs):
            rc, o, e = V.sh([routs[0], "-mode", "race", "-ms", "1500" if tier == "quick" else "4000"], timeout=300,
                            env_extra={"GORACE": "halt_on_error=0", "VERIF_SEED": str(c.seed * 100 + i)})
            m = re.search(r"RACE-RUN ops=(\d+)", o)
            ops += int(m.group(1)) if m else 0
            wp, dp = race_pairs(e)
            for k, blk in wp.items():
                pairs.setdefault(k, blk)
            for k, blk in dp.items():
                deps.setdefault(k, blk)
        race_info = {"status": "EXPLORATION (race detector, supporting evidence only)", "runs": runs, "api_operations": ops,
                     "distinct_race_pairs_in_wallet_code": sorted(pairs.keys()),
                     "races_inside_dependencies_not_counted": sorted(deps.keys())}
        for k, blk in sorted(pairs.items()):
            fns = [short_fn(x.split(":", 1)[1]) for x in k.split("|")]
            key = next(("race:" + f for f in fns if f in culp), "race:" + k)
            c.violation(key, "the race detector reports unsynchronised accesses: " + k, {"report": blk, "rerun": "GORACE=halt_on_error=0 /verif/build/bin/c17-race -mode race -ms 4000"})

    c.coverage.update({
        "evaluations": nv + nW,
        "distinct_nontrivial": len(distinct) + nW_nontrivial,
        "rule": "one evaluation = one query (WalletBalance / AddressBalance / GetUtxo / transaction-building coin selection) of the real WalletManager whose View met 1-3 block commits (plain connects, or a reorg of depth 1-2) "
                "made by the real handler goroutine before chosen reads (the wrapper numbers the reads; positions drawn uniformly over the reads, every 4th history forces two connects between the height read and the iterator = the confs-wrap shape). "
                "distinct_nontrivial = distinct (history, query, schedule) with at least one commit strictly between two reads. Each answer and read count is compared with the extracted model: snapshot semantics must hold "
                "(answer = answer at the boundary where the View began). " + stats,
        "by_query": kinds,
        "queries_where_the_no_snapshot_model_would_answer_differently": nmixed_possible,
        "quiescent_reports_checked": nq,
        "lock_discipline": {"sites_lacking_their_struct_mutex (C17_lock_discipline_refuted)": {k: sorted(v["variables"]) for k, v in sorted(culp.items())}},
        "race_detector": race_info,
        "samples": [l for l in mo.splitlines() if l.startswith("V\t")][:6],
        "disagreements_checked": nv + nq + nW,
        "mismatching_histories": len(bad) + len(bbad),
    })
    c.assumptions = ["transaction-building calls: one call at a time (the reservation cache does not change while it runs); the node's chain moves before the wallet is told (look-ups fetch previous transactions from the node)",
                     "node mempool empty; the coin-selection query is exercised only where no coin of the wallet is spent by a pending transaction (the Reads model has no pending set)",
                     "CoinbaseMaturity lowered to 4 and scrypt N to 16 by the harness (package variables)",
                     "commits are injected between reads, not inside goleveldb (a commit is atomic for readers: trusted)"]
    brk = None
    if harness_err and not c.violations:
        brk = "the harness could not run %d histories: %s" % (len(harness_err), harness_err[0][:500])
    if lock_break and not c.violations and not brk:
        brk = lock_break
    if not proofs_ok and not c.violations and not brk:
        brk = "proof obligations of Properties/C17.v no longer check: " + str(c.proof_break)
    return c.finish(TRUSTED, no_input_break=brk)
