"""C06 — a crash at any instant loses nothing and applies nothing twice.
proof (coq/Properties/C06.v over coq/Ledger/Crash.v) + crash-point enumeration on the real wallet:
harness/cmd/c06 replays generated histories (blocks, reorgs, new wallets/addresses, a wallet
restored from its mnemonic, a wallet removal) once undisturbed and then with the wallet database
abandoned right after commit k (harness/internal/dbwrap), reopened on the same directory while the
node has moved on; final reports are compared with the undisturbed twin, and every run (twin and
crashed) is replayed on the extracted Ledger model (ocaml/C01 driver) and checked against the
chain specification.
Import-only family (harness/internal/cfsim/importonly.go): no READY wallet in the database at the crash —
the only wallet is being restored (crash right after ImportWallet / between two rescan batches of 1000
heights), the node abandons blocks below or above the rescan cursor and grows (by a few blocks, or by more
than the 2000-block margin of Start's fast-forward) while the wallet is down; restart, the rescan resumes
and finishes; compared with the twin that never stopped, the model and the chain specification."""
import json
import os
import re
import vcheck as V

PID = "C06"
TRUSTED = [
    "Coq 8.16.1 kernel (coqc), full .vo build; no native_compute",
    "axioms: none expected (see print_assumptions in this file)",
    "extraction: ExtrOcamlBasic only; ocaml/common/conv.ml + ocaml/C01/driver.ml (the C01 driver replays the histories this check emits)",
    "Go harness: harness/internal/dbwrap (database wrapper: commit counting, crash point = LevelDB handle closed right after commit k and every wallet goroutine frozen), harness/internal/cfsim (script recorder/replayer, crash procedure, snapshots), harness/internal/sim + harness/internal/hist (node simulator, generator), harness/cmd/c06",
    "deterministic entropy: crypto/rand.Reader is replaced during CreateWallet so that every replay creates the same wallet",
    "hooks (build tag verif): masswallet/hooks_verif.go accessors",
    "environment, not verified: mass-core (chain DB, script templates), goleveldb; a crash INSIDE leveldb.Write relies on LevelDB's journal (batch atomicity) and is not enumerated",
    "modelled rather than verified: NtfnsHandler.Start (catch-up, fast-forward, the two repairs), processConnectedBlock, worker task resumption at record level (coq/Ledger/Crash.v, Crash3.v; with a restore in progress: coq/Ledger/ResumeFF.v)",
]


def replay_model(exe, model_in, workdir, jobs):
    """Runs the extracted model on the recorded runs, split over `jobs` driver processes."""
    import subprocess
    sections, cur = [], []
    with open(model_in) as f:
        for l in f:
            if l.startswith("H ") and cur:
                sections.append(cur)
                cur = []
            cur.append(l)
    if cur:
        sections.append(cur)
    jobs = max(1, min(jobs, len(sections)))
    buckets = [[0, []] for _ in range(jobs)]
    for sec in sorted(sections, key=len, reverse=True):
        b = min(buckets, key=lambda x: x[0])
        b[0] += len(sec) * len(sec)      # the cost of a run grows faster than its length
        b[1].append(sec)
    procs = []
    for i, (_, secs) in enumerate(buckets):
        path = os.path.join(workdir, "model-%d.txt" % i)
        with open(path, "w") as f:
            for sec in secs:
                f.writelines(sec)
        # (outputs go to files: a full pipe would park a driver until its turn to be read)
        procs.append((subprocess.Popen([exe], stdin=open(path), stdout=open(path + ".out", "w"), stderr=open(path + ".err", "w")), path))
    rc, outs, errs = 0, [], []
    for pr, path in procs:
        try:
            pr.wait(timeout=3000)
        except subprocess.TimeoutExpired:
            pr.kill()
            rc = 124
        outs.append(open(path + ".out", errors="replace").read())
        errs.append(open(path + ".err", errors="replace").read())
        if pr.returncode not in (0, None) and rc == 0:
            rc = pr.returncode
    return rc, "".join(outs), "".join(errs)


def main(tier, replay=None):
    c = V.Check(PID, tier)
    proofs_ok = c.proofs(gen_only=["Consts.v"])
    c.log("proofs:", "ok" if proofs_ok else c.proof_break)
    outs, err = V.go_build(["c06"])
    if outs is None:
        return c.finish(TRUSTED, no_input_break="crash harness cmd/c06 no longer builds against the repository: " + err[-1500:])
    exe, err = V.ocaml_build("C01")
    if exe is None:
        return c.finish(TRUSTED, no_input_break="extraction/OCaml build of the Ledger model failed: " + err[-1500:])

    # every sixth history (index % 6 == 4) belongs to the import-only family of cmd/c06 (the only wallet
    # of the database is being restored when the process stops; the node is reorganised below / above the
    # rescan cursor and grows while the wallet is down); with 48 histories the quick tier has 40 ordinary
    # ones as before, 7 import-only ones of ~1100 blocks and one of ~3100 blocks (fast-forward of Start)
    n = 48 if tier == "quick" else 120     # thorough: 112 ordinary + 8 import-only (every commit a crash point; histories with more than 120 commits: 48 sampled crash points)

    if c.escalated:   # a modelled Go function changed since the pin (c.drift): look harder, no verdict from drift alone

        n *= 3
    out = os.path.join(c.workdir, "impl.txt")
    args = [outs[0], "-n", str(n), "-out", out, "-j", str(V.NCPU)]
    if tier == "quick":
        args += ["-quota", "6"]
    else:
        args += ["-all"]
    if replay:
        rp = json.load(open(replay))
        os.environ["VERIF_SEED"] = str(rp.get("seed", c.seed))
        chunks = []
        for v in rp.get("violations", [])[:20]:
            r = v.get("replay", {})
            if "history" not in r:
                continue
            cmd = [outs[0], "-worker", "-first", str(r["history"]), "-n", "1"]
            if r.get("only"):
                cmd += ["-only", r["only"]]
            rc, o, e = V.sh(cmd, timeout=600)
            chunks.append(o)
        open(out, "w").write("".join(chunks))
        stats = "replay"
    else:
        rc, o, e = V.sh(args, timeout=3300)
        stats = e.strip().splitlines()[-1] if e.strip() else ""
        if rc != 0:
            return c.finish(TRUSTED, no_input_break="harness cmd/c06 failed to run: " + (o + e)[-1500:])

    model_in = os.path.join(c.workdir, "model.txt")
    runs = []          # (hist, id, text)
    traces = []
    foreign = {}
    scripts = {}
    io_shapes = {}     # import-only family: shape -> histories
    harness_err = []
    with open(model_in, "w") as mf:
        for l in V.read_lines(out):
            if l.startswith("M "):
                mf.write(l[2:] + "\n")
            elif l.startswith("R "):
                runs.append(l)
            elif l.startswith("V "):
                traces.append(l)
            elif l.startswith("S ") and " family=import-only " in l:
                m = re.search(r"shape=(\S+) ff=(\S+) quiet-branch=(\S+)", l)
                if m:
                    k = m.group(1) + ("+grown-past-fast-forward-margin" if m.group(2) == "true" else "") + ("+quiet-branch" if m.group(3) == "true" else "")
                    io_shapes[k] = io_shapes.get(k, 0) + 1
            elif l.startswith("S "):
                f = l.split()
                scripts[int(f[1])] = l
                m = re.search(r"foreign=(\d+)", l)
                foreign[f[1]] = m.group(1) if m else "0"
            elif l.startswith("X "):
                harness_err.append(l)
    # the model replays every run (twin and crashed) block by block; the long histories (1000-3300 blocks,
    # several runs each) dominate, so the runs are dealt out to parallel driver processes (a run = the lines
    # from its "H <id>" line on; the driver starts afresh at every H line), longest first
    rc, mo, me = replay_model(exe, model_in, c.workdir, min(V.NCPU, int(os.environ.get("VERIF_JOBS", "8"))))
    if rc != 0:
        return c.finish(TRUSTED, no_input_break="model driver failed: " + me[-1500:])

    def rerun(h, rid):
        only = rid.split(":k", 1)[1] if ":k" in rid else ""
        return {"history": int(h), "only": only,
                "rerun": "VERIF_SEED=%d /verif/build/bin/c06 -worker -first %s -n 1%s" % (c.seed, h, (" -only " + only) if only else "")}

    ncrash = ndiv = 0
    contexts = {}
    distinct = set()
    for l in runs:
        f = l.split(" ", 7)
        h, rid = f[1], f[2]
        m = re.search(r"crashes=(\S*)", l)
        ctx = m.group(1) if m else ""
        if ctx:
            ncrash += 1
            distinct.add(ctx + "|" + h)
        for x in ctx.split(","):
            if x:
                contexts[x] = contexts.get(x, 0) + 1
        if " VIOL " in l:
            ndiv += 1
            key, what = l.split(" VIOL ", 1)[1].split(" ", 1)
            # shape key: the contexts of the crashes and the first differing field
            c.violation(key, "history %s run %s: %s" % (h, rid, what[:1500]), rerun(h, rid))

    for l in traces:
        _, h, rid, key, what = l.split(" ", 4)
        ndiv += 1
        c.violation(key, "history %s run %s: %s" % (h, rid, what[:1500]), rerun(h, rid))

    # model / specification check of every run
    nq = nquiet = nproc = 0
    bad = {}
    for l in mo.splitlines():
        f = l.split("\t")
        if f[0] == "X":
            continue
        rid = f[1]
        h = rid.split(":")[0]
        twin = rid.endswith(":twin")
        if f[0] == "P":
            nproc += 1
            if f[4] != f[5] and rid not in bad:
                bad[rid] = ("announcement", "block %s: implementation %s, model %s" % (f[3], f[4], f[5]))
        elif f[0] == "Q":
            nq += 1
            _, _, k, w, quiet, im, mod, spec = f
            if quiet == "1":
                nquiet += 1
                if im != spec and rid not in bad:
                    bad[rid] = ("spec", "wallet %s query %s: reported [%s] but the best chain pays [%s]" % (w, k, im[:400], spec[:400]))
            # (a restored wallet is owned from the start in the model; before it has caught up with
            #  a stale tip its report is compared with the specification only)
            if im != mod and (quiet == "1" or w != foreign.get(h, "0")) and rid not in bad:
                bad[rid] = ("model", "wallet %s query %s: implementation [%s] model [%s]" % (w, k, im[:400], mod[:400]))
    for rid, (kind, what) in sorted(bad.items()):
        h = rid.split(":")[0]
        if rid.endswith(":twin"):
            c.violation("uncrashed-run-vs-model:%s" % kind, "history %s, the run that never stopped: %s" % (h, what), rerun(h, rid))
        else:
            c.violation("crashed-run-vs-model:%s" % kind, "history %s run %s (agrees with its twin at the end): %s" % (h, rid, what), rerun(h, rid))

    brk = None
    if harness_err and not c.violations:
        brk = "the harness could not run %d histories/runs: %s" % (len(harness_err), harness_err[0][:600])
    c.coverage.update({
        "evaluations": len(runs),
        "distinct_nontrivial": len(distinct),
        "rule": "one evaluation = one crashed replay of a generated history (script of 25-70 operations: 1-4 wallets created, addresses, blocks with random "
                "transactions, reorgs of depth 1-3, lagging announcements, one wallet restored from its mnemonic, one wallet removed; plus long histories "
                "reaching the 1000-height import batch and the 2000-block fast-forward of Start; plus the import-only family: the only wallet of the database is "
                "being restored, every commit of the restore and of its rescan batches is a crash point, the node is reorganised below/above the rescan cursor and "
                "grows by a few or by more than 2000 blocks while the wallet is down): crash right after commit k (sampled in the quick tier, every "
                "k in the thorough tier; 25% of the runs crash again after 1-6 further commits, some a third time), the node performs 0-3 further chain "
                "operations while the wallet is down, reopen on the same directory, remaining operations, final snapshot compared with the undisturbed twin. "
                "distinct_nontrivial = distinct (history, crash contexts) pairs among runs in which a crash happened. " + stats,
        "histories": len(scripts),
        "crashed_runs": ncrash,
        "crash_contexts": contexts,
        "import_only_histories_by_shape": io_shapes,
        "divergences": ndiv,
        "model_queries": nq, "quiescent_queries_checked_against_spec": nquiet, "announcements_checked": nproc,
        "samples": [runs[:6]],
        "disagreements_checked": len(runs) + nq + nproc,
    })
    c.assumptions = ["node mempool empty, no unconfirmed transactions in these histories", "consensus-valid chains only",
                     "CoinbaseMaturity lowered to 4 and scrypt N to 16 by the harness (package variables)",
                     "crash = process stop between two LevelDB batch writes (a torn batch is LevelDB's journal's business)",
                     "address-book rows (GetAddresses) are compared separately from ledger/keystore state (see KNOWN_FINDINGS / report)"]
    if not proofs_ok and not c.violations and not brk:
        brk = "proof obligations of Properties/C06.v no longer check: " + str(c.proof_break)
    return c.finish(TRUSTED, no_input_break=brk)
