"""C01 — wallet ledger equals what the best chain pays to its addresses.
proof (coq/Properties/C01.v) + correspondence: histories run on the real WalletManager
(harness/cmd/c01 over internal/sim + internal/hist) and replayed on the extracted Ledger model;
the specification (utxo_of_chain ...) is evaluated on the implementation's own reports."""
import json
import os
import vcheck as V

PID = "C01"
TRUSTED = [
    "Coq 8.16.1 kernel (coqc), full .vo build; no native_compute",
    "axioms: none expected (see print_assumptions in this file)",
    "extraction: ExtrOcamlBasic only; N/Z/positive stay inductive; ocaml/common/conv.ml + ocaml/C01/driver.ml (line parser, report printer, uint32 truncation of maturity/confirmations)",
    "Go harness: harness/internal/sim (mass-core chain DB on in-memory storage, hand-built blocks on the real genesis, real blockchain.Blockchain + real WalletManager on LevelDB in /dev/shm), harness/internal/hist (generator, projections), harness/cmd/c01",
    "hooks (build tag verif): masswallet/hooks_verif.go accessors (handler, idle barrier, volatile tip)",
    "environment, not verified: mass-core (chain DB answers, script templates, address codecs), goleveldb, LevelDB batch atomicity",
    "modelled rather than verified: ntfnshandler.go (filterTx/filterBlock/reorg/processConnectedBlock), txstore.go (insertMinedTx/updateMinedBalance/Rollback), utxostore.go (AddCredits, ScriptAddressBalance/Unspents) at record level: credits with spent marks; unspent set and balances are derived in the model and compared with the stored ones through the API",
]


def classify(hist_lines):
    """shape keys for known-finding matching (none listed at present)."""
    return "history"


def main(tier, replay=None):
    c = V.Check(PID, tier)
    proofs_ok = c.proofs(gen_only=["Consts.v"])
    c.log("proofs:", "ok" if proofs_ok else c.proof_break)
    outs, err = V.go_build(["c01"])
    if outs is None:
        return c.finish(TRUSTED, no_input_break="correspondence harness cmd/c01 no longer builds against /repo: " + err[-1500:])
    exe, err = V.ocaml_build(PID)
    if exe is None:
        return c.finish(TRUSTED, no_input_break="extraction/OCaml build of the Ledger model failed: " + err[-1500:])

    n = 400 if tier == "quick" else 4000

    if c.escalated:   # a modelled Go function changed since the pin (c.drift): look harder, no verdict from drift alone

        n *= 3
    impl = os.path.join(c.workdir, "impl.txt")
    args = [outs[0], "-n", str(n), "-out", impl, "-j", str(V.NCPU)]
    if replay:
        rp = json.load(open(replay))
        firsts = sorted({v["replay"]["history"] for v in rp.get("violations", []) if "history" in v.get("replay", {})})
        os.environ["VERIF_SEED"] = str(rp.get("seed", c.seed))
        lines = []
        for f in firsts[:20]:
            rc, o, e = V.sh([outs[0], "-worker", "-first", str(f), "-n", "1"], timeout=300)
            lines.append(o)
        open(impl, "w").write("".join(lines))
        stats = "replay"
    else:
        rc, o, e = V.sh(args, timeout=3000)
        stats = e.strip().splitlines()[-1] if e.strip() else ""
        if rc != 0:
            return c.finish(TRUSTED, no_input_break="harness cmd/c01 failed to run: " + (o + e)[-1500:])
    rc, mo, me = V.sh("%s < %s" % (exe, impl), timeout=3000)
    if rc != 0:
        return c.finish(TRUSTED, no_input_break="model driver failed: " + me[-1500:])

    # histories, for replay files
    hist = {}
    cur = None
    for l in V.read_lines(impl):
        if l.startswith("H "):
            cur = int(l.split()[1])
            hist[cur] = []
        if cur is not None:
            hist[cur].append(l)
    nq = nquiet = nproc = 0
    distinct = set()
    bad = {}      # history -> first failing line description
    harness_err = []
    for l in mo.splitlines():
        f = l.split("\t")
        if f[0] == "X":
            harness_err.append(l)
            continue
        h = int(f[1])
        if f[0] == "P":
            nproc += 1
            if f[4] != f[5] and h not in bad:
                bad[h] = ("process", "announcement of block %s: implementation %s, model %s" % (f[3], f[4], f[5]))
        elif f[0] == "Q":
            nq += 1
            _, _, k, w, quiet, im, mod, spec = f
            if len(im.split()) > 6:
                distinct.add(im)
            if quiet == "1":
                nquiet += 1
                if im != spec and h not in bad:
                    bad[h] = ("spec", "wallet %s query %s: reported [%s] but the best chain pays [%s]" % (w, k, im[:400], spec[:400]))
            if im != mod and h not in bad:
                bad[h] = ("model", "wallet %s query %s: implementation [%s] model [%s]" % (w, k, im[:400], mod[:400]))
    for h, (kind, what) in sorted(bad.items()):
        c.violation("history:%s" % kind, what, {"history": h, "kind": kind, "lines": hist.get(h, [])[:400],
                                                "rerun": "VERIF_SEED=%d /verif/build/bin/c01 -worker -first %d -n 1" % (c.seed, h)})
    brk = None
    if harness_err and not c.violations:
        brk = "the harness could not run %d histories: %s" % (len(harness_err), harness_err[0][:500])
    sample = hist.get(min(hist), [])[:60] if hist else []
    c.coverage.update({
        "evaluations": len(hist),
        "distinct_nontrivial": len(distinct),
        "rule": "one evaluation = one generated history (1-3 wallets, 8-36 steps: blocks with 0-3 random transactions incl. in-block spend chains, "
                "coinbase/standard/staking/old+new binding outputs, reorgs of depth 1-4 announced per block or only by their tip, lagging and stale announcements, "
                "re-mined transactions, new addresses, queries). distinct_nontrivial = distinct reports with at least one listed coin. " + stats,
        "queries": nq, "quiescent_queries_checked_against_spec": nquiet, "announcements": nproc,
        "samples": [sample],
        "disagreements_checked": nq + nproc,
        "mismatching_histories": len(bad),
    })
    c.assumptions = ["node mempool empty", "consensus-valid chains only (generator respects maturity and the binding in/out rule)",
                     "CoinbaseMaturity lowered to 4 and scrypt N to 16 by the harness (package variables)"]
    if not proofs_ok and not c.violations and not brk:
        brk = "proof obligations of Properties/C01.v no longer check: " + str(c.proof_break)
    return c.finish(TRUSTED, no_input_break=brk)
