"""C08 — removing a wallet erases it completely and leaves every other wallet intact.
proof (coq/Properties/C08.v over coq/Ledger/{Import,Remove}.v) + correspondence: multi-wallet
histories with removal (wrong passphrase, interleaved blocks/reorgs between the removal steps,
restarts between steps, re-import) run on the real WalletManager (harness/cmd/c08 over internal/sim,
internal/hist, internal/gate) and replayed on the extracted model; raw LevelDB scan for the removed
wallet's id / addresses / script hashes; survivors compared with the model AND with the chain spec."""
import json
import os
import re
import vcheck as V

PID = "C08"
TRUSTED = [
    "Coq 8.16.1 kernel (coqc), full .vo build; vm_compute in closed witnesses only; no native_compute",
    "axioms: none expected (see print_assumptions in this file)",
    "extraction: coq/Extract/C07.v (shared with C07), ExtrOcamlBasic only; N/Z/positive stay inductive; ocaml/common/conv.ml + ocaml/C07/driver.ml (line parser, printers)",
    "translator (in this check): import batch size and removal cap per round are read from /repo's source text by anchored regular expressions (ntfnshandler.go 'stop = ws.SyncedHeight + N', utxostore.go 'count >= N ||') and passed to the model driver; a missing anchor fails the check",
    "Go harness: harness/internal/sim (mass-core chain DB on in-memory storage, real blockchain.Blockchain + real WalletManager on LevelDB in /dev/shm), harness/internal/hist (generator, projections, importremove.go, irdrive.go), harness/internal/gate (DB wrapper that parks the background worker after each of its write transactions), harness/cmd/c08; raw scan opens the closed LevelDB directory with goleveldb read-only",
    "hooks (build tag verif): masswallet/hooks_verif.go accessors (handler, idle barrier, volatile tip, queue length, VerifReceiveTx)",
    "schedule control: the order 'block processed between two removal steps' cannot be forced without editing ntfnshandler.go; the harness queues the announcement while the worker is parked, releases it and RECORDS the order the handler's select actually took (the model replays the recorded order)",
    "environment, not verified: mass-core (chain DB answers, script templates, address codecs), goleveldb, LevelDB batch atomicity",
    "modelled rather than verified: OnRemoveWallet/asyncRemove/RemoveRelevantTx/removeRelevantCredit/removableTxForRemoveWallet/checkBlockRecordAfterTxRemoved/DeleteKeystore, Rollback driven by block records, at record level; unspent/address/mined game rows are views of the credits in the model (their prefix deletes are covered by the raw scan on the implementation); the pending set is not modelled; a capped round takes credits in list order in the model and in key order in the code (states between rounds are compared only through the wallet status)",
]


def consts():
    a = open(os.path.join(V.REPO, "masswallet/ntfnshandler.go")).read()
    b = open(os.path.join(V.REPO, "masswallet/txmgr/utxostore.go")).read()
    m1 = re.search(r"stop\s*=\s*ws\.SyncedHeight\s*\+\s*(\d+)", a)
    m2 = re.search(r"count\s*>=\s*(\d+)\s*\|\|", b)
    if not m1 or not m2:
        return None
    return int(m1.group(1)), int(m2.group(1))


def split_histories(path):
    hist, cur = {}, None
    for l in V.read_lines(path):
        if l.startswith("H "):
            cur = int(l.split()[1])
            hist[cur] = []
        if cur is not None:
            hist[cur].append(l)
    return hist


def p_lines(mo):
    return {(f[1], f[2]): f[5] for f in (l.split("\t") for l in mo.splitlines()) if f[0] == "P" and len(f) > 5}


def q_lines(mo):
    return {(f[1], f[2]): f[6] for f in (l.split("\t") for l in mo.splitlines()) if f[0] == "Q" and len(f) > 7}


def evaluate(c, mo, hist, exe_name, alt_order=None, alt_chain=None):
    """shared by C07 and C08: compares implementation / model / spec per line. Returns stats dict.
    alt_order: P results of the model variant in which Rollback is sensitive to the order of a block
    record (the code before that repair); used only to NAME a mismatch of that shape.
    alt_chain: (P results, Q results) of the model variant in which removableTxForRemoveWallet finds the
    owner of a spent output on the node's current chain (the code before that repair); used only to NAME."""
    st = dict(nq=0, nquiet=0, nproc=0, nsteps=0, nz=0, died=0, distinct=set())
    bad = {}

    def flag(h, key, what):
        if h not in bad:
            bad[h] = (key, what)

    last_restart_panic = set()
    for l in mo.splitlines():
        f = l.split("\t")
        t = f[0]
        if t == "X":
            flag(-1, "harness-error", l[:400])
            continue
        if t in ("S", "C"):
            continue
        h = int(f[1])
        if t == "P":
            st["nproc"] += 1
            impl, mod = f[4], f[5]
            if impl.startswith("died") or impl == "hang":
                st["died"] += 1
                flag(h, "handler-died:model-%s" % mod, "the process died (%s) while the handler processed the announcement of block %s queued between two worker steps; model says %s" % (impl, f[3], mod))
            elif impl != mod:
                if alt_chain and alt_chain[0].get((f[1], f[2])) == impl:
                    flag(h, "removal:spender-dropped-while-node-away", "announcement of block %s: implementation %s, model %s — what the model of the code BEFORE the repair of removableTxForRemoveWallet predicts: "
                         "a removal round that ran while the node had reorganised away from the block of a survivor's coin dropped the tx record of its spender; the node came back onto that block" % (f[3], impl, mod))
                elif alt_order and alt_order.get((f[1], f[2])) == impl:
                    flag(h, "rollback:block-record-order", "announcement of block %s refused (model of the repaired code accepts it): a rescan appended the creator of an in-block coin "
                         "AFTER its spender in the block record; Rollback walks the record backwards and fails with 'unexpected unspend non-existence credit'" % f[3])
                else:
                    flag(h, "model:process", "announcement of block %s: implementation %s, model %s" % (f[3], impl, mod))
        elif t == "Q":
            st["nq"] += 1
            _, _, k, w, quiet, im, mod, spec = f
            if len(im.split()) > 6:
                st["distinct"].add(im)
            if im != mod:
                if alt_chain and alt_chain[1].get((f[1], f[2])) == im:
                    flag(h, "removal:spender-dropped-while-node-away", "wallet %s query %s: implementation [%s] model [%s] best chain [%s] — the implementation reports what the model of the code BEFORE the "
                         "repair of removableTxForRemoveWallet predicts: a removal round that ran while the node had reorganised away from the block of a survivor's coin dropped the tx record of the "
                         "transaction spending it; the node came back onto that block, and the later Rollback of the spender's block did not un-spend the coin" % (w, k, im[:300], mod[:300], spec[:300]))
                else:
                    flag(h, "model:report", "wallet %s query %s: implementation [%s] model [%s]" % (w, k, im[:400], mod[:400]))
            if quiet == "1":
                st["nquiet"] += 1
                if im != spec:
                    flag(h, "spec:report", "wallet %s query %s: reported [%s] but the best chain pays [%s]" % (w, k, im[:400], spec[:400]))
        elif t == "Y":
            if f[4].strip() != f[5].strip():
                flag(h, "model:game-rows", "wallet %s staking/binding rows: implementation [%s] model [%s]" % (f[3], f[4][:300], f[5][:300]))
        elif t == "R":
            st["nsteps"] += 1
            kind, w, impl, mod = f[3], f[4], f[5], f[6]
            if kind == "restart" and impl == "panic":
                last_restart_panic.add(h)
                flag(h, "restart-panic:model-%s" % mod, "starting the wallet again between two removal steps panicked during catch-up; model says %s" % mod)
            elif impl != mod:
                flag(h, "model:remove-%s" % kind, "removal %s of wallet %s: implementation %s, model %s" % (kind, w, impl, mod))
        elif t == "M":
            st["nsteps"] += 1
            w, impl, ist, mod, mst = f[3], f[4], f[5], f[6], f[7]
            if (impl == "ok") != (mod == "ok") or ist != mst:
                flag(h, "model:import-batch", "import step of wallet %s: implementation %s/%s, model %s/%s" % (w, impl, ist, mod, mst))
        elif t == "W":
            if f[4] != f[5]:
                flag(h, "model:wallet-%s" % f[4], "creating/importing wallet %s: implementation %s, model %s" % (f[3], f[4], f[5]))
        elif t == "L":
            if f[3] != f[4]:
                flag(h, "model:listing", "Wallets(): implementation [%s] model [%s]" % (f[3], f[4]))
        elif t == "U":
            if f[4] != f[5]:
                flag(h, "model:use", "UseWallet(%s): implementation %s, model %s" % (f[3], f[4], f[5]))
        elif t == "Z":
            st["nz"] += 1
            hits, ment = f[4].strip(), f[5]
            if hits:
                flag(h, "residue:" + ",".join(sorted(set(x.split(":", 1)[1] for x in hits.split()))),
                     "after the removal of wallet %s completed the database still holds records keyed by it: %s (model predicts residue: %s)" % (f[3], hits, ment))
            elif ment != "0":
                flag(h, "model:residue", "model predicts residue for wallet %s, raw scan found none" % f[3])
        elif t == "V":
            key = l.split("\t", 2)[2].split()[1]
            flag(h, key, l.split("\t", 2)[2][:500])
        elif t == "F":
            if h not in last_restart_panic:
                st["died"] += 1
                flag(h, "process-died", "the harness process died: " + l[:300])
    return st, bad


def main(tier, replay=None):
    c = V.Check(PID, tier)
    proofs_ok = c.proofs(gen_only=["Consts.v"])
    c.log("proofs:", "ok" if proofs_ok else c.proof_break)
    k = consts()
    if k is None:
        return c.finish(TRUSTED, no_input_break="translator: cannot find the import batch size / removal cap literals in /repo (ntfnshandler.go asyncImport, utxostore.go removeRelevantCredit)")
    batch, cap = k
    outs, err = V.go_build(["c08"])
    if outs is None:
        return c.finish(TRUSTED, no_input_break="correspondence harness cmd/c08 no longer builds against /repo: " + err[-1500:])
    exe, err = V.ocaml_build("C07")
    if exe is None:
        return c.finish(TRUSTED, no_input_break="extraction/OCaml build of the Import/Remove model failed: " + err[-1500:])

    n = 120 if tier == "quick" else 1200

    if c.escalated:   # a modelled Go function changed since the pin (c.drift): look harder, no verdict from drift alone

        n *= 3
    impl = os.path.join(c.workdir, "impl.txt")
    stats = ""
    if replay:
        rp = json.load(open(replay))
        os.environ["VERIF_SEED"] = str(rp.get("seed", c.seed))
        lines = []
        for v in rp.get("violations", [])[:20]:
            r = v.get("replay", {})
            if "scenario" in r:
                rc, o, e = V.sh(["timeout", "200", outs[0], "-scenario", str(r["scenario"])], timeout=300)
            elif "history" in r:
                rc, o, e = V.sh(["timeout", "200", outs[0], "-worker", "-first", str(r["history"]), "-n", "1", "-tier", tier], timeout=300)
            else:
                continue
            lines.append(o if o.endswith("\n") or not o else o + "\n")
            if rc != 0:
                lines.append("F died replay\nE\n")
        open(impl, "w").write("".join(lines))
    else:
        d1 = os.path.join(c.workdir, "directed.txt")
        rc, o, e = V.sh([outs[0], "-directed", "-tier", tier, "-out", d1, "-j", str(V.NCPU)], timeout=1500)
        if rc != 0:
            return c.finish(TRUSTED, no_input_break="harness cmd/c08 -directed failed to run: " + (o + e)[-1500:])
        d2 = os.path.join(c.workdir, "random.txt")
        rc, o, e = V.sh([outs[0], "-n", str(n), "-tier", tier, "-out", d2, "-j", str(V.NCPU)], timeout=3000)
        stats = e.strip().splitlines()[-1] if e.strip() else ""
        if rc != 0:
            return c.finish(TRUSTED, no_input_break="harness cmd/c08 failed to run: " + (o + e)[-1500:])
        open(impl, "w").write(open(d1).read() + open(d2).read())
    rc, mo, me = V.sh("%s %d %d < %s" % (exe, batch, cap, impl), timeout=3000)
    if rc != 0:
        return c.finish(TRUSTED, no_input_break="model driver failed: " + me[-1500:])
    hist = split_histories(impl)
    rc_ord, mord, me = V.sh("%s %d %d order < %s" % (exe, batch, cap, impl), timeout=3000)
    rc_chn, mchn, me = V.sh("%s %d %d chainlookup < %s" % (exe, batch, cap, impl), timeout=3000)
    st, bad = evaluate(c, mo, hist, exe, p_lines(mord) if rc_ord == 0 else None,
                       (p_lines(mchn), q_lines(mchn)) if rc_chn == 0 else None)

    # the witnesses of the _refuted theorems, replayed on the model of the code AS FOUND: the directed
    # scenarios must show the three defects there (spec mismatch / panic / residue)
    rc, mu, me = V.sh("%s %d %d unfixed < %s" % (exe, batch, cap, impl), timeout=3000)
    found = set()
    if rc == 0:
        for l in mu.splitlines():
            f = l.split("\t")
            if f[0] == "Q" and int(f[1]) >= 900000 and f[4] == "1" and f[6] != f[7]:
                found.add("frame")
            if f[0] in ("P", "R") and int(f[1]) >= 900000 and f[-1] == "panic":
                found.add("panic")
            if f[0] == "Z" and int(f[1]) >= 900000 and f[5] == "1":
                found.add("residue")

    if rc_ord == 0:
        for l in mord.splitlines():
            f = l.split("\t")
            if f[0] == "P" and int(f[1]) >= 900000 and f[4] == "ok" and f[5] == "err":
                found.add("order")

    # ... and the re-attach family on the model of the code before the repair of removableTxForRemoveWallet:
    # the survivor's report differs from the chain specification at a quiescent point
    if rc_chn == 0:
        for l in mchn.splitlines():
            f = l.split("\t")
            if f[0] == "Q" and int(f[1]) >= 901300 and f[4] == "1" and f[6] != f[7]:
                found.add("reattach")

    for h, (key, what) in sorted(bad.items()):
        rep = {"history": h, "kind": key, "lines": hist.get(h, [])[:600]}
        if h >= 900000:
            rep = {"scenario": (h - 900000) // 100 if h >= 900100 else h - 900000, "kind": key, "lines": hist.get(h, [])[:600]}
            rep["rerun"] = "/verif/build/bin/c08 -scenario %d" % rep["scenario"]
        else:
            rep["rerun"] = "VERIF_SEED=%d /verif/build/bin/c08 -worker -first %d -n 1" % (c.seed, h)
        c.violation(key, what, rep)
    brk = None
    sample = hist.get(min(hist), [])[:80] if hist else []
    c.coverage.update({
        "evaluations": len(hist),
        "distinct_nontrivial": len(st["distinct"]),
        "rule": "one evaluation = one history on the real wallet: 2-3 wallets (standard and staking addresses), 8-23 random steps (blocks with 0-3 random transactions incl. in-block spend chains and "
                "transactions paying/spending several wallets, sweep transactions that spend several outputs of ONE earlier transaction owned by different wallets (random input order) into one output, coinbase/standard/staking/binding outputs, reorgs, pending transactions delivered through the real filterTx and mined later, queries), "
                "a wrong-passphrase request, the removal of a random wallet driven step by step (nothing / a block / a reorg queued between two steps / crash+restart between steps, with or without a reorg while down / "
                "the node leaves 1-3 blocks for an unannounced detour before the request or at one step and is back on some or all of the SAME blocks at the next), "
                "listing, UseWallet, build+sign by the survivors before/after, 3-10 more steps and a 2-5 deep reorg, then either re-import of the removed mnemonic (rescan, queries) or stop + raw LevelDB scan; "
                "plus directed scenarios (the witnesses of the _refuted theorems, refusal while importing, re-import, block-record order after a rescan, shared-spend variants with two and three inputs from one previous transaction in both orders, the re-attach family (16 of 48 variants in the quick tier, all in the thorough tier: the node reorganises away from the block of a survivor's coin before the request or between removal steps, nothing announced, and comes back onto the SAME block afterwards, with the spender's block replaced / connected again and replaced later / its transaction mined again; outputs of one previous transaction owned by the removed wallet, the survivor, a stranger in four arrangements), in the thorough tier 20100 credits = two capped rounds with a restart between them). "
                "distinct_nontrivial = distinct reports with at least one listed coin. " + stats,
        "queries": st["nq"], "quiescent_queries_checked_against_spec": st["nquiet"], "announcements": st["nproc"],
        "worker_steps": st["nsteps"], "raw_scans": st["nz"], "processes_died": st["died"],
        "import_batch_size": batch, "removal_cap": cap,
        "refuted_witnesses_shown_by_model_of_code_as_found": sorted(found),
        "samples": [sample],
        "disagreements_checked": st["nq"] + st["nproc"] + st["nsteps"] + st["nz"],
        "mismatching_histories": len(bad),
    })
    c.assumptions = ["node mempool empty", "consensus-valid chains only", "CoinbaseMaturity lowered to 4 and scrypt N to 16 by the harness (package variables)",
                     "pending set not modelled (its records are covered only by the raw scan)"]
    if not replay and found != {"frame", "panic", "residue", "order", "reattach"} and not c.violations:
        brk = "the model of the code as found no longer shows the recorded defects on the directed scenarios: shown %s" % sorted(found)
    if not proofs_ok and not c.violations and not brk:
        brk = "proof obligations of Properties/C08.v no longer check: " + str(c.proof_break)
    return c.finish(TRUSTED, no_input_break=brk)
