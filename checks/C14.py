"""C14 — hierarchical key derivation is exactly BIP-32.
proof (coq/Properties/C14.v) + correspondence of the extracted model (and of the extracted
BIP-32 specification) with hdkeychain.NewMaster / Child / Neuter / String / NewKeyFromString and
the path helpers of keystore/hd.go, on generated seeds, paths, keys and strings.

Per case the harness prints what the real code returned (impl), what an independent BIP-32
implementation returns (ref), and a table of primitive answers; the OCaml driver prints what the
Coq model of the code (model) and the Coq specification (spec) return on the same case.
  impl != spec            -> the property fails on this input: VIOLATION (known finding only for the
                             exact recorded shape, and only when the faithful model reproduces it)
  impl == spec != model   -> the model no longer describes the code: broken correspondence
  ref  != spec            -> harness reference and Coq specification disagree: broken check"""
import json
import os
import re
import sys
import vcheck as V

PID = "C14"
TRUSTED = [
    "Coq 8.16.1 kernel (coqc); vm_compute in closed witnesses (toy instance) and examples; no native_compute",
    "axioms: none (Print Assumptions: Closed under the global context for every theorem of Properties/C14.v)",
    "premises (Section hypothesis prim_laws, not axioms): HMAC-SHA512 returns 64 bytes; hash160 20, double-SHA256 32 bytes; base58 decode inverts encode; "
    "compressed points are 33 bytes with first byte non-zero, decode(encode P) = P for P not at infinity, a 33-byte string that decodes re-encodes to itself; "
    "(a+b mod n)G = aG + bG; kG for 0<k<n is not infinity and has no zero coordinate; kG and kG+P serialise with X < p. "
    "Consistency of these premises is witnessed by the toy instance (C14_laws_consistent)",
    "primitive oracles at run time: Go crypto/hmac+sha512, btcec v0.20.1 (ScalarBaseMult, Add, ParsePubKey, SerializeCompressed), x/crypto ripemd160, crypto/sha256, "
    "mass-core base58 — their answers are tabulated per case by harness/cmd/c14 and looked up by the driver",
    "constants restated in Codec/Bip32.v (curve order n, field prime p, HardenedKeyStart, seed length bounds, serializedKeyLen, masterKey, HD version bytes, "
    "maxCoinType, MaxAccountNum, branch numbers) are compared with the linked packages on every run (CONST line)",
    "extraction: ExtrOcamlBasic only; Z/positive/nat stay inductive; ocamlfind ocamlopt 4.13.1; ocaml/common/conv.ml + ocaml/C14/driver.ml (hex, table lookup, formatting)",
    "Go harness harness/cmd/c14 (generators, recover() wrapper, independent BIP-32 implementation ref.go, anticipated primitive questions) built from /repo with -tags verif; "
    "add-only accessors /repo/masswallet/keystore/hdkeychain/extendedkey_verif.go and /repo/masswallet/keystore/hd_verif.go",
    "modelled, not verified: Go's copy/append/big.Int.Bytes/SetBytes/binary.BigEndian semantics and config.HDPrivateKeyToPublicKeyID's registry as restated in Codec/Bip32.v; "
    "key OBJECTS (shared byte slices, the memoised pubKey field, Zero wiping in place) are modelled in Codec/Bip32Obj.v (heap of buffers, separation invariant); SetNet(), IsForNet(), Address(), GenerateSeed() are not modelled",
]
KNOWN_KEY = "short-parent-hardened-child"
TRIVIAL_ERR = ("err EInvalidSeedLen", "err EInvalidKeyLen")


def _norm(s):
    """Observables comparable with the specification: no stored form of the key, no error kinds."""
    parts = []
    for x in s.split(";"):
        if x.startswith("ok ") and ":" in x:
            x = re.sub(r"^(ok [0-9a-f]*):[0-9a-f-]*:", r"\1:-:", x)
        elif x.startswith("err"):
            x = "err"
        parts.append(x)
    return ";".join(parts)


def _show(s, n=260):
    return s if len(s) <= n else s[:n] + "...(%d chars)" % len(s)


def main(tier, replay=None):
    c = V.Check(PID, tier)
    proofs_ok = c.proofs(gen_only=[])
    c.log("proofs:", "ok" if proofs_ok else c.proof_break)

    outs, err = V.go_build(["c14"])
    if outs is None:
        return c.finish(TRUSTED, no_input_break="correspondence harness cmd/c14 no longer builds against /repo: " + err[-1500:])
    exe, err = V.ocaml_build(PID)
    if exe is None:
        return c.finish(TRUSTED, no_input_break="extraction/OCaml build of the model failed: " + err[-1500:])

    impl = os.path.join(c.workdir, "impl.txt")
    dist = ""
    if replay:
        rp = json.load(open(replay))
        lines = []
        for v in rp.get("violations", []):
            rc, o, e = V.sh([outs[0], "-replay", v["replay"]["case"]], timeout=120)
            for l in o.splitlines():
                if l.startswith("CONST") and lines:
                    continue
                lines.append(l)
        open(impl, "w").write("\n".join(lines) + "\n")
    else:
        rc, o, e = V.sh([outs[0], "-tier", tier, "-out", impl], timeout=1500)
        dist = e.strip()
        if rc != 0:
            return c.finish(TRUSTED, no_input_break="harness cmd/c14 failed to run: " + (o + e)[-1500:])
    rc, mo, me = V.sh("%s < %s" % (exe, impl), timeout=2400)
    if rc != 0:
        return c.finish(TRUSTED, no_input_break="model driver failed: " + me[-1500:])
    mlines = mo.splitlines()
    n_impl = 0
    breaks = []          # correspondence / infrastructure breaks without a failing input
    seen = set()
    nontrivial = set()
    kinds, tags = {}, {}
    mism_spec = mism_model = 0
    known_shape_cases = 0
    meta_accepted = []
    samples = []
    mi = 0
    with open(impl, errors="replace") as f:
        for il in f:
            il = il.rstrip("\n")
            if not il:
                continue
            if mi >= len(mlines):
                breaks.append("model driver answered %d lines only" % len(mlines))
                break
            ml = mlines[mi]
            mi += 1
            p = il.split("\t")
            q = ml.split("\t")
            if p[0] == "CONST":
                if p[1] != q[1]:
                    breaks.append("constants of the linked packages differ from those restated in Codec/Bip32.v: code %s / model %s" % (p[1], q[1]))
                continue
            n_impl += 1
            kind, inp, got, ref, shape = p[:5]
            if len(q) != 3 or q[0] != kind:
                breaks.append("driver output out of step at case %d" % n_impl)
                break
            model, spec = q[1], q[2]
            key = (kind, inp)
            if key in seen:
                continue
            seen.add(key)
            kinds[kind] = kinds.get(kind, 0) + 1
            if kind == "PARSE":
                t = inp.split(",")[0]
                tags[t] = tags.get(t, 0) + 1
                if t.startswith("meta-") and got.startswith("ok"):
                    meta_accepted.append(t)
            if not all(x in TRIVIAL_ERR or x == "-" for x in got.split(";")):
                nontrivial.add(key)
            if len(samples) < 4 or (n_impl % 997 == 0 and len(samples) < 12):
                samples.append("\t".join(_show(x, 200) for x in (kind, inp, got)))
            case = "%s:%s" % (kind, inp)
            rerun = "/verif/build/bin/c14 -replay '%s'" % case
            bad_spec = _norm(got) != _norm(spec)
            bad_model = got != model
            if "panic" in got:
                c.violation("case:" + case, "%s panicked on %s" % (kind, _show(inp)), {"case": case, "impl": got, "rerun": rerun})
                continue
            if _norm(ref) != _norm(spec):
                breaks.append("independent Go BIP-32 and the Coq specification disagree on %s: ref %s / spec %s" % (_show(case), _show(ref), _show(spec)))
            if kind == "COMMUTE" and int(inp.rsplit(",", 1)[1]) < 2 ** 31:   # the property speaks of non-hardened children
                a, b = got.split(";")
                if a != b:
                    c.violation("case:" + case, "Neuter(Child(k,i)) = %s but Child(Neuter(k),i) = %s" % (_show(a), _show(b)),
                                {"case": case, "impl": got, "rerun": rerun})
                    continue
            if bad_spec:
                mism_spec += 1
                what = "%s(%s): code returns %s, BIP-32 gives %s (model of the code: %s)" % (kind, _show(inp, 200), _show(got), _show(spec), _show(model))
                rp_obj = {"case": case, "impl": got, "model": model, "spec": spec, "ref": ref, "shape": shape, "rerun": rerun}
                if shape == "short-hardened" and not bad_model:
                    known_shape_cases += 1
                    c.violation(KNOWN_KEY, what, rp_obj)
                else:
                    c.violation("case:" + case, what, rp_obj)
            elif bad_model:
                mism_model += 1
                if len(breaks) < 20:
                    breaks.append("model of the code disagrees with the code on %s: code %s / model %s (specification agrees with the code)" % (_show(case), _show(got), _show(model)))

    c.coverage.update({
        "evaluations": n_impl,
        "distinct_nontrivial": len(nontrivial),
        "rule": "distinct (operation, input) cases; non-trivial = the code returned a key/string or an error other than the seed-length / string-length refusals. "
                "Generator (seeded by VERIF_SEED): BIP-32 test vectors 1-4 at every depth; NewMaster on every seed length 0..70 and random legal seeds; random paths to depth 6 "
                "mixing hardened/normal and boundary indexes (0, 2^31-1, 2^31, 2^32-1); single Child steps from private and public parents, depth 253..255, public parents with "
                "hardened index and with non-curve key bytes; parents found by search whose stored private key lacks its leading byte (hardened and normal children, paths "
                "through them), synthetic stored keys of 1..31 bytes; Neuter with known/unknown version bytes; Child/Neuter commutation; String; NewKeyFromString on round trips, "
                "every single-byte corruption (each of the 82 bytes, each base58 character) of %s serialised keys, wrong lengths with a valid checksum, junk, private scalars "
                "0/1/n-1/n/n+1/2^256-1, random and invalid-prefix public keys, X >= p; keystore/hd.go wallet paths incl. range boundaries" % ("3" if tier == "quick" else "many"),
        "by_operation": kinds,
        "parse_case_kinds": tags,
        "generator_distribution": dist,
        "samples": samples,
        "disagreements_checked": len(seen),
        "mismatch_with_specification": mism_spec,
        "of_which_recorded_shape": known_shape_cases,
        "mismatch_with_model_only": mism_model,
        "accepted_but_outside_property_text": sorted(set(meta_accepted)),
    })
    c.assumptions = [
        "error kinds are compared between code and model, only ok/err between code and specification",
        "NewKeyFromString accepting a version/key-type mismatch, unknown version bytes or a depth-0 key with non-zero fingerprint (BIP-32 test vector 5 kinds) "
        "is counted (accepted_but_outside_property_text), not flagged: the property text lists checksum, length and key material only",
        "the events IL = 0, child scalar 0, child point at infinity (probability about 2^-256) are excluded by the guard of C14_child_is_spec and cannot be generated",
    ]
    brk = None
    if not c.violations:
        if not proofs_ok:
            brk = "proof obligations of Properties/C14.v no longer check: " + str(c.proof_break)
        elif breaks:
            brk = "; ".join(breaks[:5])
    return c.finish(TRUSTED, no_input_break=brk)
