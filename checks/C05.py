"""C05 — secrets are never stored or returned in clear; only the right passphrase unlocks.
proof (coq/Properties/C05.v: symbolic secrecy over all histories + the gate / frame theorems of the
unlock machine) + correspondence / taint exploration on the real wallet (harness/cmd/c05): histories
of create / new address / sign / export / reveal / removal gate / import into a fresh instance /
public-passphrase change / restart with right passphrases and every mutation class of wrong ones;
after every step the RAW LevelDB content (every key, every value, and the raw bytes of every file of
the directory), every exported keystore and every error string are searched for every secret in every
encoding; the rows under the wallet's bucket are compared (key set and value lengths = plaintext
length + 24 + 16 where the model's term is an encryption) with the term table of Keys/Store.v run
through the extracted model; the gate outcomes and the unlock state are compared with the extracted
unlock machine.
Keystore MANAGER family (harness/cmd/c05 -mgr, model Keys/Manager.v): managers holding 2-3 wallets,
random UseWallet / SignHash (keys of wallets in use or not) / SignRawTx with UseWallet requests
scheduled inside the call / ClearPrivKey / export / reveal / removal gate with right and wrong
passphrases on every wallet; after every step the selection and the unlock state of EVERY managed
keystore are compared with the extracted manager model (a difference is a violation,
manager:unlock-state / manager:outcome) and the property's predicates are evaluated on the
implementation's own observations (all keystores wiped after every completed SignRawTx and every
ClearPrivKey; a refused attempt changes no keystore but the master-key scratch value and unlocks
none; an operation on one keystore changes no other).
FAULT family (harness/cmd/c05 -flt, faults.go; model events SEnvFail of Keys/Secrecy.v): error paths that
exist only when the environment fails. The chain database handed to the wallet is wrapped
(internal/sim/chainfault.go: the used-address look-up CheckScriptHashUsed and, separately, the fetch
calls of imports / rescans / start-up fail on demand) and so is the wallet database (internal/dbwrap:
the numbered call fails); every secret-bearing operation (create, mnemonic import with and without
index hints and of a fresh sentence, keystore import, removal with its background steps, export,
reveal, SignHash, SignRawTx, NewAddress, UseWallet, public / private passphrase change, restart) runs
fault-free once and then under each fault kind at sampled call numbers (thorough: all, up to a cap),
single, repeated and persistent; after every attempt the returned error text, the raw database and
every export are searched for every secret of every wallet of the history, the wallets whose creation
or import failed included. The verdict is only about secrets appearing (fail/succeed cleanly is C18).
The taint scan (harness/cmd/c05/taint.go) knows every secret raw, hex / HEX, as Go prints byte
slices (%v / %d "[64 35 88]", % x, %#v "[]byte{0x40, ...}", %q), comma-separated decimals,
JSON-escaped, base64 (both alphabets), whole and by windows (8 consecutive bytes, 3 consecutive
mnemonic words, 9 bytes for base64); a self-test plants each printing and must find it."""
import json
import os
import re
import vcheck as V

PID = "C05"
TRUSTED = [
    "Coq 8.16.1 kernel (coqc), full .vo build; vm_compute in two Examples (C05_ex_history, C05_ex_history_with_failures) and in the membership parts of the closed witness C05_error_carrying_parameters_refuted; no native_compute",
    "axioms: none (Print Assumptions: Closed under the global context for every theorem)",
    "symbolic-crypto assumptions are the term algebra of Keys/Store.v itself: Enc opens only with its key, Hash and Kdf are free one-way constructors, passphrases and random keys are atoms distinct from every public byte string; algebraic relations of secp256k1 (public derivation, parent-from-child) are outside the algebra",
    "section hypotheses of Part 2 (premises, not axioms): unlock_laws (see C03)",
    "extraction: ExtrOcamlBasic only; ocaml/common/conv.ml + ocaml/C05/driver.ml; executed instance Keys/Toy.v (perfect cryptography) and the row table Keys/Store.v [rows]",
    "key names of keystore/db.go are read from the repository's source on every run and compared with the names in the model's row table",
    "Go harness: harness/cmd/c05, internal/simx + internal/sim (real WalletManager on LevelDB), internal/bipref + internal/bip39ref (independent derivation of every secret to search for), goleveldb opened on a COPY of the wallet database directory; scrypt N lowered to 16",
    "hooks (build tag verif): masswallet/hooks_verif.go, masswallet/keystore/unlock_verif.go, unlock_salt_verif.go",
    "manager family: harness/cmd/c05/manager.go on internal/hist + internal/sim; the wallet database is wrapped (mwdb.DB interface) so that UseWallet requests run before chosen read transactions of a SignRawTx call (deterministic interleaving of a concurrent request); model Keys/Manager.v over Keys/Toy.v, list order standing for Go's map order (irrelevant when the address sets of the keystores are disjoint)",
    "fault family: harness/cmd/c05/faults.go on internal/sim/chainfault.go (the chain database the wallet reads, wrapped: injected errors on CheckScriptHashUsed and on the fetch calls) and internal/dbwrap (numbered wallet-database calls); the injected errors are the wrappers' own constant texts; errors of background tasks are only logged by the wallet and therefore not seen (the database after them is scanned)",
    "taint scan: harness/cmd/c05/taint.go (needle index by 4-byte prefix; encodings listed in its header); its self-test runs on every check",
    "not covered: real cryptographic strength; copies of secrets in the Go heap (zeroing is best effort, the GC may keep copies); log files; the random crypto keys (cryptoKeyPriv/Ent/Pub) are unknown to the harness and therefore not searched for",
]
SFIX = True   # see checks/C03.py


def db_key_names(repo):
    """the []byte("...") key names declared in keystore/db.go"""
    src = open(os.path.join(repo, "masswallet/keystore/db.go")).read()
    return dict(re.findall(r"(\w+)\s*=\s*\[\]byte\(\"([^\"]+)\"\)", src))


def frames_equal(a, b):
    x, y = a.split(","), b.split(",")
    return len(x) == len(y) and x[0] == y[0] and x[2:] == y[2:]


WIPED = "0,1,1,0,0,0"


def manager_family(c, exe_go, exe_model, n, only=None):
    """runs the manager family and judges it; returns (stats dict, correspondence breaks, harness errors)"""
    impl = os.path.join(c.workdir, "impl-manager.txt")
    if only is not None:
        lines = []
        for f in only[:30]:
            rc, o, e = V.sh([exe_go, "-mgr", "-worker", "-first", str(f), "-n", "1"], timeout=300)
            lines.append(o)
        open(impl, "w").write("".join(lines))
        gstats = "replay"
    else:
        rc, o, e = V.sh([exe_go, "-mgr", "-n", str(n), "-out", impl, "-j", str(min(8, V.NCPU))], timeout=3000)
        gstats = e.strip().splitlines()[-1] if e.strip() else ""
        if rc != 0:
            return None, ["harness cmd/c05 -mgr failed to run: " + (o + e)[-1500:]], []
    rc, mo, me = V.sh("%s < %s" % (exe_model, impl), timeout=3000)
    if rc != 0:
        return None, ["model driver failed on the manager family: " + me[-1500:]], []
    ilines = [l for l in V.read_lines(impl) if l]
    mlines = mo.splitlines()
    if len([l for l in ilines if l.startswith("MO\t")]) != len(mlines):
        return None, ["model driver answered %d of %d manager cases" % (len(mlines), len([l for l in ilines if l.startswith("MO\t")]))], []
    st = {"histories": set(), "ops": 0, "kinds": {}, "pass_kinds": {}, "distinct": set(), "other_unlocked": 0,
          "raw_switched": 0, "raw_two_signers": 0, "nothing_in_use": 0, "gen": gstats, "sample": []}
    corr, herr = [], []
    passes, prev, seq, diverged, reported = {}, {}, {}, set(), set()
    mi = 0
    for l in ilines:
        f = l.split("\t")
        if f[0] == "X":
            herr.append(l)
            continue
        h = int(f[1])
        rerun = "VERIF_SEED=%d /verif/build/bin/c05 -mgr -worker -first %d -n 1" % (c.seed, h)
        if f[0] == "MW":
            st["histories"].add(h)
            passes[h] = {w.split(":")[0]: w.split(":")[1] for w in f[2].split(",")}
            prev[h] = f[3]
            seq.setdefault(h, []).append("restart: fresh manager, wallets %s, nothing in use" % ",".join(sorted(passes[h])))
            diverged.discard(h)
            if any(x != WIPED for x in f[3].split("|")[1:]) or f[3].split("|")[0] != "-":
                c.violation("manager:fresh-not-locked", "manager history %d: a freshly loaded manager is not locked with nothing in use: %s" % (h, f[3]),
                            {"family": "manager", "mhistory": h, "line": l[:600], "rerun": rerun})
            continue
        if f[0] != "MO":
            continue
        m = mlines[mi].split("\t")
        mi += 1
        _, _, kind, wal, passhex, arg, im, ob = f[:8]
        pk = f[8] if len(f) > 8 else "-"
        im0 = im.split(":other:")[0]
        before = prev.get(h, "")
        prev[h] = ob
        step = "%s wallet=%s passphrase=%s %s -> %s ; selection|keystores = %s" % (kind, wal, pk, arg, im0, ob)
        seq.setdefault(h, []).append(step)
        if len(st["sample"]) < 14:
            st["sample"].append(l[:300])
        st["ops"] += 1
        st["kinds"][kind] = st["kinds"].get(kind, 0) + 1
        st["pass_kinds"][pk] = st["pass_kinds"].get(pk, 0) + 1
        st["distinct"].add((kind, pk, im0, before, ob))
        b, a = before.split("|"), ob.split("|")
        if a[0] == "-":
            st["nothing_in_use"] += 1
        if any(x.startswith("1") and str(i + 1) != a[0] for i, x in enumerate(a[1:])):
            st["other_unlocked"] += 1
        if kind == "raw" and (any(x.split("@")[0] for x in arg.split("#")[0].split(";")) or arg.split("#")[1]):
            st["raw_switched"] += 1
            if im0 == "ok" and len({x.split("@")[1].split(".")[0] for x in arg.split("#")[0].split(";")}) > 1:
                st["raw_two_signers"] += 1

        def viol(key, what, model=None):
            # one report per (key, history): later ones of the same history follow from the first
            if (key, h) in reported:
                return
            reported.add((key, h))
            c.violation(key, what, {"family": "manager", "mhistory": h, "sequence": seq[h][-60:], "line": l[:1500], "model": model, "rerun": rerun})

        if len(a) != len(b):
            viol("manager:keystore-set-changed", "manager history %d: the set of managed keystores changed: %s -> %s" % (h, before, ob))
            continue
        if im == "panic":
            viol("manager:panic:%s" % kind, "manager history %d: %s panicked" % (h, kind))
        refused = im0 != "ok"
        # --- the property's predicates on the implementation's own observations
        if (kind == "raw" and im0 != "err:no-wallet-in-use") or kind == "cl":
            bad = [i + 1 for i, x in enumerate(a[1:]) if x != WIPED]
            if bad:
                viol("manager:keystore-not-wiped-after:%s" % kind,
                     "manager history %d: after the completed %s (%s; keystore in use: %s) keystore %s is not locked and wiped: %s (unlocked,masterKeyZero,hashedZero,branchPriv,cachedPrivKeys,saltZero)"
                     % (h, "SignRawTx" if kind == "raw" else "ClearPrivKey", im0, a[0], bad, [a[i] for i in bad]))
        if kind != "sh":
            for i in range(1, len(a)):
                if a[i].startswith("1") and not b[i].startswith("1"):
                    viol("manager:unlocked-by:%s" % kind, "manager history %d: %s (%s) unlocked keystore %d: %s -> %s" % (h, kind, im0, i, b[i], a[i]))
        if refused and kind in ("sh", "ex", "mn", "ck", "use"):
            if a[0] != b[0]:
                viol("manager:refusal-changed-selection:%s" % kind, "manager history %d: refused %s (%s) changed the keystore in use %s -> %s" % (h, kind, im0, b[0], a[0]))
            for i in range(1, len(a)):
                if a[i].split(",")[-1] == "1" and b[i].split(",")[-1] == "0":
                    viol("empty-passphrase-zeroes-salt", "manager history %d: refused %s (%s) zeroed the salt of keystore %d: %s -> %s" % (h, kind, im0, i, b[i], a[i]))
                elif not frames_equal(b[i], a[i]):
                    viol("manager:refusal-changed-state:%s" % kind, "manager history %d: refused %s (%s, passphrase %s) changed the state of keystore %d: %s -> %s" % (h, kind, im0, pk, i, b[i], a[i]))
        if refused and kind == "raw":
            for i in range(1, len(a)):
                if not (frames_equal(b[i], a[i]) or a[i] == WIPED):
                    viol("manager:refusal-changed-state:raw", "manager history %d: refused SignRawTx (%s) left keystore %d neither as it was nor wiped: %s -> %s" % (h, im0, i, b[i], a[i]))
        # frame: an operation on one keystore changes no other (and not the selection)
        target = None
        if kind in ("ex", "mn", "ck"):
            target = wal
        elif kind == "sh":
            target = arg.split(".")[0]
        if kind in ("ex", "mn", "ck", "sh", "use"):
            if kind != "use" and a[0] != b[0]:
                viol("manager:frame:selection:%s" % kind, "manager history %d: %s on keystore %s changed the keystore in use %s -> %s" % (h, kind, target, b[0], a[0]))
            for i in range(1, len(a)):
                if str(i) != target and a[i] != b[i]:
                    viol("manager:frame:%s" % kind, "manager history %d: %s on keystore %s changed keystore %d: %s -> %s" % (h, kind, target, i, b[i], a[i]))
        # the gate, for every wallet, in use or not
        if kind in ("ex", "mn", "ck", "sh") and wal in passes.get(h, {}) and (kind != "sh" or arg.endswith(":32")):
            is_right = passhex == passes[h][wal]
            want = "ok" if is_right else "err:invalid-passphrase"
            if im0 != want:
                viol("manager:gate:%s:%s:%s" % (kind, pk, im0),
                     "manager history %d: %s on keystore %s (in use: %s) with %s passphrase (%s) answered %s, expected %s (state before %s)"
                     % (h, kind, wal, b[0], "the right" if is_right else "a wrong", pk, im, want, before))
        # --- correspondence with the extracted manager model
        if h not in diverged:
            if im0 != m[2]:
                diverged.add(h)
                viol("manager:outcome", "manager history %d: %s (%s): the implementation answered %s, the model of Keys/Manager.v %s" % (h, kind, arg, im, m[2]), m[2] + " " + m[3])
            elif ob != m[3]:
                diverged.add(h)
                viol("manager:unlock-state", "manager history %d: after %s (%s, %s) the selection|unlock states of the managed keystores are %s, the model of Keys/Manager.v predicts %s" % (h, kind, arg, im0, ob, m[3]), m[3])
    return st, corr, herr


def fault_family(c, exe_go, n, sweep, only=None):
    """runs the fault family and judges it; returns (stats dict | None, break text | None, harness errors)"""
    rc, o, e = V.sh([exe_go, "-selftest"], timeout=120)
    if rc != 0 or "SELFTEST ok" not in o:
        return None, "the taint scan of harness/cmd/c05 no longer finds planted leaks: " + (o + e)[-800:], []
    impl = os.path.join(c.workdir, "impl-faults.txt")
    flags = ["-flt"] + (["-sweep"] if sweep else [])
    if only is not None:
        lines = []
        for f in only[:8]:
            rc, o, e = V.sh([exe_go] + flags + ["-worker", "-first", str(f), "-n", "1"], timeout=900)
            lines.append(o)
        open(impl, "w").write("".join(lines))
        gstats = "replay"
    else:
        rc, o, e = V.sh([exe_go] + flags + ["-n", str(n), "-out", impl, "-j", str(min(8, V.NCPU))], timeout=3000)
        gstats = e.strip().splitlines()[-1] if e.strip() else ""
        if rc != 0:
            return None, "harness cmd/c05 -flt failed to run: " + (o + e)[-1500:], []
    st = {"histories": set(), "attempts": 0, "by_op": {}, "by_fault": {}, "injected": {}, "failed_under_fault": 0, "succeeded_under_fault": 0,
          "panics": 0, "points": {}, "base_calls": {}, "distinct": set(), "sites": set(), "scans": 0, "bytes": 0, "needles_max": 0,
          "recoveries": 0, "error_texts": set(), "gen": gstats, "sample": []}
    herr = []
    per = {}
    for l in V.read_lines(impl):
        if not l:
            continue
        f = l.split("\t")
        if f[0] == "X":
            herr.append(l)
            continue
        if f[0] in ("FH", "FO", "F", "N", "FD"):
            per.setdefault(int(f[1]), []).append(f)
    for h, fl in sorted(per.items()):
        st["histories"].add(h)
        rerun = "VERIF_SEED=%d /verif/build/bin/c05 -flt%s -worker -first %d -n 1" % (c.seed, " -sweep" if sweep else "", h)
        steps, seq, finds = {}, [], {}
        for f in fl:
            if f[0] == "FO":
                _, _, step, op, kind, at, count, inj, first, dbc, lk, fe, outcome = f[:13]
                text = f[13] if len(f) > 13 else "-"
                cnt = "persistent" if int(count) >= (1 << 20) else count
                desc = "%s fault=%s%s -> %s%s" % (op, kind, "" if kind == "none" else " at call %s x%s (injected %s, first: %s)" % (at, cnt, inj, first),
                                                 outcome, "" if text == "-" else ' "%s"' % text[:300])
                steps[int(step)] = (op, kind, desc)
                seq.append((int(step), desc))
                st["attempts"] += 1
                st["by_op"][op] = st["by_op"].get(op, 0) + 1
                st["by_fault"][kind] = st["by_fault"].get(kind, 0) + 1
                if kind == "none":
                    b = st["base_calls"].setdefault(op, [0, 0, 0])
                    for i, v in enumerate((dbc, lk, fe)):
                        b[i] = max(b[i], int(v))
                elif int(inj) > 0:
                    st["injected"][kind] = st["injected"].get(kind, 0) + 1
                    st["points"].setdefault(op + "/" + kind, set()).add(int(at))
                    st["sites"].add((op, kind, first))
                    if outcome == "ok":
                        st["succeeded_under_fault"] += 1
                    else:
                        st["failed_under_fault"] += 1
                if outcome == "panic":
                    st["panics"] += 1
                st["distinct"].add((op, kind, first, outcome))
                if text != "-":
                    st["error_texts"].add(re.sub(r"[0-9a-f]{16,}|ac1[0-9a-z]{20,}", "#", text)[:120])
                if len(st["sample"]) < 12 and kind != "none":
                    st["sample"].append("\t".join(f)[:300])
            elif f[0] == "N":
                st["scans"] += 1
                st["bytes"] += int(f[5])
                st["needles_max"] = max(st["needles_max"], int(f[3]))
            elif f[0] == "FD":
                st["recoveries"] += 1
                seq.append((int(f[2]), "harness recovery: " + f[3]))
            elif f[0] == "F":
                finds.setdefault((int(f[2]), f[3]), []).append(f[4])
        reported = set()
        for (step, where), whats in sorted(finds.items()):
            op, kind, desc = steps.get(step, ("?", "?", "(no operation line for this step)"))
            classes = sorted({w.split(":")[0].rstrip("0123456789.") for w in whats})
            encs = sorted({w.split(":")[-1] for w in whats})
            key = "fault:plain-secret:%s:%s:%s" % (where.split(":")[0], kind, "+".join(classes))
            st["finds"] = st.get("finds", 0) + 1
            if key in reported:   # one report per (key, history): the later steps of a history repeat the first
                continue
            reported.add(key)
            c.violation(key, "fault history %d step %d: %s — the secrets %s appear in clear (as %s) in [%s]" % (h, step, desc, classes, encs, where),
                        {"family": "faults", "fhistory": h, "step": step, "where": where, "found": whats[:40],
                         "sequence": ["step %d: %s" % x for x in seq if x[0] <= step][-40:], "rerun": rerun})
    return st, None, herr


def main(tier, replay=None):
    c = V.Check(PID, tier)
    proofs_ok = c.proofs(gen_only=["Consts.v"], extra_targets=["Keys/Exec.vo", "Keys/ExecManager.vo"])
    c.log("proofs:", "ok" if proofs_ok else c.proof_break)
    outs, err = V.go_build(["c05"])
    if outs is None:
        return c.finish(TRUSTED, no_input_break="correspondence harness cmd/c05 no longer builds against the repository: " + err[-1500:])
    exe, err = V.ocaml_build(PID)
    if exe is None:
        return c.finish(TRUSTED, no_input_break="extraction/OCaml build of the Keys model failed: " + err[-1500:])

    n = 64 if tier == "quick" else 900

    if c.escalated:   # a modelled Go function changed since the pin (c.drift): look harder, no verdict from drift alone

        n *= 3
    impl = os.path.join(c.workdir, "impl.txt")
    if replay:
        rp = json.load(open(replay))
        firsts = sorted({v["replay"]["history"] for v in rp.get("violations", []) if "history" in v.get("replay", {})})
        mfirsts = sorted({v["replay"]["mhistory"] for v in rp.get("violations", []) if "mhistory" in v.get("replay", {})})
        ffirsts = sorted({v["replay"]["fhistory"] for v in rp.get("violations", []) if "fhistory" in v.get("replay", {})})
        os.environ["VERIF_SEED"] = str(rp.get("seed", c.seed))
        lines = []
        for f in firsts[:30]:
            rc, o, e = V.sh([outs[0], "-worker", "-first", str(f), "-n", "1"], timeout=300)
            lines.append(o)
        open(impl, "w").write("".join(lines))
        stats = "replay"
    else:
        rc, o, e = V.sh([outs[0], "-n", str(n), "-out", impl, "-j", str(min(8, V.NCPU))], timeout=3000)
        stats = e.strip().splitlines()[-1] if e.strip() else ""
        if rc != 0:
            return c.finish(TRUSTED, no_input_break="harness cmd/c05 failed to run: " + (o + e)[-1500:])
    rc, mo, me = V.sh("%s %s < %s" % (exe, "" if SFIX else "sfix=0", impl), timeout=3000)
    if rc != 0:
        return c.finish(TRUSTED, no_input_break="model driver failed: " + me[-1500:])
    # the keystore manager family
    mst, mcorr, mherr = manager_family(c, outs[0], exe, 48 if tier == "quick" else 700, only=(mfirsts if replay else None))
    if mst is None:
        return c.finish(TRUSTED, no_input_break=mcorr[0])
    # the fault family
    nf = 16 if tier == "quick" else 8
    if c.escalated and tier == "quick":
        nf *= 2
    fst, fbrk, fherr = fault_family(c, outs[0], nf, tier != "quick", only=(ffirsts if replay else None))
    if fst is None:
        return c.finish(TRUSTED, no_input_break=fbrk)

    ilines = [l for l in V.read_lines(impl) if l]
    mlines = mo.splitlines()
    cases = [l for l in ilines if l[0] in "OK"]
    if len(cases) != len(mlines):
        return c.finish(TRUSTED, no_input_break="model driver answered %d of %d cases" % (len(mlines), len(cases)))

    # the model's key names against the source
    names = set(db_key_names(V.REPO).values())
    model_names = set()

    right = {}
    last_obs = {}
    hist_lines = {}
    harness_err = []
    corr = []
    distinct = set()
    nO = nK = nscan = scanned = 0
    pass_kinds = {}
    mi = 0
    for l in ilines:
        f = l.split("\t")
        if f[0] == "X":
            harness_err.append(l)
            continue
        h = int(f[1])
        hist_lines.setdefault(h, []).append(l[:400])
        rerun = "VERIF_SEED=%d /verif/build/bin/c05 -worker -first %d -n 1" % (c.seed, h)

        def viol(key, what, m=None):
            c.violation(key, what, {"history": h, "line": l[:1500], "model": m, "rerun": rerun})

        if f[0] == "W":
            right[h] = f[2]
            last_obs[h] = "0,1,1,0,0,0"
        elif f[0] == "F":
            viol("plain-secret:%s:%s" % (f[3].split(":")[0], f[4].split(":")[0].rstrip("0123456789.")),
                 "history %d step %s: the secret [%s] appears in clear in [%s]" % (h, f[2], f[4], f[3]))
        elif f[0] == "N":
            nscan += 1
            scanned += int(f[5])
        elif f[0] == "K":
            nK += 1
            m = mlines[mi].split("\t")
            mi += 1
            got = {}
            if f[8] != "-":
                for it in f[8].split(","):
                    sub, key, ln = it.split(":")
                    got[(sub, key)] = int(ln)
            want = {}
            for it in m[3].split(","):
                sub, key, ln, enc = it.split(":")
                want[(sub, key)] = (int(ln), enc)
                if sub == "":
                    try:
                        nm = bytes.fromhex(key).decode()
                        if nm.isprintable() and nm.isalpha():
                            model_names.add(nm)
                    except Exception:
                        pass
            distinct.add(("K", f[2].split(":")[1] if ":" in f[2] else f[2], len(got)))
            for k in sorted(set(got) | set(want)):
                if k not in want:
                    viol("row-not-in-model:%s" % k[1][:24], "history %d step %s: the wallet bucket holds a row %s/%s (%d bytes) that the model of Keys/Store.v does not have" % (h, f[2], k[0], k[1], got[k]), m[3][:800])
                elif k not in got:
                    corr.append((h, "step %s: the model expects a row %s/%s that is not stored" % (f[2], k[0], k[1])))
                elif got[k] != want[k][0]:
                    enc = want[k][1] == "1"
                    if enc and got[k] < want[k][0]:
                        viol("row-shorter-than-ciphertext:%s" % k[1][:24],
                             "history %d step %s: row %s/%s is an encryption in the model (%d = plaintext + 40 bytes) but holds %d bytes" % (h, f[2], k[0], k[1], want[k][0], got[k]))
                    else:
                        corr.append((h, "step %s: row %s/%s has %d bytes, the model's term has %d" % (f[2], k[0], k[1], got[k], want[k][0])))
        elif f[0] == "O":
            nO += 1
            m = mlines[mi].split("\t")
            mi += 1
            _, _, kind, passhex, a, hl, arg, im, ob = f[:9]
            same = f[9] if len(f) > 9 else "-"
            pk = f[10] if len(f) > 10 else "-"
            prev = last_obs.get(h, "0,1,1,0,0,0")
            last_obs[h] = ob
            pass_kinds[pk] = pass_kinds.get(pk, 0) + 1
            is_right = passhex == right.get(h)
            distinct.add(("O", kind, pk, im, prev, ob))
            if kind in ("sh", "ex", "mn", "ck"):
                want = "ok" if is_right else "err:invalid-passphrase"
                if im != want:
                    raw = bytes.fromhex(passhex)
                    rr = bytes.fromhex(right.get(h, ""))
                    if im == "ok" and not is_right and raw.rstrip(b"\x00") == rr and raw != rr:
                        viol("passphrase-trailing-nul-equivalent",
                             "history %d: %s accepted the candidate passphrase %r (the passphrase followed by NUL bytes)%s" % (h, kind, raw, "; the wallet was removed" if kind == "ck" else ""))
                    elif is_right and im == "err:invalid-passphrase" and prev.split(",")[0] == "1" and prev.split(",")[-1] == "1":
                        viol("empty-passphrase-zeroes-salt",
                             "history %d: %s with the right passphrase is refused: the manager is unlocked and an earlier attempt with the empty passphrase zeroed its salt (state %s)" % (h, kind, prev))
                    elif kind == "mn" and is_right and im == "err:decrypt-failed":
                        viol("mnemonic-after-unlocked-export", "history %d: GetMnemonic with the right passphrase answered 'unable to decrypt' (state before %s)" % (h, prev))
                    else:
                        viol("gate:%s:%s:%s" % (kind, pk, im.split(":other:")[0]),
                             "history %d: %s with %s passphrase (%s) answered %s, expected %s (state before %s)" % (h, kind, "the right" if is_right else "a wrong", pk, im, want, prev))
                if im != "ok":
                    if same == "0":
                        viol("refusal-changed-database:%s" % kind, "history %d: the refused %s (%s) changed the raw database content" % (h, kind, pk))
                    if ob.split(",")[-1] == "1" and prev.split(",")[-1] == "0":
                        viol("empty-passphrase-zeroes-salt", "history %d: refused %s (%s) with passphrase %r zeroed the manager's salt: %s -> %s" % (h, kind, im, bytes.fromhex(passhex), prev, ob))
                    elif not frames_equal(prev, ob):
                        viol("refusal-changed-state:%s" % kind, "history %d: refused %s (%s, %s) changed the unlock state %s -> %s" % (h, kind, pk, im, prev, ob))
                elif kind in ("ex", "mn", "ck") and same == "0":
                    viol("read-operation-changed-database:%s" % kind, "history %d: %s changed the raw database content" % (h, kind))
            if im == "panic":
                viol("panic:%s" % kind, "history %d: %s panicked" % (h, kind))
            if (im.split(":other:")[0], ob) != (m[2], m[5]):
                corr.append((h, "operation %s (%s): implementation %s / %s, model %s / %s" % (kind, pk, im, ob, m[2], m[5])))
    missing = sorted(nm for nm in model_names if nm not in names)
    brk = None
    if missing and not c.violations:
        brk = "the key names %s of the model's row table (Keys/Store.v) are no longer declared in masswallet/keystore/db.go" % missing
    if corr and not c.violations and not brk:
        hs = sorted({h for h, _ in corr})
        brk = ("the implementation no longer corresponds to the model (Keys/Store.v row table / Keys/Unlock.v) on %d observations (first: history %d: %s); rerun: VERIF_SEED=%d /verif/build/bin/c05 -worker -first %d -n 1"
               % (len(corr), corr[0][0], corr[0][1][:700], c.seed, hs[0]))
    harness_err += mherr + fherr
    if harness_err and not c.violations and not brk:
        brk = "the harness could not run %d histories: %s" % (len(harness_err), harness_err[0][:500])
    sample = hist_lines[min(hist_lines)][:12] if hist_lines else []
    c.coverage.update({
        "evaluations": nO + nK + mst["ops"] + fst["attempts"],
        "distinct_nontrivial": len(distinct) + len(mst["distinct"]) + len(fst["distinct"]),
        "rule": "one evaluation = one step of a wallet life followed by a full scan (raw LevelDB keys, values, file bytes; exports; errors) and a row-shape comparison, or one secret-needing operation with a candidate passphrase; "
                "distinct_nontrivial = distinct (operation, passphrase class, outcome, unlock state before/after) and (step kind, number of rows). "
                "Secrets searched: mnemonic sentence and every 3-word window, entropy, seed, root/purpose/coin/account/branch extended private keys (scalar, base58 string), every issued address's private key, private and public passphrases; each raw, hex/HEX, as Go's fmt prints byte slices (%v/%d decimal list, % x, %#v 0x list, %q), comma-separated decimals, JSON-escaped, base64 std/URL, whole and by windows of 8 bytes (9 for base64). " + stats,
        "histories": len(hist_lines), "operations": nO, "row_comparisons": nK, "scans": nscan, "bytes_scanned": scanned,
        "passphrase_classes": pass_kinds,
        "model_key_names_checked_against_db_go": sorted(model_names),
        "samples": [sample, mst["sample"], fst["sample"]],
        "manager_family": {
            "rule": "one evaluation = one operation on a manager holding 2-3 wallets followed by the observation of the selection and of the unlock state of every managed keystore, compared with the extracted model of Keys/Manager.v and judged by the predicates (wiped after SignRawTx / ClearPrivKey, refusal frame, keystore frame, gate); distinct = distinct (operation, passphrase class, outcome, observation before, observation after). " + mst["gen"],
            "histories": len(mst["histories"]), "operations": mst["ops"], "by_kind": mst["kinds"], "passphrase_classes": mst["pass_kinds"],
            "distinct_nontrivial": len(mst["distinct"]),
            "observations_with_an_unlocked_keystore_not_in_use": mst["other_unlocked"],
            "observations_with_nothing_in_use": mst["nothing_in_use"],
            "signrawtx_with_selection_change_inside": mst["raw_switched"],
            "signrawtx_completed_with_two_signing_keystores": mst["raw_two_signers"],
        },
        "fault_family": {
            "rule": "one evaluation = one operation of the real wallet run fault-free or under one fault plan (wallet-database call number / chain look-up call number / chain fetch call number, single, repeated or persistent; armed through the background task of imports and removals), followed by a scan of the returned error text, of the raw LevelDB content and of every export for every secret of every wallet of the history in every encoding; distinct = distinct (operation, fault kind, first failing call site, outcome class). " + fst["gen"],
            "histories": len(fst["histories"]), "attempts": fst["attempts"], "by_operation": fst["by_op"], "by_fault_kind": fst["by_fault"],
            "attempts_with_a_fault_injected": fst["injected"], "failed_under_fault": fst["failed_under_fault"],
            "succeeded_under_fault": fst["succeeded_under_fault"], "panics_under_fault": fst["panics"],
            "environment_calls_of_the_fault_free_run(db,lookup,fetch)": fst["base_calls"],
            "distinct_call_numbers_hit": {k: len(v) for k, v in sorted(fst["points"].items())},
            "distinct_failing_call_sites": len(fst["sites"]),
            "distinct_error_texts": len(fst["error_texts"]), "error_text_samples": sorted(fst["error_texts"])[:40],
            "distinct_nontrivial": len(fst["distinct"]), "scans": fst["scans"], "bytes_scanned": fst["bytes"],
            "needles_at_most": fst["needles_max"], "harness_recoveries": fst["recoveries"], "steps_with_a_secret_found": fst.get("finds", 0),
            "note": "SignHash makes no environment call (cached keystore): it has no fault point; ChangePrivPassphrase is refused for version-0 keystores before it writes",
        },
        "disagreements_checked": nO + nK + mst["ops"] + fst["attempts"],
        "correspondence_mismatches": len(corr),
    })
    c.assumptions = ["sequential calls", "scrypt N lowered to 16 by the harness",
                     "RemoveWallet is exercised with wrong passphrases only (its gate CheckPrivPassphrase with the right one), so that the history can go on"]
    if not proofs_ok and not c.violations and not brk:
        brk = "proof obligations of Properties/C05.v no longer check: " + str(c.proof_break)
    return c.finish(TRUSTED, no_input_break=brk)
