#!/usr/bin/env python3
"""Writes /verif/MANIFEST.json from the table below (kept in one place so it is always valid)."""
import json, os
ALL = ["C%02d" % i for i in range(1, 21)]
CHECKS = {
    "C15": dict(
        category="proof",
        text="Coq theorems over all byte strings / all integers: parse = grammar of the property (sound and complete), format = canonical shortest numeral, round trip, rejection outside the supply; tied to the code by running the extracted model and api.StringToAmount / both AmountToString on the same generated inputs (exhaustive short strings + PRNG streams, overflow and negative streams) on every run, and — the API layer's use of the conversions — the value field of every output of DecodeRawTransaction on multi-output transactions with boundary, negative and wrapping values against the model (one out-of-range output refuses the call).",
        design_ref="DESIGN.md section 5, C15",
        note="Trusted: Coq kernel, ExtrOcamlBasic extraction + OCaml driver glue, Go harness/generator, translator of MaxMass/MaxwellPerMass; Go library functions (strings.*, strconv.ParseInt, Uint128) are restated in Gallina, not verified. No axioms.",
        technique="Coq proof (round-trip / grammar equivalence) + extracted-model differential correspondence",
    ),
}
CHECKS["C01"] = dict(
    category="proof",
    text="Coq model of the ledger (filterTx/filterBlock/insert/rollback/reorg/processConnectedBlock/queries) with theorems that following any well-formed chain, rolling back, and reorganising to the node's tip yields exactly what the chain pays (Properties/C01.v); tied to the code by replaying generated histories (forks up to depth 4, lagging/stale announcements, multi-block reorg commits, staking/binding/coinbase maturity) on the real WalletManager and on the extracted model, and evaluating the chain specification on the implementation's own reports.",
    design_ref="DESIGN.md section 5, C01",
    note="Trusted: Coq kernel, ExtrOcamlBasic extraction + OCaml driver, Go harness (simulated node on mass-core chain DB, generator), verif accessors; mass-core and LevelDB are environment. Record-level model: unspent set and balances are derived from one credit list. No axioms.",
    technique="Coq proof (refinement of the ledger state machine to a chain specification, induction over histories) + extracted-model differential correspondence on real WalletManager histories",
)
CHECKS["C14"] = dict(
    category="proof",
    text="BIP-32 derivation (master key, CKDpriv/CKDpub, neuter, serialisation, parsing, the m/44'/coin'/account' helpers) proved equal to the BIP text for all seeds, parents, indexes and strings under group/hash laws (section hypotheses), with the guard 'stored parent key has 32 bytes' for hardened children and a refutation witness without it; tied to the code by running the extracted model and the real hdkeychain on seeds, paths to depth 6, constructed leading-zero parents, index boundaries and every single-byte corruption of serialised keys, with an independent BIP-32 implementation as second oracle. Key OBJECTS (shared byte slices, the memoised public key, Zero wiping in place) are modelled as a heap of buffers (Codec/Bip32Obj.v): no buffer is shared by two key objects in any reachable heap, Zero and every other operation on one object leave every other object unchanged, and for every script of derive/neuter/use/zero operations the observed key object equals the value model (witness for Neuter as found, which shared its slices); tied to the code by object-graph scripts (siblings, neutered copies, grandchildren, the parent zeroed around the observed key) run on real ExtendedKey objects and on the extracted heap model.",
    design_ref="DESIGN.md section 5, C14",
    note="Trusted: Coq kernel (no axioms; primitives are section variables under prim_laws), ExtrOcamlBasic + OCaml driver, Go harness incl. its independent reference (crypto/hmac, sha512, btcec, base58 as oracles recorded per case), verif export files. Known finding short-parent-hardened-child (not repaired); X>=P acceptance repaired (bc42b55).",
    technique="Coq proof (refinement of the code's byte-level algorithm to the BIP-32 specification, parametric in the primitives) + extracted-model differential correspondence with recorded primitive tables",
)
CHECKS["C16"] = dict(
    category="proof",
    text="Coq theorems over all byte strings: mass-core's tokenizer/template matching equals the three witness byte layouts; utils.ParsePkScript returns exactly the specified reading (class, owner, staking/binding address, maturity) or an error, agrees with ExtractPkScriptAddrs, is ErrUnsupportedScript exactly for the classes the wallet does not read; the builders round-trip for every hash/period/target; ParsePkScript and (repaired) extractAddressInfos never panic, with witnesses for the two panics of the code as found. Tied to the code by running the extracted model and the real functions plus mass-core's GetScriptClass/ExtractPkScriptAddrs on ~155k generated scripts per quick run.",
    design_ref="DESIGN.md section 5, C16",
    note="Trusted: Coq kernel (no axioms), ExtrOcamlBasic + driver, Go harness and verif export files; btcec.ParsePubKey and address encoders are oracles; mass-core txscript/massutil restated in Gallina and tied by the same run. Three defects repaired (97fa21d, b6c522f, 7f827cd).",
    technique="Coq proof (tokenizer/template equivalence, round trip, panic characterisation) + extracted-model differential correspondence + consensus-library oracle",
)
CHECKS["C11"] = dict(
    category="proof",
    text="Coq model of db.go/ldb (ordered byte-key store, write transaction = op log + the code's own put/delete/seq summary, bucket path encoding, iterators, BytesPrefix) with 49 theorems over all op sequences and all byte strings: refinement to an abstract map specification (KV/Spec.v; for every operation sequence the model's outputs equal the specification's up to the first step it leaves unspecified — every operation: transactions, top-level and nested buckets incl. recursive delete, put/delete/clear/get/prefix-get, bucket listings, iterators, dump, close/reopen; unspecified only where the harness taints), commit = whole log or nothing, read-your-writes for point/prefix reads, key encoding injective across buckets (isolation), prefix scans stay in their bucket, read-only iteration/seek exact and strictly ascending, BytesPrefix exact incl. 0xff prefixes; iterators of write transactions yield exactly the entries of the transaction's own view in the range, from the seek key on, strictly ascending, each once, for any pending batch (C11_write_iter_is_view; the merging iterator of /repo 160bde9, after 25fb027 for Seek below the range start; closed witnesses C11_write_iter_not_view_refuted and C11_seek_below_range_unfixed_refuted for the code as found); tied to the code by ~2000 random op sequences (148k ops) per quick run on a real LevelDB, replayed on the extracted model, plus a Go map as second oracle; failing sequences are shrunk.",
    design_ref="DESIGN.md section 5, C11",
    note="Trusted: Coq kernel (no axioms), ExtrOcamlBasic + driver, Go harness + its reference map; goleveldb Get/Write/iterator snapshots and durability are environment (exercised by reopen steps). Bucket-listing theorem is partial (index well-formedness invariant not proved); iterators of write transactions are judged by the reference map against the transaction's view as long as the transaction writes nothing after creating them (the two-run listing of the code before 160bde9 would be reported under the key write-tx-iterator-not-view, which is no longer a known finding); Bucket() after DeleteBucket and NewBucket twice are modelled and diffed but outside the property text.",
    technique="Coq proof (invariant by induction over operation logs, encoding injectivity, iteration exactness) + extracted-model differential correspondence on a real LevelDB + reference-map oracle",
)
CHECKS["C13"] = dict(
    category="proof",
    text="Coq theorems over all byte strings / all entropies / every hash and KDF function: NewMnemonic = bit-level BIP-39 encoding (all five sizes, leading zeros, illegal sizes); both decoders accept exactly the sentences with legal count, list words and correct checksum and return that entropy (strings.Fields with Unicode white space modelled); round trip; IsMnemonicValid characterised (no checksum); seed = BIP-39 PBKDF2 seed of the words for NFKD-stable passphrases; refutation theorem for the pre-fix raw-string seed. Tied to the code on every run by running the extracted model, the extracted bit-level spec and an independent Go BIP-39 against keystore.* on generated entropies and mutated/re-spaced sentences; the word list is re-translated from wordlists/english.go on every run.",
    design_ref="DESIGN.md section 5, C13",
    note="Trusted: Coq kernel incl. vm_compute on the generated word list and byte sweeps; ExtrOcamlBasic + driver with primitive lookup tables; Go harness and its independent reference (list copy checked by sha256 and six official vectors); word-list translator. SHA-256/PBKDF2/NFKD are outside the property (values recorded from crypto/*). No axioms. Known finding seed:passphrase-not-nfkd; re-spaced mnemonic seed repaired (f149051).",
    technique="Coq proof (big-integer = bit-string equivalence, acceptance iff, round trip) + extracted-model differential correspondence with primitive oracle tables + independent reference implementation",
)
CHECKS["C02"] = dict(
    category="proof",
    text="Coq model of coin selection (eligibility filter, top-K heap, greedy optOutputs), size/fee estimation, the automatic fee loop with its dust-change adjustment, fee-share subtraction, the manual path and the reservation set, with 18 theorems: conservation, eligible and duplicate-free inputs, exact outputs and change rule, fee bounds, termination with a proved fuel bound, success/insufficiency with explicit slack (and a refutation of the sharp iff), disjoint consecutive drafts, manual-path ownership and no-duplicate (repaired). Tied to the code by ~62k isolated selector/fee cases and ~850 create calls per quick run on real wallets whose coins come from chain histories; each returned transaction is compared with the extracted model and judged by the extracted Coq predicate against the wallet's own UTXO report.",
    design_ref="DESIGN.md section 5, C02",
    note="Trusted: Coq kernel (no axioms), ExtrOcamlBasic + driver, Go harness (sim/hist, tx_verif.go exports); the harness tells the model what each explicit input refers to; size constants and K are compared with the compiled values on every run; node mempool empty; reservation expiry (wall clock) not modelled. Known finding auto-insufficient-within-dust-slack; duplicate explicit inputs repaired (3588e0f).",
    technique="Coq proof (arithmetic invariants of selection and the fee fixed point, heap correctness, fuel bound) + extracted-model differential correspondence + extracted property predicate evaluated on real transactions",
)
CHECKS["C12"] = dict(
    category="proof",
    text="Coq model of address issuing (gap window of nextAddresses, NewAddress/CreateAddress), the address records (PutNewAddress/AddCredits/Rollback), the GetAddresses merge and the import discovery scan, with 20 theorems over all histories and gap limits: next-index freshness and durability across restart, strictly increasing indexes, used flag = chain payment through reorgs, the exact refusal condition, discovery completeness under monotone usage, refutation witnesses for the two known findings and for the repaired index collision. Tied to the code by replaying generated histories (issue/pay/reorg/restart/restore with hints, gap limits 2,3,5,20) on the real wallet and on the extracted model and by replaying the Coq witnesses on the real wallet.",
    design_ref="DESIGN.md section 5, C12",
    note="Trusted: Coq kernel (no axioms), ExtrOcamlBasic + driver (chain bookkeeping, predicates), Go harness (sim node with script-hash index, its own key derivation of the script-hash table); key derivation enters through an injectivity premise; hdkeychain.Child assumed never to return ErrInvalidChild; announcements synchronous. Known findings listing-lost-after-reorged-first-payment, discovery-after-reorged-first-payment; index collision repaired (314e4a7).",
    technique="Coq proof (invariants by induction over histories, scan completeness induction, closed witnesses) + extracted-model differential correspondence on real WalletManager histories",
)
CHECKS["C19"] = dict(
    category="proof",
    text="PARTIAL. Coq model of the API validation prologues of 38 request kinds (every method of the wallet, transaction and block services except GetClientStatus) and of the look-up paths that index or dereference (constructTxIn, estimateSignedSize, signWitnessTx, findEligibleUtxos, selectRelatedTx, the current-keystore re-reads and cache look-ups, the task queue, asyncImport's record handling, the index sites of filterTx/filterBlock, GetBindingHistoryDetail, the block service's served transactions and reward outputs) with explicit Panic outcomes: C19_no_panic / C19_current_code_no_panic for every request in every abstract wallet state and node environment, refutation witnesses for the code as found (14 + GetBindingHistory behind a reorganisation + the evicted keystore cache), panic-only-at-unrepaired-sites, follower progress derived from the C01 history theorem. Tied to the code by (1) an inventory of compiler-unproven bounds checks and nil sources regenerated from the source on every run and compared with the pinned one the lemmas were written against, (2) ~6000 API requests (structured mostly-valid stream + malformed stream) in 12 wallet states incl. lagging behind a node reorganisation and after Stop + 140 deterministic removal-race schedules + 120 chain events with liveness probes per quick run under recover(), compared with the extracted model; the simulated node carries mass-core's real SyncManager (vault mode, no socket).",
    design_ref="DESIGN.md section 5, C19",
    note="Partial: everything behind the modelled path (fee arithmetic, output construction, signing, serialisation, keystore, database) is an oracle in the proof and covered by exploration only. Trusted: Coq kernel (no axioms), Go compiler's prove pass (bounds-check report), the go/ast translator and the reviewed pinned dispositions, ExtrOcamlBasic + driver, harness with DB gate, verif hooks; mass-core, goleveldb, grpc are environment. 12 panics repaired; known finding index-hint stall.",
    technique="Coq proof over a model with explicit Panic outcomes + source-derived inventory drift check + exploration of the real API under recover() with extracted-model correspondence",
)
CHECKS["C06"] = dict(
    category="proof",
    text="Coq model of crash and restart over the C01 ledger and the C07/C08 task models: a crash right after any commit (any list of crash points) followed by Start (catch-up, reorganisation of a replaced tip, the fast-forward taken only over a stored tip that is still on the node's chain) and the rest of the history gives the ledger and reports of the run that never stopped; restart from ANY state of the import invariant on any chain the node moved to ends on the node's tip and further rescan batches make the wallet ready with the chain's ledger; the task queue rebuilt from the status records has exactly the members the crash lost, import and removal steps resume; any number of crash/restarts at any positions of a history with one or two concurrent restores beside ready wallets (node on any chain at each restart) end, once in step and ready, with the live run of all wallets; refutation witnesses for the two repaired start-up defects (replaced tip at the same height, fast-forward over a stale fork while a wallet is being imported). Tied to the code by crash-point enumeration on the real wallet: the LevelDB handle is closed right after commit k (all volatile state lost), the node moves on or reorganises while the wallet is down, the wallet is reopened, possibly crashed again, and after catching up compared with the uncrashed twin, the extracted model and the chain specification — ordinary histories (create, addresses, blocks, reorganisations, import, removal) and the import-only family (only wallets being restored, chains longer than one rescan batch, node forked below or above the cursor and grown by a few or by more than 2000 blocks).",
    design_ref="DESIGN.md section 5, C06",
    note="Trusted: Coq kernel (no axioms), ocaml/C01 driver + ExtrOcamlBasic, harness (dbwrap, cfsim, sim, hist; deterministic crypto/rand swap), LevelDB journal for a crash inside a batch write. Theorems exclude a node reorganised back to genesis; the fast-forward is covered by C06_ff_restart_any_chain / C06_ff_restart_resumes; import/removal steps resume by C06_import_resumes / C06_removal_resumes / C06_task_resumes, their ledger effect is C07's / C08's. Known finding addressbook-row-lost-by-rollback (address rows compared separately).",
    technique="Coq proof (crash = restart from the store, induction over histories using the C01 theorems) + crash-point enumeration on the real wallet with twin comparison",
)
CHECKS["C18"] = dict(
    category="proof",
    text="Coq model of every write operation of the wallet as a program of numbered database calls with in-memory updates, post-commit update and repair: a fault at ANY call of ANY operation (create, import, NewAddress, block / reorganisation processing, pending set, import batch, removal request, phase 1, every removal round) is reported, leaves store and memory as before, and after ANY sequence of faults (also during repairs) the repeated operation gives the fault-free result — for every operation of every multi-wallet history; addresses are numbered without gap or repetition under any faults and partially failing keystore loads; historical / refutation witnesses for the repaired defects (cached address, swallowed reads and puts, removal double fault, the reload that could fail, a stale counter mirror). Tied to the code by fault enumeration on the real wallet: sets of numbered database calls (single faults, adjacent and NON-adjacent double faults reaching the repair paths) chosen so that every distinct target (operation, calling functions, call kind, key, ordinal) seen in any fault-free twin is faulted at least once; the operation must report or recover, nothing observable may change, the retry and the end state — the whole wallet database — must equal the fault-free twin's.",
    design_ref="DESIGN.md section 5, C18",
    note="Trusted: Coq kernel (no axioms), ocaml/C01 driver, harness (dbwrap fault injector, cfsim). Fault = the call returns an error and has no effect. Create/import/remove under faults are enumerated, not proved; three consecutive faults in the last removal round still need a restart (stated as a _partial theorem); swallowed-read sites in the pending-transaction code are not reached. Four defects repaired (f6a5978, 23ccdb6, 33294fa).",
    technique="Coq proof (operation = commit entirely or leave the store unchanged; retry equivalence) + storage-fault enumeration on the real wallet with twin comparison",
)
CHECKS["C09"] = dict(
    category="proof",
    text="Coq model of the pending side of the store (unmined transactions, unmined inputs with per-spender lists, unmined credits, pending game rows, the handler's volatile mempool set) wrapped around the C01 ledger, with 46 theorems: an accepted unconfirmed transaction is readable and flags every wallet coin it spends, flagged coins are never eligible, receiving changes nothing mined, settling equals mining unseen and removes the pending record, a confirmed conflict purges the conflicted transaction with all registered descendants (fuel bound proved), rolled-back transactions return readable with all inputs registered, and refutation witnesses for three repaired defects; plus the whole-history index invariant (in every state any history reaches, a readable pending transaction is registered under every wallet coin it spends, that coin is flagged and not eligible — the only exception being the non-wallet inputs of the recorded finding; every registration belongs to a pending spender; Rollback of any depth and every connect keep both), from which: whenever a relevant transaction confirms, every pending transaction sharing a wallet coin with it vanishes with its registered descendants and its coins are free again, in every reachable state; closed counterexample for a Rollback that overwrites the spender list. Tied to the code by replaying generated histories (chains of pending transactions, duplicates, conflicts incl. one delivered while its rival is still confirmed for the wallet because the node has switched forks, confirms, reorgs, restarts) on the real WalletManager and the extracted model with all pending-side buckets compared key by key.",
    design_ref="DESIGN.md section 5, C09",
    note="Trusted: Coq kernel (no axioms), ExtrOcamlBasic + driver, harness (sim/hist/pending.go), hooks VerifReceiveTx and the read-only bucket dumps; node mempool empty; the two p2p look-ups of proccessReceivedTx and the 1024-block expiry are not covered. Known findings stale-pending:foreign-input, stale-pending:unseen-parent; three defects repaired (626fe73, 0bc4560, and the Rollback record).",
    technique="Coq proof (per-operation invariants of the pending set, fuel bound for conflict removal) + extracted-model differential correspondence with bucket-level dumps",
)
CHECKS["C10"] = dict(
    category="proof",
    text="Coq theorems over the same model: the reported staking/binding rows are exactly the wallet's deposit credits, once each, with amount, address/target, frozen period and height, withdrawn iff spent (relative to the row invariant, proved for connects); deposits are excluded from selection; withdrawable iff consensus's sequence lock admits the spend at the next height (staking: height+frozen+1; new binding: 2^32-2 blocks; coinbase deposits keep both locks); built withdrawals carry the least sequence consensus requires. Tied to the code by histories with staking/old+new binding deposits, withdrawals, pending versions and reorgs replayed on the real wallet and the model, and ~1900 built withdrawal transactions per quick run compared.",
    design_ref="DESIGN.md section 5, C10",
    note="Trusted: as C09. The row invariant is proved for every reachable state (C10_rows_invariant, C10_history_exact_reachable: connects and rollbacks of any depth); the consensus side is a transcription of mass-core's calcSequenceLock/SequenceLockActive; legal frozen periods (>= 61440) are not mined, small periods are written directly into scripts. Coinbase deposit maturity repaired (91b07dd).",
    technique="Coq proof (row exactness, sequence-lock equivalence) + extracted-model differential correspondence incl. built withdrawal transactions",
)
CHECKS["C03"] = dict(
    category="proof",
    text="Coq model of the keystore unlock state machine and of per-input signing over an abstract signature scheme, sighash and script engine (section hypotheses): with the right passphrase and any of the six flags signing succeeds in EVERY reachable unlock state, changes only witnesses, every input passes the engine and the manager ends locked; any other passphrase yields the passphrase error, uses no key, returns no material and leaves the state unchanged; witnesses for the repaired pending-input panic and for the known SINGLE finding. Tied to the code by ~4500 sign/export/reveal/check steps per quick run on real wallets with confirmed and pending standard/staking/binding coins, each result compared with the extracted model and independently re-verified (recomputed sighash + btcec verification + a fresh mass-core script engine per input).",
    design_ref="DESIGN.md section 5, C03",
    note="Trusted: Coq kernel (no axioms), ExtrOcamlBasic + driver, harness (sim/simx/hist), verif accessors of the unlock state; ECDSA, sighash, script engine, scrypt are law-hypotheses/primitives of mass-core, btcec, x/crypto. Concurrency (SignRawTx takes no manager lock) is out of scope. Known finding sighash-single-input-without-output; four defects repaired (6d649d4, 34102a8, a56f4eb, 30c1bd3).",
    technique="Coq proof (state-machine invariants over all reachable unlock states, frame property) + extracted-model differential correspondence + independent cryptographic re-verification",
)
CHECKS["C04"] = dict(
    category="proof",
    text="Coq theorems on top of the C13/C14 models: the wallet id and every address are functions of (mnemonic words however spaced, passphrase, network) across create, keystore export/import, reload and public-passphrase change; the three derivation routes (issuing while locked, import, signing) agree and the signing key's public key is the one the address commits to (from the group homomorphism law). Tied to the code by cross-instance runs on real wallets (all five entropy sizes, create -> addresses of both classes -> export -> second instance import -> restart -> public passphrase change -> mnemonic import with hints) comparing ids, ordered address lists and a verified signature per issued address with an independent BIP-39/BIP-32 derivation.",
    design_ref="DESIGN.md section 5, C04",
    note="Trusted: as C03 plus harness/internal/bipref (independent derivation on crypto/hmac, sha512, btcec). No canonical-spacing hypothesis since the NewSeed repair (f149051); paths meeting a short parent scalar (C14 known finding) are compared across instances only; persistence model covers entropy/seed/public-row round trips, not every record.",
    technique="Coq proof (determinism of derivation, public/private commutation) + cross-instance correspondence with an independent reference derivation",
)
CHECKS["C05"] = dict(
    category="proof",
    text="Symbolic (Dolev-Yao style) Coq proof that after any history of create/address/sign/refused attempts/export/imports/public-passphrase change/restart/remove no secret is derivable from every row ever written, every export, error and signature plus the public passphrases; the passphrase gate (sign, export, reveal, removal succeed exactly with the right passphrase) and the refusal frame (a refused attempt changes neither store nor unlock state nor caches) hold in every reachable state; witnesses for three repaired defects. Tied to the code by histories on real wallets after each step of which the raw LevelDB files, exported JSON and every error string are scanned for every secret in every encoding (raw, hex, base58 xprv, mnemonic windows, passphrases) and the stored record shapes are compared with the model. The KeystoreManager over several keystores (selection, SignHash resolution over all keystores, SignRawTx with its deferred ClearPrivKey and selection changes in between) is modelled in Keys/Manager.v: every list of wallet-level calls from fresh keystores leaves EVERY managed keystore locked and wiped, refusals frame, operations on one keystore leave the others unchanged; tied to the code by manager histories (2-3 wallets, UseWallet steered into SignRawTx through the DB wrapper) with the unlock state of every keystore observed after every step and predicted by the extracted model.",
    design_ref="DESIGN.md section 5, C05",
    note="Trusted: as C03. Symbolic model: curve relations and real cryptographic strength are outside the free algebra; random crypto keys unknown to the harness are covered by the proof only; zeroing of Go heap copies cannot be exhibited by any model. Three defects repaired (34102a8, a56f4eb, 30c1bd3).",
    technique="Coq proof (symbolic secrecy invariant over histories, gate and frame over reachable states) + raw-storage taint scan and record-shape correspondence",
)
CHECKS["C07"] = dict(
    category="proof",
    text="Coq model of the restore: discovery, batched rescan (any batch size, any number of batches) with the follower suspended, the tip check of a batch (refused and retried unless the node's block at its upper height is the block the follower is synced to), cursor pull-back on disconnect, hand-over at the tip; theorems: while the node connects, disconnects and RE-connects blocks and the follower processes or lags between batches, a wallet that becomes ready holds exactly the ledger of a wallet that watched the chain live and reports the chain specification; it cannot be selected before; a batch never abandons the task; the same for a store that already holds any number of READY wallets with their history and transactions shared with the restored one (the whole database ends as the live run of all wallets; the other wallets' credits, spent marks and reports are at every moment what they are without the import; closed counterexample for a rescan that skips transactions already recorded for another wallet; that start state is reached by any history of wallet creations, address issuing and chain events; every relevant transaction is recorded exactly once; two restores running concurrently with arbitrarily interleaved batches end with the live run of all wallets; a restore concurrent with the removal of another wallet ends with the live run of all wallets but the removed one, whose records are gone); refutation witnesses for the three repaired defects (dropped task, refused reorganisation after a rescan, the bounce before the tip check). Tied to the code by an original wallet and its twin restored from mnemonic / keystore in a second real instance while blocks and reorganisations arrive between and inside batches (DB gate parks worker or handler at chosen points), the bounce family (node leaves the follower's chain while a batch is parked and returns), 1010-1160 block chains, multi-wallet instances; model = implementation on every step, implementation = chain specification and = the original wallet at the end.",
    design_ref="DESIGN.md section 5, C07",
    note="Trusted: Coq kernel (no axioms), ExtrOcamlBasic + driver, harness (sim/hist/gate), mass-core's script-hash index (environment, written by the sim). Pending set, key derivation and gap discovery are inputs to this model (C09, C04, C12). Two defects repaired (7082cdf, 4701beb).",
    technique="Coq proof (batched rescan = live ledger for every batch size, by induction on batches using the C01 theorems) + twin correspondence on real WalletManager instances with controlled interleavings",
)
CHECKS["C08"] = dict(
    category="proof",
    text="Coq model of wallet removal (flag, phase 1 prefix deletes, phase 2 rounds with a per-round cap, removable-transaction rule decided from the wallet's own credits, status and keystore deletion) over the C01 ledger: when the last round finishes nothing mentions the wallet or its script hashes and it is not listed (any cap); every removal step leaves other wallets' credits, reports, status and addresses unchanged; survivors report the chain specification after ANY later history in which blocks may leave and come back any number of times; block processing during a removal never panics and never re-creates rows; re-import works; removal needs the passphrase and is refused while importing; four refutation witnesses for the code as found (incl. the owner look-up on the node's chain). Tied to the code by multi-wallet histories in one instance (shared transactions, pending transactions, staking/binding records), removal at random moments incl. restarts between steps and blocks/reorgs between two steps, the re-attach family (node away and back around removal steps), a raw scan of the LevelDB files for the wallet id / script hashes / addresses, survivors compared with the chain specification before, after and after a further reorg, plus directed scenarios for shared previous transactions.",
    design_ref="DESIGN.md section 5, C08",
    note="Trusted: as C07. Survivors' correctness under LATER connects/reorgs is by repaired-on-witness examples and correspondence, not a general theorem; unspent/address/game rows are views of the credits in the model (their prefix deletes are checked by the raw scan). Three defects repaired (bb52441, 07c06d4).",
    technique="Coq proof (erasure and frame invariants of the removal state machine) + correspondence on real multi-wallet histories with raw-storage scan",
)
CHECKS["C17"] = dict(
    category="proof",
    text="PARTIAL. Read-placement half: a query is a list of reads over the stores of the C01 ledger model, a schedule assigns each read a commit index; with snapshot read transactions (repaired code) the answer and the number of reads equal those at the boundary where the View began, for every store sequence and schedule, and coin selection never offers an immature or locked coin at a boundary; witnesses that the code as found mixed boundaries (two commits between the height read and the iterator made confirmations wrap and an immature coinbase selectable). Data-race half: a table (field x function x R/W x thread role x held mutexes) is regenerated from the Go AST on every run and every conflicting pair is proved to share a mutex or be ordered by the suspend/resume hand-shake (or is listed by a computed refutation). Tied to the code by the real handler committing 1-3 blocks between numbered reads of real queries through a DB wrapper (226 scheduled queries per quick run), and by race-detector runs as supporting exploration. Transaction-building calls (automatic selection with its fee / dust rounds, explicit inputs, staking, binding, fee estimate) are modelled as sequences of snapshot read transactions (Sched/Build.v): whatever commits happen between them, a returned transaction is a correct answer at one block boundary (C17_build_single_boundary; refuted for a variant that keeps earlier picks; the unchanged code's wrong REFUSALS are a recorded finding); tied to the code by placing commits of the real handler before every read transaction of ~1600 building calls and judging each result with the extracted boundary predicate.",
    design_ref="DESIGN.md section 5, C17",
    note="Partial: the Go memory model, aliasing, accesses the syntactic translator cannot see and goleveldb snapshot atomicity are outside any Gallina model; 'no coin counted twice' and balances = ledger model at a boundary are explored, not proved; data races inside mass-core's logger are recorded, not counted. Trusted: Coq kernel (no axioms), the lock-table translator, ExtrOcamlBasic + driver, harness (sched wrapper). Two defects repaired (2763853, c8404ce).",
    technique="Coq proof (scheduled-read semantics over the ledger model; lock-set discipline over a source-translated table) + read-numbered correspondence on the real wallet + race-detector exploration",
)
CHECKS["C20"] = dict(
    category="proof",
    text="Coq transition system of the follower / worker hand-shake (suspend, resume, quit, the task queue with its non-blocking pushes, the API's busy test), its queue configuration translated from the compiled code on every run: while running no reachable state is deadlocked, every maximal run processes every announced tip and finishes every accepted import or removal, the non-blocking pushes never drop a task exactly when the queue has one slot more than the busy threshold (also for every number of tasks pending at start-up), Stop terminates from every reachable state; refutation witnesses for the two repaired defects (Stop deadlock, queue created too late) and for a queue one slot short. Tied to the code by steered schedules on the real goroutines through the DB wrapper (stops at chosen moments of imports, removals, queued blocks), deterministic probes, and queue-pressure schedules (a multi-round task held in a round while the API fills the queue until it answers busy, restart with unfinished tasks): observed event sequences must be paths of the extracted model, every accepted task must finish, Stop must return with the database closed.",
    design_ref="DESIGN.md section 5, C20",
    note="Remainder: Go scheduler fairness and select randomness are nondeterminism in the model (every choice covered by the theorems, not forced in the runs); placements between two channel operations with no database call in between cannot be held from outside. Trusted: Coq kernel (no axioms), ExtrOcamlBasic + driver, harness (sched wrapper, stack-based role detection). Two defects repaired (423c8aa, 42cbcc9).",
    technique="Coq proof (invariant + ranking function over a transition system) + schedule-controlled replay on the real goroutines with trace inclusion in the extracted model",
)
NOT_YET = "not claimed yet in this round: model and correspondence under construction (see DESIGN.md section 9 for the order)"

def main():
    checks = []
    for pid in ALL:
        if pid not in CHECKS:
            continue
        c = CHECKS[pid]
        checks.append({
            "property_id": pid,
            "quick_cmd": "bin/check %s quick" % pid,
            "thorough_cmd": "bin/check %s thorough" % pid,
            "evidence_file": "/verif/evidence/%s.json" % pid,
            "replay_cmd_template": "bin/check %s quick --replay {path}" % pid,
            "engine": "coq+correspondence",
            "level_claimed": {"category": c["category"], "text": c["text"], "design_ref": c["design_ref"]},
            "level_note": c["note"],
            "technique": c["technique"],
        })
    hooks_commits = []
    hp = "/verif/MANIFEST.hooks"
    if os.path.exists(hp):
        for l in open(hp):
            if l.startswith("commit:"):
                hooks_commits.append(l.split()[1])
    m = {
        "version": 1,
        "setup_cmd": "bin/setup",
        "hooks": {
            "guard": "verif (Go build tag; add-only files *_verif.go)",
            "enable": "go build -tags verif (harness module with replace massnet.org/mass-wallet => /repo)",
            "baseline_off_cmd": "cd /repo && GOFLAGS=-mod=mod GOPROXY=off go test -vet=off -count=1 -timeout 25m ./...",
            "source_commits": hooks_commits,
            "add_only": True,
        },
        "engines": [
            {"name": "coq+correspondence", "path": "/verif/coq, /verif/harness, /verif/ocaml, /verif/lib/vcheck.py",
             "serves_properties": sorted(CHECKS.keys()),
             "kind_free_text": "Coq 8.16.1 development (models + theorems), models extracted to OCaml and run against the Go implementation on generated cases; translators regenerate coq/Gen from /repo on every run"},
        ],
        "checks": checks,
        "notes": "Every check: translators -> full .vo build of Properties/<id>.v -> forbidden-token scan -> Print Assumptions -> harness rebuilt from /repo (-tags verif) -> extracted model on the same cases -> diff + property predicate -> evidence. Known findings: /verif/KNOWN_FINDINGS.txt.",
        "not_applicable": [{"property_id": p, "reason": NOT_YET} for p in ALL if p not in CHECKS],
    }
    with open("/verif/MANIFEST.json", "w") as f:
        json.dump(m, f, indent=1)
        f.write("\n")

if __name__ == "__main__":
    main()
