"""Shared machinery of the per-property checks (see DESIGN.md section 2).

Every check does, in this order:
  1. translators: regenerate coq/Gen/*.v from /repo's current working tree
  2. Coq: full .vo build of the property's theorem file and everything it needs,
     forbidden-token scan, Print Assumptions of every property theorem
  3. Go harness rebuilt from /repo (build tag verif) -> implementation observations
  4. extracted model (OCaml) on the same cases -> model observations
  5. diff + property predicate -> verdict, evidence file
"""
import fcntl
import glob
import hashlib
import json
import os
import re
import shutil
import subprocess
import sys
import time

# VERIF_ROOT: a private clone of this tree (builders work in clones; registered commands always use /verif)
ROOT = os.environ.get("VERIF_ROOT", "/verif")
# VERIF_REPO: run the checks against a scratch worktree of the repository (mutation testing)
# instead of /repo; build outputs then go to a separate directory.
REPO = os.environ.get("VERIF_REPO", "/repo").rstrip("/") or "/repo"
BUILD = os.path.join(ROOT, "build") if REPO == "/repo" else os.path.join(ROOT, "build", "alt-" + re.sub(r"[^A-Za-z0-9]+", "_", REPO).strip("_"))
COQ = os.path.join(ROOT, "coq")
HARNESS = os.path.join(ROOT, "harness")
BIN = os.path.join(BUILD, "bin")
REPLAYS = os.path.join(ROOT, "replays") if REPO == "/repo" else os.path.join(BUILD, "replays")
EVIDENCE = os.path.join(ROOT, "evidence") if REPO == "/repo" else os.path.join(BUILD, "evidence")
NCPU = os.cpu_count() or 4

GOENV = {
    "GOFLAGS": "-mod=mod",
    "GOPROXY": "off",
    "GOSUMDB": "off",
    "GOTOOLCHAIN": "local",
    "CGO_ENABLED": "1",
}

STD_AXIOMS_ALLOWED = {
    # axioms declared by Coq's standard library itself; named in the trusted base when they occur
    "functional_extensionality_dep", "proof_irrelevance", "classic", "JMeq_eq",
    "Eqdep.Eq_rect_eq.eq_rect_eq", "eq_rect_eq", "propositional_extensionality",
    "ClassicalDedekindReals.sig_forall_dec", "ClassicalDedekindReals.sig_not_dec",
    "constructive_indefinite_description", "constructive_definite_description",
}

FORBIDDEN = re.compile(
    r"\b(Admitted|admit|Axiom|Axioms|Parameter|Parameters|Conjecture|Conjectures|Admit Obligations)\b"
    r"|Unset\s+Guard|bypass_check|type-in-type|impredicative-set|Unset\s+Positivity|Unset\s+Universe")


def env():
    e = dict(os.environ)
    e.update(GOENV)
    return e


def sh(cmd, timeout=600, cwd=None, stdin=None, check=False, env_extra=None):
    """Run a command (list or shell string); returns (rc, stdout, stderr)."""
    e = env()
    if env_extra:
        e.update(env_extra)
    try:
        p = subprocess.run(cmd, shell=isinstance(cmd, str), cwd=cwd, input=stdin,
                           stdout=subprocess.PIPE, stderr=subprocess.PIPE,
                           timeout=timeout, env=e, text=True, errors="replace")
        rc, out, err = p.returncode, p.stdout, p.stderr
    except subprocess.TimeoutExpired as t:
        rc, out, err = 124, (t.stdout or b"").decode("utf8", "replace") if isinstance(t.stdout, bytes) else (t.stdout or ""), "TIMEOUT after %ss" % timeout
    if check and rc != 0:
        raise RuntimeError("command failed (%s): %s\n%s\n%s" % (rc, cmd, out[-3000:], err[-3000:]))
    return rc, out, err


class Lock:
    """Serialises builds between concurrently running checks."""

    def __init__(self, name="build"):
        os.makedirs(BUILD, exist_ok=True)
        self.path = os.path.join(BUILD, "." + name + ".lock")

    def __enter__(self):
        self.f = open(self.path, "w")
        fcntl.flock(self.f, fcntl.LOCK_EX)
        return self

    def __exit__(self, *a):
        fcntl.flock(self.f, fcntl.LOCK_UN)
        self.f.close()


class GlobalLock(Lock):
    """Lock shared by runs against different repositories (they share /verif/harness/go.mod)."""

    def __init__(self, name="build"):
        os.makedirs(os.path.join(ROOT, "build"), exist_ok=True)
        self.path = os.path.join(ROOT, "build", "." + name + ".glock")


def write_if_changed(path, content):
    old = None
    if os.path.exists(path):
        with open(path, "r", errors="replace") as f:
            old = f.read()
    if old != content:
        os.makedirs(os.path.dirname(path), exist_ok=True)
        with open(path, "w") as f:
            f.write(content)
        return True
    return False


# ----------------------------------------------------------------------------- Go harness

def harness_gomod():
    """go.mod of the harness = REPO's requirements + replace massnet.org/mass-wallet => REPO.
    Written outside the module directory and passed with -modfile, so that runs against different
    repositories (VERIF_REPO) never share it; harness/go.mod only marks the module root."""
    with open(os.path.join(REPO, "go.mod")) as f:
        src = f.read()
    m = re.search(r"require \((.*?)\n\)", src, re.S)
    reqs = m.group(1) if m else ""
    reps = "\n".join(l for l in src.splitlines() if l.startswith("replace "))
    mod = ("module verifharness\n\ngo 1.13\n\nrequire (%s\n\tmassnet.org/mass-wallet v0.0.0\n)\n\n"
           "replace massnet.org/mass-wallet => %s\n%s\n" % (reqs, REPO, reps))
    d = os.path.join(BUILD, "gomod")
    os.makedirs(d, exist_ok=True)
    write_if_changed(os.path.join(d, "go.mod"), mod)
    sums = set()
    for p in (os.path.join(REPO, "go.sum"), os.path.join(HARNESS, "go.sum.extra"), os.path.join(d, "go.sum")):
        if os.path.exists(p):
            with open(p) as f:
                sums.update(l for l in f.read().splitlines() if l.strip())
    write_if_changed(os.path.join(d, "go.sum"), "\n".join(sorted(sums)) + "\n")
    marker = os.path.join(HARNESS, "go.mod")
    if not os.path.exists(marker):
        write_if_changed(marker, mod.replace("=> %s" % REPO, "=> /repo"))
        shutil.copy(os.path.join(d, "go.sum"), os.path.join(HARNESS, "go.sum"))
    return os.path.join(d, "go.mod")


# Coverage tie: harness commands are built with Go's coverage instrumentation of the repository's packages
# (`go build -cover -coverpkg=<massnet.org/mass-wallet packages the command links>`), every process a check
# starts writes its counters to $GOCOVERDIR (set by Check), and Check.finish reports which statements of the
# property's anchor files / modelled functions the correspondence run actually executed (evidence key
# impl_coverage).  VERIF_COVER=0 switches it off.  It never decides a verdict.
# OFF by default, and never used for a verdict: `go build -cover` compiles the instrumented files of a module whose
# go.mod says go < 1.22 with the CURRENT loop-variable semantics (a closure capturing a `for ... range` variable sees a
# fresh variable per iteration), i.e. the instrumented binary is not the program under test (found with seed C04f, whose
# defect is exactly such a capture: it vanished in the instrumented harness). Coverage is measured by separate runs
# (`bin/cover-report --run`, VERIF_COVER=1), whose verdicts are discarded.
COVER = os.environ.get("VERIF_COVER", "0") == "1"
REPO_MODULE = "massnet.org/mass-wallet"


def go_build(names, race=False, cover=None):
    """Build harness commands from /repo's current working tree with the verif tag."""
    if cover is None:
        cover = COVER and not race
    with Lock("go"):
        modfile = harness_gomod()
        os.makedirs(BIN, exist_ok=True)
        outs = []
        for n in names:
            out = os.path.join(BIN, n + ("-race" if race else "") + ("-cover" if cover else ""))
            extra = ["-race"] if race else []
            if cover:
                rc, o, e = sh(["go", "list", "-modfile=" + modfile, "-tags", "verif", "-deps", "./cmd/" + n], timeout=300, cwd=HARNESS)
                pk = [l for l in o.split() if l == REPO_MODULE or l.startswith(REPO_MODULE + "/")]
                if rc == 0 and pk:
                    # the main package must be instrumented too, otherwise no counters are written at exit
                    extra += ["-cover", "-coverpkg=" + ",".join(pk + ["verifharness/cmd/" + n])]
            cmd = ["go", "build", "-modfile=" + modfile, "-tags", "verif"] + extra + ["-o", out, "./cmd/" + n]
            rc, o, e = sh(cmd, timeout=1500, cwd=HARNESS)
            if rc != 0:
                return None, (o + e)
            outs.append(out)
        return outs, ""


def _load_modelled():
    p = os.path.join(ROOT, "corpus", "modelled_functions.json")
    try:
        with open(p) as f:
            return json.load(f)
    except Exception:
        return {}


def impl_coverage(pid, covdir):
    """Statement coverage of the repository code reached by this run's harness processes.
    Returns a dict for the evidence file, or {"unavailable": reason}."""
    try:
        if not os.path.isdir(covdir) or not any(n.startswith("covmeta") for n in os.listdir(covdir)):
            return {"unavailable": "no coverage counters written (harness not run, or built without -cover)"}
        prof = os.path.join(covdir, "profile.txt")
        rc, o, e = sh(["go", "tool", "covdata", "textfmt", "-i=" + covdir, "-o=" + prof], timeout=600)
        if rc != 0:
            return {"unavailable": "go tool covdata textfmt: " + (e or o)[-300:]}
        rc, fo, e = sh(["go", "tool", "covdata", "func", "-i=" + covdir], timeout=600)
        if rc != 0:
            return {"unavailable": "go tool covdata func: " + (e or fo)[-300:]}
        # function start lines per file
        starts = {}
        for l in fo.splitlines():
            m = re.match(r"(\S+?):(\d+):\s+(\S+)\s+([0-9.]+)%", l)
            if not m or not m.group(1).startswith(REPO_MODULE + "/"):
                continue
            f = m.group(1)[len(REPO_MODULE) + 1:]
            starts.setdefault(f, []).append((int(m.group(2)), m.group(3).split(".")[-1]))
        for f in starts:
            starts[f].sort()
        blocks = {}   # (file, func) -> [total stmts, covered stmts, [uncovered ranges]]
        with open(prof) as fh:
            for l in fh:
                m = re.match(r"(\S+?):(\d+)\.\d+,(\d+)\.\d+ (\d+) (\d+)", l)
                if not m or not m.group(1).startswith(REPO_MODULE + "/"):
                    continue
                f = m.group(1)[len(REPO_MODULE) + 1:]
                a, b, n, c = int(m.group(2)), int(m.group(3)), int(m.group(4)), int(m.group(5))
                fn = "?"
                for ln, name in starts.get(f, []):
                    if ln <= a:
                        fn = name
                    else:
                        break
                t = blocks.setdefault((f, fn), [0, 0, []])
                t[0] += n
                if c > 0:
                    t[1] += n
                else:
                    t[2].append("%d-%d" % (a, b))
        spec = _load_modelled().get(pid, {})
        files = spec.get("anchor_files", [])
        funcs = spec.get("modelled", [])      # "file.go:Func"
        res = {"tool": "go build -cover -coverpkg=<repository packages>; go tool covdata (statement blocks, mode set)"}
        per_file = {}
        for (f, fn), (tot, cov, unc) in blocks.items():
            if f in files and not f.endswith("_verif.go"):
                t = per_file.setdefault(f, [0, 0])
                t[0] += tot
                t[1] += cov
        res["anchor_files"] = {f: {"statements": t[0], "covered": t[1]} for f, t in sorted(per_file.items())}
        tot = sum(t[0] for t in per_file.values())
        cov = sum(t[1] for t in per_file.values())
        res["anchor_files_statements"] = tot
        res["anchor_files_covered"] = cov
        mf = {}
        missing = []
        for spec_f in funcs:
            f, fn = spec_f.rsplit(":", 1)
            t = blocks.get((f, fn))
            if t is None:
                if f in starts:
                    missing.append(spec_f)       # file linked but function not found (renamed / removed)
                continue
            mf[spec_f] = {"statements": t[0], "covered": t[1], "uncovered_lines": t[2][:12]}
        res["modelled_functions"] = mf
        res["modelled_functions_statements"] = sum(v["statements"] for v in mf.values())
        res["modelled_functions_covered"] = sum(v["covered"] for v in mf.values())
        res["modelled_functions_never_reached"] = sorted(k for k, v in mf.items() if v["covered"] == 0)
        if missing:
            res["modelled_functions_not_found_in_source"] = missing
        return res
    except Exception as ex:  # never let the coverage report decide a verdict
        return {"unavailable": "exception: %r" % (ex,)}



# ----------------------------------------------------------------------------- model/source drift

def _fingerprint_exe():
    exe = os.path.join(ROOT, "build", "bin", "fingerprint")
    src = os.path.join(ROOT, "translate", "fingerprint", "main.go")
    if not os.path.exists(exe) or os.path.getmtime(exe) < os.path.getmtime(src):
        os.makedirs(os.path.dirname(exe), exist_ok=True)
        rc, o, e = sh(["go", "build", "-o", exe, "main.go"], timeout=300, cwd=os.path.dirname(src), env_extra={"GO111MODULE": "off"})
        if rc != 0:
            return None
    return exe


def fingerprints(specs):
    """{ "file.go:Func": sha16 | "-" } of the current source of REPO (translate/fingerprint)."""
    exe = _fingerprint_exe()
    if exe is None:
        return None
    rc, o, e = sh([exe, REPO], timeout=120, stdin="\n".join(specs) + "\n")
    if rc != 0:
        return None
    return dict(l.split("\t") for l in o.splitlines() if "\t" in l)


def model_drift(pid):
    """Modelled functions of the property (corpus/modelled_functions.json) whose Go source differs from the
    fingerprint pinned when the model was last reviewed against it (corpus/model_fingerprints.json; comments and
    formatting do not count).  Drift is not a verdict: the checks use it to look harder (escalated case counts,
    fault plans and schedules directed at the changed functions) and record it in the evidence."""
    try:
        spec = _load_modelled().get(pid, {})
        specs = spec.get("modelled", []) if isinstance(spec, dict) else []
        with open(os.path.join(ROOT, "corpus", "model_fingerprints.json")) as f:
            pinned = json.load(f)
        now = fingerprints(specs)
        if now is None:
            return []
        return sorted(k for k in specs if k in pinned and now.get(k, "-") != pinned[k])
    except Exception:
        return []

# ----------------------------------------------------------------------------- translators

TRANSLATORS = []  # (relative output path under coq/Gen, function returning content or raising)


def translator(relpath):
    def deco(fn):
        TRANSLATORS.append((relpath, fn))
        return fn
    return deco


@translator("Consts.v")
def _gen_consts():
    outs, err = go_build(["gen"])
    if outs is None:
        raise RuntimeError("harness/cmd/gen does not build against /repo:\n" + err[-4000:])
    rc, o, e = sh([outs[0]], timeout=60)
    if rc != 0 or "Definition MaxMass" not in o:
        raise RuntimeError("gen failed: " + e[-2000:])
    return o


@translator("Locks.v")
def _gen_locks():
    """field x function x R/W x held-locks table (translate/locks, go/ast + go/types over the Go source)."""
    rc, o, e = sh(["go", "run", os.path.join(ROOT, "translate/locks/main.go"), REPO], timeout=300,
                  cwd=os.path.join(ROOT, "translate/locks"), env_extra={"GO111MODULE": "off"})
    if rc != 0 or "Definition lock_table" not in o:
        raise RuntimeError("translate/locks failed: " + (e or o)[-1500:])
    return o


@translator("Wordlist.v")
def _gen_wordlist():
    """BIP-39 English word list, read with a tokenizer from wordlists/english.go."""
    p = os.path.join(REPO, "masswallet/keystore/wordlists/english.go")
    with open(p, encoding="utf8") as f:
        src = f.read()
    m = re.search(r"var\s+english\s*=\s*`([^`]*)`", src, re.S)
    words = None
    if m:
        words = m.group(1).split()
    else:
        m = re.search(r"\[\]string\s*\{(.*?)\n\}", src, re.S)
        if m:
            words = re.findall(r'"([^"]*)"', m.group(1))
    if not words:
        raise RuntimeError("translator: cannot find the English word list in " + p)
    digest = hashlib.sha256(("\n".join(words) + "\n").encode()).hexdigest()
    lines = ["(* GENERATED on every run from masswallet/keystore/wordlists/english.go. Do not edit.",
             "   sha256 of the newline-joined list: %s *)" % digest,
             "From Coq Require Import List ZArith.", "Import ListNotations.", "Open Scope Z_scope.",
             "Definition wordlist : list (list Z) := ["]
    enc = []
    for w in words:
        enc.append("  [" + "; ".join(str(b) for b in w.encode("utf8")) + "]")
    lines.append(";\n".join(enc))
    lines.append("].")
    return "\n".join(lines) + "\n"


def run_translators(only=None):
    """Returns list of (relpath, error) for translators that failed."""
    failed = []
    for rel, fn in TRANSLATORS:
        if only is not None and rel not in only:
            continue
        try:
            content = fn()
            write_if_changed(os.path.join(COQ, "Gen", rel), content)
        except Exception as ex:  # a translator that cannot find its anchor fails the check
            failed.append((rel, str(ex)))
    return failed


# ----------------------------------------------------------------------------- Coq

def coq_files():
    fs = []
    for d, _, names in os.walk(COQ):
        if os.path.basename(d) == "Extract":
            continue
        for n in names:
            if n.endswith(".v"):
                fs.append(os.path.relpath(os.path.join(d, n), COQ))
    return sorted(fs)


def coq_prepare():
    proj = "-Q . MW\n" + "\n".join(coq_files()) + "\n"
    changed = write_if_changed(os.path.join(COQ, "_CoqProject"), proj)
    if changed or not os.path.exists(os.path.join(COQ, "Makefile")):
        sh("coq_makefile -f _CoqProject -o Makefile", cwd=COQ, check=True)


def coq_make(targets=None, timeout=3000):
    """Full .vo build (never -vos). targets: list of .vo paths relative to coq/, or None for all."""
    with GlobalLock("coq"):
        coq_prepare()
        # every coqc runs under a 24 GB address-space limit: a diverging tactic must not take the machine down
        cmd = "ulimit -v 25000000; make -j%d %s" % (NCPU, " ".join(targets or []))
        t0 = time.time()
        rc, o, e = sh(cmd, timeout=timeout, cwd=COQ)
        return rc == 0, o + "\n" + e, time.time() - t0


def forbidden_scan():
    hits = []
    for rel in coq_files() + [os.path.join("Extract", os.path.basename(p)) for p in glob.glob(os.path.join(COQ, "Extract", "*.v"))]:
        with open(os.path.join(COQ, rel), errors="replace") as f:
            txt = f.read()
        # strip comments (nested) before scanning
        out, depth, i = [], 0, 0
        while i < len(txt):
            if txt.startswith("(*", i):
                depth += 1
                i += 2
            elif txt.startswith("*)", i) and depth > 0:
                depth -= 1
                i += 2
            else:
                if depth == 0:
                    out.append(txt[i])
                i += 1
        code = "".join(out)
        for m in FORBIDDEN.finditer(code):
            hits.append("%s: %s" % (rel, m.group(0)))
    return hits


def property_theorems(pid):
    p = os.path.join(COQ, "Properties", pid + ".v")
    with open(p) as f:
        txt = f.read()
    return re.findall(r"^\s*(?:Theorem|Lemma|Corollary)\s+([A-Za-z0-9_']+)", txt, re.M)


def property_pa_order(pid):
    p = os.path.join(COQ, "Properties", pid + ".v")
    with open(p) as f:
        txt = f.read()
    return re.findall(r"^\s*Print Assumptions\s+([A-Za-z0-9_']+)\s*\.", txt, re.M)


def print_assumptions(pid):
    """Re-compiles Properties/<pid>.v to a scratch .vo to collect its Print Assumptions output.
    Returns (ok, {theorem: [axioms]}, raw)."""
    scratch = os.path.join(BUILD, "pa")
    os.makedirs(scratch, exist_ok=True)
    src = os.path.join(COQ, "Properties", pid + ".v")
    cmd = ["coqc", "-Q", COQ, "MW", "-o", os.path.join(scratch, pid + ".vo"), src]
    rc, o, e = sh(cmd, timeout=900, cwd=scratch)
    raw = o + e
    if rc != 0:
        return False, {}, raw
    blocks = re.split(r"(?=^Closed under the global context|^Axioms:)", o, flags=re.M)
    res = []
    for b in blocks:
        if b.startswith("Closed under the global context"):
            res.append([])
        elif b.startswith("Axioms:"):
            names = re.findall(r"^([A-Za-z_][A-Za-z0-9_.']*)\s*:", b[len("Axioms:"):], re.M)
            res.append(names)
    order = property_pa_order(pid)
    got = {}
    for i, t in enumerate(order):
        if i < len(res):
            got[t] = res[i]
    m = {}
    for t in property_theorems(pid):
        m[t] = got.get(t, ["<no Print Assumptions output>"])
    return True, m, raw


# ----------------------------------------------------------------------------- OCaml model

def _sha_tree(paths):
    h = hashlib.sha256()
    for p in sorted(paths):
        h.update(p.encode())
        with open(p, "rb") as f:
            h.update(f.read())
    return h.hexdigest()


def ocaml_build(pid):
    """Extracts coq/Extract/<pid>.v (ExtrOcamlBasic only) and links it with ocaml/<pid>/driver.ml."""
    with Lock("ocaml-" + pid):
        d = os.path.join(BUILD, "ocaml", pid)
        os.makedirs(d, exist_ok=True)
        srcs = [os.path.join(COQ, f) for f in coq_files()] + [os.path.join(COQ, "Extract", pid + ".v")] + \
            glob.glob(os.path.join(ROOT, "ocaml", "common", "*.ml")) + glob.glob(os.path.join(ROOT, "ocaml", pid, "*.ml"))
        stamp = _sha_tree(srcs)
        sp = os.path.join(d, "stamp")
        exe = os.path.join(d, "model")
        if os.path.exists(sp) and os.path.exists(exe) and open(sp).read() == stamp:
            return exe, ""
        rc, o, e = sh(["coqc", "-Q", COQ, "MW", "-o", os.path.join(d, pid + ".vo"),
                       os.path.join(COQ, "Extract", pid + ".v")], timeout=900, cwd=d)
        if rc != 0:
            return None, o + e
        parts = [os.path.join(ROOT, "ocaml", "common", "prelude.ml"), os.path.join(d, "model.ml"),
                 os.path.join(ROOT, "ocaml", "common", "conv.ml")] + \
            sorted(p for p in glob.glob(os.path.join(ROOT, "ocaml", pid, "*.ml")))
        with open(os.path.join(d, "main.ml"), "w") as out:
            for p in parts:
                out.write("# 1 \"%s\"\n" % p)
                out.write(open(p).read())
                out.write("\n")
        rc, o, e = sh(["ocamlfind", "ocamlopt", "-w", "-a", "-O3" if False else "-inline", "100", "-package", "zarith,str,unix",
                       "-linkpkg", "main.ml", "-o", "model"], timeout=900, cwd=d)
        if rc != 0:
            return None, o + e
        with open(sp, "w") as f:
            f.write(stamp)
        return exe, ""


# ----------------------------------------------------------------------------- findings

def known_findings(pid):
    """Lines of KNOWN_FINDINGS.txt:  known: property=<id> key=<key> <text>   |   fixed: property=<id> <commit> <text>"""
    res = {}
    p = os.path.join(ROOT, "KNOWN_FINDINGS.txt")
    if not os.path.exists(p):
        return res
    for l in open(p):
        l = l.strip()
        m = re.match(r"known:\s+property=(\S+)\s+key=(\S+)\s+(.*)", l)
        if m and m.group(1) == pid:
            res[m.group(2)] = m.group(3)
    return res


# ----------------------------------------------------------------------------- the check object

class Check:
    def __init__(self, pid, tier, level="proof"):
        self.pid = pid
        self.tier = tier
        self.level = level
        self.seed = int(os.environ.get("VERIF_SEED", "1") or "1")
        self.t0 = time.time()
        self.violations = []       # (key, description, replay object)
        self.known_hits = {}       # key -> description
        self.notes = []
        self.coverage = {}
        self.assumptions = []
        self.known = known_findings(pid)
        self.drift = model_drift(pid)          # modelled Go functions whose source changed since the pin
        self.escalated = bool(self.drift) and tier == "quick"
        os.makedirs(REPLAYS, exist_ok=True)
        os.makedirs(EVIDENCE, exist_ok=True)
        self.workdir = os.path.join(BUILD, "work", "%s-%s-%d" % (pid, tier, os.getpid()))
        shutil.rmtree(self.workdir, ignore_errors=True)
        os.makedirs(self.workdir)
        # coverage counters of every harness process this check starts (see impl_coverage)
        self.covdir = os.path.join(self.workdir, "cov")
        os.makedirs(self.covdir)
        if COVER:
            os.environ["GOCOVERDIR"] = self.covdir

    def log(self, *a):
        print("[%s %s %6.1fs]" % (self.pid, self.tier, time.time() - self.t0), *a, flush=True)

    # -- step 1+2: translators and proofs
    def proofs(self, gen_only=None, extra_targets=()):
        """Regenerates Gen, builds Properties/<pid>.vo fully, scans, collects Print Assumptions.
        Records obligations/discharged in coverage. Returns True when every obligation is discharged."""
        failed = run_translators(gen_only)
        thms = property_theorems(self.pid)
        self.coverage["obligations"] = len(thms)
        self.coverage["theorems"] = thms
        self.coverage["checker_cmd"] = "cd /verif/coq && coq_makefile -f _CoqProject -o Makefile && make Properties/%s.vo  (coqc 8.16.1, full .vo build) ; coqc -Q /verif/coq MW Properties/%s.v for Print Assumptions" % (self.pid, self.pid)
        if failed:
            self.coverage["discharged"] = 0
            self.proof_break = "translator failed: " + "; ".join("%s: %s" % f for f in failed)
            return False
        ok, log, secs = coq_make(["Properties/%s.vo" % self.pid] + list(extra_targets))
        self.coverage["coq_build_s"] = round(secs, 1)
        if not ok:
            m = re.findall(r'File "([^"]+)", line (\d+)[^\n]*\n(?:[^\n]*\n){0,6}?Error:?([^\n]*(?:\n[^\n]+){0,4})', log)
            self.proof_break = "Coq build failed: " + ("; ".join("%s:%s %s" % (a, b, c.strip()[:300]) for a, b, c in m[:3]) or log[-1500:])
            self.coverage["discharged"] = 0
            return False
        hits = forbidden_scan()
        if hits:
            self.proof_break = "forbidden tokens in the development: " + ", ".join(hits[:10])
            self.coverage["discharged"] = 0
            return False
        ok, pa, raw = print_assumptions(self.pid)
        if not ok:
            self.proof_break = "Properties/%s.v does not compile: %s" % (self.pid, raw[-1500:])
            self.coverage["discharged"] = 0
            return False
        bad = {}
        used = set()
        for t, axs in pa.items():
            for a in axs:
                short = a.split(".")[-1]
                if a in STD_AXIOMS_ALLOWED or short in STD_AXIOMS_ALLOWED:
                    used.add(a)
                else:
                    bad.setdefault(t, []).append(a)
        self.coverage["print_assumptions"] = {t: (axs or "Closed under the global context") for t, axs in pa.items()}
        if bad:
            self.proof_break = "theorems depend on non-standard axioms: %s" % bad
            self.coverage["discharged"] = len(thms) - len(bad)
            return False
        self.coverage["discharged"] = len(thms)
        self.std_axioms_used = sorted(used)
        self.proof_break = None
        return True

    # -- verdict helpers
    def violation(self, key, desc, replay):
        """A failing input. Suppressed only by a KNOWN_FINDINGS entry with the same key."""
        if key in self.known:
            if key not in self.known_hits:
                self.known_hits[key] = (desc, replay)
            return False
        self.violations.append((key, desc, replay))
        return True

    def finish(self, trusted_base, explanation=None, no_input_break=None):
        """no_input_break: text naming the theorem/correspondence that no longer checks when no failing input was found."""
        wall = time.time() - self.t0
        rc = 0
        for key, (desc, _) in sorted(self.known_hits.items()):
            print("KNOWN-FINDING: property=%s %s [%s]" % (self.pid, self.known[key], key))
        replay_path = os.path.join(REPLAYS, "%s-%s-%d.json" % (self.pid, self.tier, self.seed))
        if self.violations:
            rc = 1
            with open(replay_path, "w") as f:
                json.dump({"property": self.pid, "tier": self.tier, "seed": self.seed,
                           "violations": [{"key": k, "what": d, "replay": r} for k, d, r in self.violations[:50]]}, f, indent=1)
            for k, d, _ in self.violations[:5]:
                self.log("violation:", k, d)
            print("VIOLATION property=%s replay=%s" % (self.pid, replay_path))
        elif no_input_break:
            rc = 1
            with open(replay_path, "w") as f:
                json.dump({"property": self.pid, "tier": self.tier, "seed": self.seed,
                           "no_failing_input_found": True, "broken": no_input_break}, f, indent=1)
            self.log("broken obligation:", no_input_break[:2000])
            print("VIOLATION property=%s replay=%s no-failing-input-found" % (self.pid, replay_path))
        cov = dict(self.coverage)
        cov.setdefault("trusted_base", trusted_base)
        evdir = EVIDENCE
        if not COVER:
            # measured by a separate instrumented run (bin/cover-report --run); the last measurement is quoted
            try:
                with open(os.path.join(ROOT, "docs", "coverage_summary.json")) as f:
                    cov["impl_coverage"] = dict(json.load(f).get(self.pid, {}),
                                                measured_by="bin/cover-report --run (separate -cover build; this run's binaries are uninstrumented)")
            except Exception:
                pass
        if COVER:
            evdir = os.path.join(BUILD, "cov", "evidence")     # a reporting run: never the committed evidence
            os.makedirs(evdir, exist_ok=True)
            cov["impl_coverage"] = impl_coverage(self.pid, self.covdir)
            try:   # keep the merged counters of the last run per property and tier for bin/cover-report
                keep = os.path.join(BUILD, "cov", "%s-%s" % (self.pid, self.tier))
                shutil.rmtree(keep, ignore_errors=True)
                if "unavailable" not in cov["impl_coverage"]:
                    os.makedirs(keep)
                    sh(["go", "tool", "covdata", "merge", "-i=" + self.covdir, "-o=" + keep], timeout=600)
            except Exception:
                pass
        if explanation:
            cov["explanation"] = explanation
        cov["known_findings_reconfirmed"] = sorted(self.known_hits.keys())
        cov["model_source_drift"] = self.drift
        ev = {"property_id": self.pid, "tier": self.tier, "seed": self.seed, "level": self.level,
              "coverage": cov, "assumptions": self.assumptions, "wall_s": round(wall, 2),
              "violations": len(self.violations) + (1 if (no_input_break and not self.violations) else 0)}
        with open(os.path.join(evdir, self.pid + ".json"), "w") as f:
            json.dump(ev, f, indent=1, default=str)
        shutil.rmtree(self.workdir, ignore_errors=True)
        self.log("done rc=%d wall=%.1fs" % (rc, wall))
        return rc


def read_lines(path):
    with open(path, errors="replace") as f:
        return f.read().splitlines()
