(* Keys/Derive.v — the wallet's key tree on top of Codec/Bip32.v (the model of hdkeychain) and
   Codec/Bip39.v (the model of mnemonic.go): what create / import-mnemonic / import-keystore
   compute from (entropy | mnemonic, private passphrase, network), the account id, the address of
   every (branch, index), the three derivation routes the code uses for one address, and the
   persistence round trips (secretbox rows) that export / import / restart / public-passphrase
   change rely on. Definitions only; proofs in DeriveProofs.v.

   manager.go createManagerKeyScope: m / 44' / coin' / account'   (account = 1 = WalletUsage)
   util.go pubKeyToAccountID:        id = bech32("ac", 15, hash160(compressed account public key))
   script.go newWitnessScriptAddressForBtcec: redeem = OP_1 <pub33> OP_1 OP_CHECKMULTISIG,
                                               script hash = sha256(redeem) *)
From Coq Require Import List ZArith Bool.
Import ListNotations.
Require Import MW.Codec.Bip32.
Require MW.Codec.Bip39.
Require Import MW.Keys.Unlock.
Open Scope Z_scope.

Definition purpose44 : Z := 44.
Definition wallet_account : Z := 1.         (* keystore.WalletUsage *)

(* txscript.MultiSigScript([pub], 1): OP_1 (0x51), push 33 bytes (0x21), pub, OP_1, OP_CHECKMULTISIG (0xae) *)
Definition redeem_script (pub33 : bytes) : bytes := [81; 33] ++ pub33 ++ [81; 174].

Section Derive.
  Variable hmac512 : bytes -> bytes -> bytes.
  Variable point : Type.
  Variable smulG : Z -> point.
  Variable padd : point -> point -> point.
  Variable ser_P : point -> bytes.
  Variable parse_pub : bytes -> option point.
  Variable coord_zero : point -> bool.
  Variable hash160 : bytes -> bytes.
  Variable sha256 : bytes -> bytes.

  Local Notation child := (child hmac512 point smulG padd ser_P parse_pub coord_zero hash160).
  Local Notation neuter := (neuter point smulG ser_P).
  Local Notation new_master := (new_master hmac512).
  Local Notation derive_coin_type_key := (derive_coin_type_key hmac512 point smulG padd ser_P parse_pub coord_zero hash160).
  Local Notation derive_account_key := (derive_account_key hmac512 point smulG padd ser_P parse_pub coord_zero hash160).
  Local Notation api_pub := (api_pub point smulG ser_P parse_pub).

  (* hdkeychain.NewMaster(seed) then deriveCoinTypeKey, deriveAccountKey: the private account key *)
  Definition account_key (ver seed : bytes) (coin : Z) : Outcome ExtendedKey :=
    bind (new_master ver seed) (fun root =>
    bind (derive_coin_type_key root purpose44 coin) (fun c =>
    derive_account_key c wallet_account)).

  (* ECPubKey().SerializeCompressed() of a key; EPubKeyParse = btcec refused the bytes *)
  Definition pub33_of (k : ExtendedKey) : Outcome bytes :=
    match api_pub k with Some b => Ok b | None => Err EPubKeyParse end.

  (* the 20 bytes the wallet id encodes *)
  Definition account_id_of (acct : ExtendedKey) : Outcome bytes :=
    bind (neuter acct) (fun ap => bind (pub33_of ap) (fun b => Ok (hash160 b))).

  Definition script_hash_of_pub (pub33 : bytes) : bytes := sha256 (redeem_script pub33).

  (* route 1 — NewAddress on a loaded (locked) manager: nextAddresses uses acctKeyPub *)
  Definition pub_route_issue (acct_pub : ExtendedKey) (b i : Z) : Outcome bytes :=
    bind (child acct_pub b) (fun kb => bind (child kb i) pub33_of).
  (* route 2 — import (createManagerKeyScope): private branch key, neutered, public child *)
  Definition pub_route_import (acct : ExtendedKey) (b i : Z) : Outcome bytes :=
    bind (child acct b) (fun kb => bind (neuter kb) (fun kbp => bind (child kbp i) pub33_of)).
  (* route 3 — signing (getPrivKeyBtcec): private branch key, private child; the key itself *)
  Definition priv_route_sign (acct : ExtendedKey) (b i : Z) : Outcome ExtendedKey :=
    bind (child acct b) (fun kb => child kb i).
  (* the compressed public key of the private key used to sign *)
  Definition pub_of_sign_key (acct : ExtendedKey) (b i : Z) : Outcome bytes :=
    bind (priv_route_sign acct b i) (fun k => bind (neuter k) pub33_of).

  (* the wallet as a function of the seed: id bytes and the script hash of every (branch, index) *)
  Definition wallet_id (ver seed : bytes) (coin : Z) : Outcome bytes :=
    bind (account_key ver seed coin) account_id_of.
  Definition wallet_addr (ver seed : bytes) (coin : Z) (b i : Z) : Outcome bytes :=
    bind (account_key ver seed coin) (fun acct =>
    bind (neuter acct) (fun ap =>
    bind (pub_route_issue ap b i) (fun pb => Ok (script_hash_of_pub pb)))).

  (* ---------------------------------------------------------------- from entropy / mnemonic *)
  Variable H : bytes -> bytes.                              (* SHA-256 (mnemonic checksum) *)
  Variable PBKDF2 : bytes -> bytes -> Z -> Z -> bytes.

  (* keystore.create: generateSeed = NewMnemonic(entropy), NewSeed(mnemonic, privpass) *)
  Definition create_seed (entropy pass : bytes) : Bip39.outcome (bytes * bytes) :=
    match Bip39.new_mnemonic H entropy with
    | Bip39.Ok m => Bip39.Ok (m, Bip39.new_seed PBKDF2 m pass)
    | Bip39.Err e => Bip39.Err e
    | Bip39.Panic => Bip39.Panic
    end.
  (* ImportKeystoreWithMnemonic: EntropyFromMnemonic(m) (stored), NewSeedWithErrorChecking(m, pass) *)
  Definition import_mnemonic_seed (m pass : bytes) : Bip39.outcome (bytes * bytes) :=
    match Bip39.entropy_from_mnemonic H m with
    | Bip39.Ok e =>
        match Bip39.new_seed_with_error_checking H PBKDF2 m pass with
        | Bip39.Ok sd => Bip39.Ok (e, sd)
        | Bip39.Err x => Bip39.Err x
        | Bip39.Panic => Bip39.Panic
        end
    | Bip39.Err x => Bip39.Err x
    | Bip39.Panic => Bip39.Panic
    end.

  (* ---------------------------------------------------------------- persistence (snacl rows) *)
  Variable kdf : bytes -> bytes -> bytes.               (* scrypt *)
  Variable seal : bytes -> bytes -> bytes -> bytes.     (* CryptoKey.Encrypt: key, nonce, plaintext -> nonce ++ box *)
  Variable open_box : bytes -> bytes -> option bytes.   (* CryptoKey.Decrypt *)

  (* the private part of an exported keystore *)
  Record keystore_json := mkJson {
    j_ent_enc : bytes; j_salt : bytes; j_cent_enc : bytes; j_ex : Z; j_in : Z }.

  (* initAcctBucket / allocAddrMgrNamespace: entropy under a fresh crypto key, that key under the
     scrypt key of the private passphrase *)
  Definition persist_entropy (pass salt cke n1 n2 entropy : bytes) (ex inn : Z) : keystore_json :=
    mkJson (seal cke n1 entropy) salt (seal (kdf pass salt) n2 cke) ex inn.

  (* allocAddrMgrNamespace: recover the entropy from the JSON with the passphrase,
     then NewMnemonic(entropy), NewSeed(mnemonic, pass) *)
  Definition import_keystore_seed (j : keystore_json) (pass : bytes) : option (Bip39.outcome (bytes * bytes)) :=
    (* unmarshalMasterPrivKey: "if endsWithNUL(privPass) { return ErrInvalidPassphrase }" (/repo
       commit 30c1bd3), then DeriveKey against the digest of the JSON's own parameters *)
    if ends_nul pass then None else
    match open_box (kdf pass (j_salt j)) (j_cent_enc j) with
    | None => None
    | Some cke =>
        match open_box cke (j_ent_enc j) with
        | None => None
        | Some e => Some (match create_seed e pass with
                          | Bip39.Ok (_, sd) => Bip39.Ok (e, sd)
                          | Bip39.Err x => Bip39.Err x
                          | Bip39.Panic => Bip39.Panic
                          end)
        end
    end.
  (* ImportKeystore: "if kStore.HDpath.ExternalChildNum == 0 { ... = 1 }" *)
  Definition import_ex_counter (j : keystore_json) : Z := if j_ex j =? 0 then 1 else j_ex j.

  (* what allocAddrMgrNamespace persists for the imported keystore: the RECOVERED entropy under a
     fresh crypto key, that key under the same scrypt key (privParams are copied), the counters;
     this is what a later export of the imported keystore hands out *)
  Definition reimport (j : keystore_json) (pass cke' n1' n2' : bytes) : option keystore_json :=
    match import_keystore_seed j pass with
    | Some (Bip39.Ok (e, _)) =>
        Some (persist_entropy pass (j_salt j) cke' n1' n2' e (import_ex_counter j) (j_in j))
    | _ => None
    end.

  (* a stored public key row (bucket pub): the compressed key under cryptoKeyPub; what
     loadAddrManager makes of it: Decrypt, btcec.ParsePubKey, SerializeCompressed, script hash *)
  Definition pub_row (ckpub nonce pub33 : bytes) : bytes := seal ckpub nonce pub33.
  Definition load_pub_row (ckpub row : bytes) : option bytes :=
    match open_box ckpub row with
    | None => None
    | Some b => match parse_pub b with Some P => Some (script_hash_of_pub (ser_P P)) | None => None end
    end.

  (* cryptoKeyPub under the scrypt key of the public passphrase (rows mpub, cpub), and
     ChangePubPassphrase: decrypt with the old master key, encrypt with a new one *)
  Definition cpub_row (pubpass salt nonce ckpub : bytes) : bytes := seal (kdf pubpass salt) nonce ckpub.
  Definition load_ckpub (pubpass salt row : bytes) : option bytes := open_box (kdf pubpass salt) row.
  Definition change_pub_row (oldp newp salt salt' nonce' row : bytes) : option bytes :=
    match load_ckpub oldp salt row with
    | Some ck => Some (cpub_row newp salt' nonce' ck)
    | None => None
    end.
End Derive.
