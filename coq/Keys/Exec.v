(* Keys/Exec.v — the executable instances the correspondence drivers run: the unlock machine and
   SignRawTx over the perfect-cryptography primitives of Keys/Toy.v (definitions only), and the
   row table of Keys/Store.v. *)
From Coq Require Import List ZArith Bool.
Import ListNotations.
Require Import MW.Codec.Bip32 MW.Keys.Unlock MW.Keys.Sign MW.Keys.Toy MW.Keys.Store.
Open Scope Z_scope.

Definition x_cfg (right : bytes) (known : list addr) : amcfg := Toy.cfg right [1; 2; 3] [4; 5; 6] known.
Definition x_state := amstate Toy.sk.
Definition x_init (cfg : amcfg) : x_state := init_state cfg.
Definition x_step (zfix sfix nfix : bool) (cfg : amcfg) (st : x_state) (o : op) : out bytes * x_state * list bytes :=
  step Toy.kdf Toy.digest Toy.shash Toy.open_box Toy.sk bytes Toy.branch_ok Toy.derive_sk Toy.sign zfix sfix nfix cfg st o.
Definition x_obs (st : x_state) := (obs_state st, salt_zero st).

(* the program an output must carry to be attributed to address a *)
Definition x_prog (a : addr) : bytes := Toy.sha256 (Toy.redeem (Toy.pub_at a)).

Definition x_sign_raw (zfix sfix nfix pfix : bool) (cfg : amcfg) (warmup pending_height : Z) (env : outpoint -> look)
  (st : x_state) (p flagstr : bytes) (t : tx) : sres * x_state * tx * option tx :=
  sign_raw Toy.kdf Toy.digest Toy.shash Toy.open_box Toy.sk Toy.branch_ok Toy.derive_sk Toy.sign zfix sfix nfix cfg
           Toy.pk Toy.sighash Toy.redeem Toy.pub_at warmup env pfix pending_height
           (engine_template Toy.pk Toy.verify Toy.sighash Toy.sha256 Toy.pk_of_redeem) st p flagstr t.

(* the witness a successful signature of input i of t under flag byte fb by address a leaves *)
Definition x_witness (a : addr) (fb : Z) (t : tx) (i : nat) (v : Z) : list bytes :=
  match flag_of_byte fb with
  | Some f => [Toy.sign (Toy.sk_of a) (Toy.sighash f t i v (Toy.redeem (Toy.pub_at a))) ++ [fb]; Toy.redeem (Toy.pub_at a)]
  | None => [[0]; [0]]
  end.

(* the property's predicate on the model's own result *)
Definition x_verified (pfix : bool) (warmup pending_height : Z) (env : outpoint -> look) (t : tx) : bool :=
  forallb (fun i =>
    match nth_error (t_ins t) i with
    | None => false
    | Some inp =>
        match env (in_prev inp) with
        | LOut u =>
            match eff_height pfix pending_height u with
            | Some h => engine_template Toy.pk Toy.verify Toy.sighash Toy.sha256 Toy.pk_of_redeem u t i (ip2_of warmup h)
            | None => false
            end
        | _ => false
        end
    end) (seq 0 (length (t_ins t))).

(* Store: rows of an instance with their shapes *)
Definition x_rows (ent_len remark_len : nat) (coin : Z) (addrs : list (Z * Z)) : list (bytes * bytes * nat * bool) :=
  map (fun r => (r_sub r, r_key r, shape_len (r_shape r),
                 match r_shape r with ShPlain _ => false | _ => true end))
      (rows (mkInst 0 0 coin 1 2 0 ent_len remark_len addrs)).
