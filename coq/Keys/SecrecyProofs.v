(* Keys/SecrecyProofs.v — no secret is derivable from what the keystore stores and returns. *)
From Coq Require Import List ZArith Bool Lia.
Import ListNotations.
Require Import MW.Codec.Bip32 MW.Keys.Store MW.Keys.Secrecy.
Open Scope Z_scope.

(* [okb] is closed under everything the attacker can do *)
Lemma derivable_ok (K : term -> Prop) : (forall t, K t -> okb t = true) ->
  forall t, derivable K t -> okb t = true.
Proof.
  intros HK t D. induction D as [t Ht| b | a b _ IHa _ IHb | a b _ IH | a b _ IH
                                 | k t _ IHk _ IHt | k t _ IHe _ IHk | t _ IH | p s _ IHp _ IHs]; cbn in *.
  - apply HK, Ht.
  - reflexivity.
  - rewrite IHa, IHb. reflexivity.
  - apply andb_true_iff in IH. tauto.
  - apply andb_true_iff in IH. tauto.
  - rewrite IHt. reflexivity.
  - rewrite IHk in IHe. cbn in IHe. rewrite orb_false_r in IHe. exact IHe.
  - rewrite IH. reflexivity.
  - rewrite IHp, IHs. reflexivity.
Qed.

Corollary not_ok_not_derivable (K : term -> Prop) s :
  (forall t, K t -> okb t = true) -> okb s = false -> ~ derivable K s.
Proof. intros HK Hs D. rewrite (derivable_ok K HK s D) in Hs. discriminate. Qed.

(* ------------------------------------------------------------------ the terms of one instance *)
Lemma child_not_ok parent i : okb parent = false -> okb (t_child parent i) = false.
Proof. intros H. unfold t_child, F. cbn. rewrite H. reflexivity. Qed.

Lemma seed_not_ok w : okb (t_seed w) = false.
Proof. reflexivity. Qed.
Lemma root_not_ok w : okb (t_root w) = false.
Proof. reflexivity. Qed.
Lemma acct_not_ok w coin : okb (t_acct w coin) = false.
Proof. unfold t_acct. repeat apply child_not_ok. apply root_not_ok. Qed.
Lemma branch_not_ok w coin b : okb (t_branch w coin b) = false.
Proof. apply child_not_ok, acct_not_ok. Qed.
Lemma addr_key_not_ok w coin b i : okb (t_addr_key w coin b i) = false.
Proof. apply child_not_ok, branch_not_ok. Qed.

Lemma pubkey_ok k : okb (t_pubkey k) = true.
Proof. unfold t_pubkey, F. cbn. apply orb_true_r. Qed.
Lemma chain_ok k : okb (t_chain k) = true.
Proof. unfold t_chain, F. cbn. apply orb_true_r. Qed.
Lemma xpub_ok k : okb (t_xpub k) = true.
Proof. unfold t_xpub. cbn [okb]. rewrite pubkey_ok, chain_ok. reflexivity. Qed.
Lemma xprv_not_ok k : okb k = false -> okb (t_xprv k) = false.
Proof. intros H. unfold t_xprv. cbn [okb]. rewrite H. reflexivity. Qed.
Lemma signature_ok k m : okb (t_signature k m) = true.
Proof. unfold t_signature, F. cbn. apply orb_true_r. Qed.
Lemma params_ok p s : okb (t_params p s) = true.
Proof. unfold t_params, t_master_key. cbn. rewrite orb_true_r. reflexivity. Qed.
Lemma mk_priv_not_ok k : okb (mk_priv k) = false.
Proof. reflexivity. Qed.

Lemma pub_row_ok k a : okb (r_term (pub_row k a)) = true.
Proof. unfold pub_row. cbn [r_term okb]. rewrite pubkey_ok. reflexivity. Qed.

Lemma rows_ok k : Forall (fun r => okb (r_term r) = true) (rows k).
Proof.
  unfold rows. apply Forall_app. split; [|apply Forall_app; split].
  - (* e.g. the account row: the public half is readable with the public passphrase, the private
       half is the account xprv under cryptoKeyPriv *)
    repeat constructor; cbn [r_term okb]; rewrite ?params_ok, ?xpub_ok, ?mk_priv_not_ok;
      try reflexivity.
  - destruct (i_remark_len k =? 0)%nat; repeat constructor.
  - apply Forall_forall. intros r Hr. apply in_map_iff in Hr. destruct Hr as (a & <- & _).
    apply pub_row_ok.
Qed.

Lemma export_ok k : okb (export_term k) = true.
Proof. unfold export_term. cbn [okb]. rewrite params_ok, mk_priv_not_ok. reflexivity. Qed.

Lemma secrets_not_ok k : Forall (fun s => okb s = false) (secrets k).
Proof.
  unfold secrets. apply Forall_app. split.
  - repeat constructor; try reflexivity;
      try apply acct_not_ok; try apply branch_not_ok; try (apply xprv_not_ok, acct_not_ok).
  - apply Forall_forall. intros s Hs. apply in_map_iff in Hs. destruct Hs as (a & <- & _).
    apply addr_key_not_ok.
Qed.

(* ------------------------------------------------------------------ histories *)
Definition WInv (wd : world) : Prop :=
  Forall (fun t => okb t = true) (w_known wd) /\ Forall (fun s => okb s = false) (w_secret wd).

Lemma WInv_init : WInv init_world.
Proof. split; repeat constructor. Qed.

Lemma WInv_add wd k : WInv wd -> WInv (add_inst wd k).
Proof.
  intros [Hk Hs]. split; cbn [add_inst w_known w_secret]; apply Forall_app; split; auto.
  - apply Forall_forall. intros t Ht. apply in_map_iff in Ht. destruct Ht as (r & <- & Hr).
    pose proof (rows_ok k) as R. rewrite Forall_forall in R. apply R, Hr.
  - apply secrets_not_ok.
Qed.

(* the error value of an environment failure is public whatever the site, the context and the
   environment's own error text are *)
Lemma pub_list_ok l : okb (pub_list l) = true.
Proof. induction l as [|b r IH]; cbn [pub_list okb]; [reflexivity|]. rewrite IH. reflexivity. Qed.

Lemma env_error_ok site ctx env : okb (env_error_term site ctx env) = true.
Proof. unfold env_error_term. cbn [okb]. rewrite pub_list_ok. reflexivity. Qed.

Lemma sstep_WInv o : forall wd, WInv wd -> WInv (sstep wd o).
Proof.
  unfold sstep.
  induction o as [w coin el rl|n a|n a msg|code|n|n|w coin el addrs| | |n|n|n|o' IH f site ctx env];
    intros wd I; cbn [sstep_gen].
  - apply WInv_add, I.
  - destruct (nth_error (w_insts wd) n) as [k0|]; [|exact I]. destruct I as [Hk Hs].
    split; cbn [w_known w_secret]; constructor; auto; try apply pub_row_ok; try apply addr_key_not_ok.
  - destruct (nth_error (w_insts wd) n) as [k0|]; [|exact I]. destruct I as [Hk Hs].
    split; cbn [w_known w_secret]; auto; try (constructor; auto; apply signature_ok).
  - destruct I as [Hk Hs]. split; cbn [w_known w_secret]; auto.
  - destruct (nth_error (w_insts wd) n) as [k0|]; [|exact I]. destruct I as [Hk Hs].
    split; cbn [w_known w_secret]; auto; try (constructor; auto; apply export_ok).
  - destruct (nth_error (w_insts wd) n) as [k0|]; [|exact I]. apply WInv_add, I.
  - apply WInv_add, I.
  - destruct I as [Hk Hs]. split; cbn [w_known w_secret]; auto.
    constructor; [reflexivity|]. apply Forall_app. split; auto.
    apply Forall_forall. intros t Ht. apply in_flat_map in Ht. destruct Ht as (k & _ & Ht).
    apply in_map_iff in Ht. destruct Ht as (r & <- & Hr).
    pose proof (rows_ok k) as R. rewrite Forall_forall in R. apply R, Hr.
  - exact I.
  - exact I.
  - exact I.
  - exact I.
  - (* the operation failed with an environment error *)
    destruct (IH wd I) as [Hk Hs]. split; cbn [w_known w_secret fail_error]; [|exact Hs].
    constructor; [apply env_error_ok|exact Hk].
Qed.

Lemma srun_WInv ops : forall wd, WInv wd -> WInv (srun wd ops).
Proof.
  unfold srun. induction ops as [|o r IH]; intros wd I; [exact I|]. cbn [srun_gen].
  apply IH. apply (sstep_WInv o wd I).
Qed.

(* C05: after any history — creations, new addresses, signatures, exports, imports of keystores and
   mnemonics, public-passphrase changes, restarts, removals, reveals, selections, any number of
   refused attempts, and ANY of these failing at any step with an error of the chain look-up, of
   another chain read or of the wallet database (after any part of its writes) —
   no secret of any wallet that ever existed or was attempted can be derived from everything that
   was ever stored or returned, together with every public passphrase *)
Theorem no_plain_secret ops s :
  In s (w_secret (srun init_world ops)) -> ~ derivable (knows (srun init_world ops)) s.
Proof.
  intros Hs. destruct (srun_WInv ops init_world WInv_init) as [Hk Hn].
  rewrite Forall_forall in Hk, Hn. apply not_ok_not_derivable.
  - intros t Ht. apply Hk, Ht.
  - apply Hn, Hs.
Qed.

(* the list of secrets really covers every live instance *)
Definition covers (wd : world) : Prop :=
  forall k s, In k (w_insts wd) -> In s (secrets k) -> In s (w_secret wd).

Lemma secrets_rekey g f k : secrets (rekey g f k) = secrets k.
Proof. reflexivity. Qed.

Lemma in_replace_nth n f l k : In k (replace_nth n f l) ->
  In k l \/ exists k0, nth_error l n = Some k0 /\ k = f k0.
Proof.
  revert n; induction l as [|x r IH]; intros [|n] H; cbn in *; try tauto.
  - destruct H as [<-|H]; [right; eauto|tauto].
  - destruct H as [<-|H]; [tauto|]. destruct (IH n H) as [?|?]; tauto.
Qed.

Lemma covers_add wd k : covers wd -> covers (add_inst wd k).
Proof.
  intros C k' s Hk Hs. cbn [add_inst w_insts w_secret] in *. apply in_or_app.
  destruct Hk as [<-|Hk]; [left; exact Hs|right; eapply C; eauto].
Qed.

(* no step forgets a secret (whichever way the error values are built) *)
Lemma sstep_secret_incl pfix o : forall wd, incl (w_secret wd) (w_secret (sstep_gen pfix wd o)).
Proof.
  induction o as [w coin el rl|n a|n a msg|code|n|n|w coin el addrs| | |n|n|n|o' IH f site ctx env];
    intros wd; cbn [sstep_gen];
    try (destruct (nth_error (w_insts wd) n) as [k0|]);
    cbn [add_inst w_secret]; try apply incl_refl; try (apply incl_appr, incl_refl); try (apply incl_tl, incl_refl).
  apply IH.
Qed.

Lemma sstep_covers o : forall wd, covers wd -> covers (sstep wd o).
Proof.
  unfold sstep.
  induction o as [w coin el rl|n a|n a msg|code|n|n|w coin el addrs| | |n|n|n|o' IH f site ctx env];
    intros wd C; cbn [sstep_gen];
    try (apply covers_add; exact C); try exact C.
  - destruct (nth_error (w_insts wd) n) as [k0|] eqn:N; [|exact C].
    intros k s Hk Hs. cbn [w_insts w_secret] in *.
    destruct (in_replace_nth _ _ _ _ Hk) as [Hin|(k0' & N' & ->)].
    + right. eapply C; eauto.
    + rewrite N in N'. inversion N'; subst k0'. unfold secrets in Hs. cbn [i_seed i_coin i_addrs i_id] in Hs.
      apply in_app_or in Hs. destruct Hs as [Hs|Hs].
      * right. apply (C k0 s); [eapply nth_error_In; eauto|]. unfold secrets. apply in_or_app. left. exact Hs.
      * cbn [map] in Hs. destruct Hs as [<-|Hs]; [left; reflexivity|].
        right. apply (C k0 s); [eapply nth_error_In; eauto|]. unfold secrets. apply in_or_app. right. exact Hs.
  - destruct (nth_error (w_insts wd) n) as [k0|]; exact C.
  - destruct (nth_error (w_insts wd) n) as [k0|]; exact C.
  - destruct (nth_error (w_insts wd) n) as [k0|]; [apply covers_add|]; exact C.
  - intros k s Hk Hs. cbn [w_insts w_secret] in *. apply in_map_iff in Hk.
    destruct Hk as (k0 & <- & Hk0). rewrite secrets_rekey in Hs. eapply C; eauto.
  - (* a failed operation: the instances are the old ones, their secrets are still listed *)
    intros k s Hk Hs. cbn [w_insts w_secret] in *. apply (sstep_secret_incl true o' wd). eapply C; eauto.
Qed.

Lemma srun_covers ops : forall wd, covers wd -> covers (srun wd ops).
Proof.
  unfold srun. induction ops as [|o r IH]; intros wd C; [exact C|]. cbn [srun_gen].
  apply IH. apply (sstep_covers o wd C).
Qed.

Theorem no_plain_secret_live ops k s :
  In k (w_insts (srun init_world ops)) -> In s (secrets k) ->
  ~ derivable (knows (srun init_world ops)) s.
Proof.
  intros Hk Hs. apply no_plain_secret.
  assert (C : covers (srun init_world ops)) by (apply srun_covers; intros k' s' []).
  exact (C k s Hk Hs).
Qed.

(* ------------------------------------------------------------------ environment failures *)

(* a failed operation is rolled back: the live instances are the ones before it *)
Lemma env_fail_rolls_back wd o f site ctx env :
  w_insts (sstep wd (SEnvFail o f site ctx env)) = w_insts wd.
Proof. reflexivity. Qed.

(* ... and the secrets the attempt brought into being are protected like all others: e.g. the
   entropy (= mnemonic) and the passphrase of a wallet whose mnemonic import or creation FAILED are
   in the list the secrecy theorem quantifies over, although no instance holds them *)
Lemma env_fail_keeps_attempted_secrets wd o f site ctx env :
  w_secret (sstep wd (SEnvFail o f site ctx env)) = w_secret (sstep wd o).
Proof. reflexivity. Qed.

Lemma failed_import_secrets_listed wd w coin el addrs f site ctx env :
  let wd' := sstep wd (SEnvFail (SImportMnemonic w coin el addrs) f site ctx env) in
  In (t_entropy w) (w_secret wd') /\ In (t_privpass w) (w_secret wd') /\ In (t_seed w) (w_secret wd') /\
  w_insts wd' = w_insts wd.
Proof. cbn. unfold secrets. cbn. tauto. Qed.

Lemma failed_create_secrets_listed wd w coin el rl f site ctx env :
  let wd' := sstep wd (SEnvFail (SCreate w coin el rl) f site ctx env) in
  In (t_entropy w) (w_secret wd') /\ In (t_privpass w) (w_secret wd') /\ w_insts wd' = w_insts wd.
Proof. cbn. unfold secrets. cbn. tauto. Qed.

(* the error value of every environment failure is derivable by anybody: it carries nothing *)
Lemma env_fail_error_known wd o f site ctx env :
  knows (sstep wd (SEnvFail o f site ctx env)) (env_error_term site ctx env) /\
  okb (env_error_term site ctx env) = true.
Proof. split; [left; reflexivity|apply env_error_ok]. Qed.

(* the seeded regression ([pfix] = false): the error of a failed operation carries the
   operation's parameter record. A mnemonic import whose first chain look-up fails then hands the
   entropy (the mnemonic sentence) and the private passphrase of the wallet to whoever reads the
   error — secrets of a wallet that was never even stored *)
Definition leak_history : list sop := [SEnvFail (SImportMnemonic 0 297 16 []) FChainLookup 1 [] [99]].

Theorem error_carrying_parameters_refuted :
  let wd := srun_gen false init_world leak_history in
  w_insts wd = [] /\
  In (t_entropy 0) (w_secret wd) /\ derivable (knows wd) (t_entropy 0) /\
  In (t_privpass 0) (w_secret wd) /\ derivable (knows wd) (t_privpass 0) /\
  (* with the code as it is the same history leaks nothing *)
  forallb okb (w_known (srun init_world leak_history)) = true.
Proof.
  cbn zeta.
  assert (K : knows (srun_gen false init_world leak_history)
                    (Cat (env_error_term 1 [] [99]) (params_term init_world (SImportMnemonic 0 297 16 [])))).
  { left. reflexivity. }
  cbn [params_term] in K.
  repeat split.
  - vm_compute. tauto.
  - apply DFst with (b := Cat (Pub []) (Cat (t_privpass 0) (Pub []))).
    apply DSnd with (a := Pub [0]).
    apply DSnd with (a := env_error_term 1 [] [99]).
    apply DKnown. exact K.
  - vm_compute. tauto.
  - apply DFst with (b := Pub []).
    apply DSnd with (a := Pub []).
    apply DSnd with (a := t_entropy 0).
    apply DSnd with (a := Pub [0]).
    apply DSnd with (a := env_error_term 1 [] [99]).
    apply DKnown. exact K.
Qed.

(* the attacker holding the public passphrase does reach the public material (so the model is
   not vacuous): the account public key of a created wallet *)
Example public_material_derivable :
  let wd := srun init_world [SCreate 0 297 16 0] in
  derivable (knows wd) (t_pubkey (t_acct 0 297)).
Proof.
  cbn. apply DFst with (b := t_chain (t_acct 0 297)).
  apply DDec with (k := Atom (ACkPub 0)).
  - (* the public half of the account row *)
    apply DFst with (b := Enc (Atom (ACkPriv 0)) (t_xprv (t_acct 0 297))).
    apply DKnown. unfold knows. cbn. tauto.
  - (* cryptoKeyPub from cpub with the scrypt key of the public passphrase *)
    apply DDec with (k := t_master_key (Atom (APubPass 0)) 2).
    + apply DKnown. unfold knows. cbn. tauto.
    + apply DKdf.
      * apply DKnown. unfold knows. cbn. tauto.
      * apply DFst with (b := Cat (Hash (t_master_key (Atom (APubPass 0)) 2)) (Pub [0])).
        apply DKnown. unfold knows. cbn. tauto.
Qed.

(* the shape of a row says "encrypted" exactly when its term is an encryption *)
Definition shape_agrees (r : row) : bool :=
  match r_shape r, r_term r with
  | ShEnc _, Enc _ _ => true
  | ShAcct _ _, Cat (Enc _ _) (Enc _ _) => true
  | ShPlain _, Enc _ _ => false
  | ShPlain _, _ => true
  | _, _ => false
  end.

Lemma rows_shape_agree k : Forall (fun r => shape_agrees r = true) (rows k).
Proof.
  unfold rows. apply Forall_app. split; [|apply Forall_app; split].
  - repeat constructor.
  - destruct (i_remark_len k =? 0)%nat; repeat constructor.
  - apply Forall_forall. intros r Hr. apply in_map_iff in Hr. destruct Hr as (a & <- & _). reflexivity.
Qed.
