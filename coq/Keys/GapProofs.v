(* Keys/GapProofs.v — lemmas and proofs about Keys/Gap.v (property C12). *)
From Coq Require Import List ZArith NArith Bool Lia.
Import ListNotations.
Require Import MW.Ledger.Model MW.Ledger.Spec MW.Keys.Gap.
Open Scope N_scope.

(* ================================================================ address records as a map *)

Lemma rkey_eqb_spec : forall stk sh r,
  rkey_eqb stk sh r = true <-> fst (fst r) = stk /\ snd (fst r) = sh.
Proof.
  intros stk sh [[a b] h]. unfold rkey_eqb. cbn [fst snd].
  rewrite andb_true_iff, N.eqb_eq. split.
  - intros [H1 H2]. apply eqb_prop in H1. auto.
  - intros [H1 H2]. subst. split; [apply eqb_reflx | reflexivity].
Qed.

Lemma rkey_eqb_false : forall stk sh r,
  rkey_eqb stk sh r = false <-> ~ (fst (fst r) = stk /\ snd (fst r) = sh).
Proof.
  intros. rewrite <- rkey_eqb_spec. destruct (rkey_eqb stk sh r); split; intros; try congruence; tauto.
Qed.

Lemma rec_get_del_same : forall rs stk sh, rec_get (rec_del rs stk sh) stk sh = None.
Proof.
  intros. unfold rec_get, rec_del.
  destruct (find (rkey_eqb stk sh) (filter (fun r => negb (rkey_eqb stk sh r)) rs)) eqn:F; [|reflexivity].
  apply find_some in F. destruct F as [Hin Hk]. apply filter_In in Hin. destruct Hin as [_ Hn].
  rewrite Hk in Hn. discriminate.
Qed.

Lemma find_filter_other : forall (A : Type) (p q : A -> bool) l,
  (forall x, p x = true -> q x = true) -> find p (filter q l) = find p l.
Proof.
  intros A p q l H. induction l as [|x l IH]; [reflexivity|]. cbn [filter find].
  destruct (q x) eqn:Q.
  - cbn [find]. destruct (p x); [reflexivity | exact IH].
  - destruct (p x) eqn:P; [apply H in P; congruence | exact IH].
Qed.

Lemma rec_get_del_other : forall rs stk sh stk' sh',
  (stk', sh') <> (stk, sh) -> rec_get (rec_del rs stk sh) stk' sh' = rec_get rs stk' sh'.
Proof.
  intros rs stk sh stk' sh' Hne. unfold rec_get, rec_del.
  rewrite find_filter_other; [reflexivity|].
  intros r Hr. apply rkey_eqb_spec in Hr. destruct Hr as [H1 H2].
  apply negb_true_iff, rkey_eqb_false. intros [H3 H4]. apply Hne. congruence.
Qed.

Lemma rec_get_put_same : forall rs stk sh h, rec_get (rec_put rs stk sh h) stk sh = Some h.
Proof.
  intros. unfold rec_get, rec_put. cbn [find].
  assert (E : rkey_eqb stk sh (stk, sh, h) = true) by (apply rkey_eqb_spec; auto).
  rewrite E. reflexivity.
Qed.

Lemma rec_get_put_other : forall rs stk sh h stk' sh',
  (stk', sh') <> (stk, sh) -> rec_get (rec_put rs stk sh h) stk' sh' = rec_get rs stk' sh'.
Proof.
  intros rs stk sh h stk' sh' Hne. unfold rec_put.
  transitivity (rec_get (rec_del rs stk sh) stk' sh'); [|apply rec_get_del_other; exact Hne].
  unfold rec_get at 1. cbn [find].
  assert (E : rkey_eqb stk' sh' (stk, sh, h) = false).
  { apply rkey_eqb_false. cbn [fst snd]. intros [H1 H2]. apply Hne. congruence. }
  rewrite E. reflexivity.
Qed.

Lemma key_dec : forall (a b : bool * N), {a = b} + {a <> b}.
Proof. decide equality; [apply N.eq_dec | apply bool_dec]. Qed.

Lemma rec_get_in : forall rs stk sh h, rec_get rs stk sh = Some h -> In (stk, sh, h) rs.
Proof.
  intros rs stk sh h H. unfold rec_get in H.
  destruct (find (rkey_eqb stk sh) rs) as [r|] eqn:F; [|discriminate].
  apply find_some in F. destruct F as [Hin Hk]. apply rkey_eqb_spec in Hk.
  destruct r as [[a b] c]. cbn [fst snd] in *. destruct Hk. inversion H. subst. exact Hin.
Qed.

Lemma in_rec_get : forall rs stk sh h, In (stk, sh, h) rs -> exists h', rec_get rs stk sh = Some h'.
Proof.
  intros rs stk sh h Hin. unfold rec_get.
  destruct (find (rkey_eqb stk sh) rs) as [r|] eqn:F; [eexists; reflexivity|].
  exfalso. eapply find_none in F; [|exact Hin].
  assert (E : rkey_eqb stk sh (stk, sh, h) = true) by (apply rkey_eqb_spec; auto). congruence.
Qed.

(* ---------------------------------------------------------------- credit / rollback of one output, one block *)

Definition out_hits (mine : N -> bool) (stk : bool) (sh : N) (o : txout) : bool :=
  mine (o_sh o) && (o_sh o =? sh) &&
  match out_form (o_class o) with Some f => Bool.eqb f stk | None => false end.

Lemma out_hits_false_key : forall mine stk sh o f,
  mine (o_sh o) = true -> out_form (o_class o) = Some f -> out_hits mine stk sh o = false ->
  (stk, sh) <> (f, o_sh o).
Proof.
  intros mine stk sh o f Hm Hf Hh Heq. inversion Heq. subst. unfold out_hits in Hh.
  rewrite Hm, Hf, N.eqb_refl, eqb_reflx in Hh. discriminate.
Qed.

Lemma out_hits_true : forall mine stk sh o,
  out_hits mine stk sh o = true -> mine (o_sh o) = true /\ o_sh o = sh /\ out_form (o_class o) = Some stk.
Proof.
  intros mine stk sh o H. unfold out_hits in H.
  apply andb_true_iff in H. destruct H as [H H3]. apply andb_true_iff in H. destruct H as [H1 H2].
  apply N.eqb_eq in H2. destruct (out_form (o_class o)) as [f|]; [|discriminate].
  apply eqb_prop in H3. subst. auto.
Qed.

(* the value of a record after a block at height H was connected *)
Definition credited (H : Z) (v : option Z) : option Z :=
  match v with
  | Some h0 => if (h0 =? 0)%Z then Some H else Some h0
  | None => Some H
  end.

Lemma credited_idem : forall H v, credited H (credited H v) = credited H v.
Proof.
  intros H [h0|]; cbn [credited].
  - destruct (h0 =? 0)%Z eqn:E; cbn [credited]; [|rewrite E; reflexivity].
    destruct (H =? 0)%Z eqn:E2; reflexivity.
  - destruct (H =? 0)%Z; reflexivity.
Qed.

Lemma credit_addr_same : forall rs stk sh H,
  rec_get (credit_addr rs stk sh H) stk sh = credited H (rec_get rs stk sh).
Proof.
  intros. unfold credit_addr, credited. destruct (rec_get rs stk sh) as [h0|] eqn:G.
  - destruct (h0 =? 0)%Z; [apply rec_get_put_same | exact G].
  - apply rec_get_put_same.
Qed.

Lemma credit_addr_other : forall rs stk sh H stk' sh',
  (stk', sh') <> (stk, sh) -> rec_get (credit_addr rs stk sh H) stk' sh' = rec_get rs stk' sh'.
Proof.
  intros. unfold credit_addr. destruct (rec_get rs stk sh) as [h0|].
  - destruct (h0 =? 0)%Z; [apply rec_get_put_other; assumption | reflexivity].
  - apply rec_get_put_other; assumption.
Qed.

Lemma connect_out_get : forall mine H rs o stk sh,
  rec_get (connect_out mine H rs o) stk sh =
  if out_hits mine stk sh o then credited H (rec_get rs stk sh) else rec_get rs stk sh.
Proof.
  intros. unfold connect_out. destruct (out_hits mine stk sh o) eqn:Hh.
  - apply out_hits_true in Hh. destruct Hh as [Hm [Hs Hf]]. rewrite Hm, Hf. subst sh. apply credit_addr_same.
  - destruct (mine (o_sh o)) eqn:Hm; [|reflexivity].
    destruct (out_form (o_class o)) as [f|] eqn:Hf; [|reflexivity].
    apply credit_addr_other. eapply out_hits_false_key; eassumption.
Qed.

Lemma connect_outs_get : forall mine H outs rs stk sh,
  rec_get (fold_left (connect_out mine H) outs rs) stk sh =
  if existsb (out_hits mine stk sh) outs then credited H (rec_get rs stk sh) else rec_get rs stk sh.
Proof.
  intros mine H outs. induction outs as [|o outs IH]; intros rs stk sh; [reflexivity|].
  cbn [fold_left existsb]. rewrite IH, connect_out_get.
  destruct (out_hits mine stk sh o); cbn [orb].
  - destruct (existsb (out_hits mine stk sh) outs); [apply credited_idem | reflexivity].
  - reflexivity.
Qed.

Definition block_hits (mine : N -> bool) (stk : bool) (sh : N) (b : block) : bool :=
  existsb (out_hits mine stk sh) (block_outs b).

Lemma connect_recs_get : forall mine rs b stk sh,
  rec_get (connect_recs mine rs b) stk sh =
  if block_hits mine stk sh b then credited (b_height b) (rec_get rs stk sh) else rec_get rs stk sh.
Proof. intros. unfold connect_recs, block_hits. apply connect_outs_get. Qed.

(* rollback *)
Definition unrolled (H : Z) (v : option Z) : option Z :=
  match v with
  | Some h0 => if (0 <? H)%Z && (h0 =? H)%Z then None else Some h0
  | None => None
  end.

Lemma unrolled_idem : forall H v, unrolled H (unrolled H v) = unrolled H v.
Proof.
  intros H [h0|]; cbn [unrolled]; [|reflexivity].
  destruct ((0 <? H)%Z && (h0 =? H)%Z) eqn:E; cbn [unrolled]; [reflexivity | rewrite E; reflexivity].
Qed.

Lemma rollback_out_get : forall mine H rs o stk sh,
  rec_get (rollback_out mine H rs o) stk sh =
  if out_hits mine stk sh o then unrolled H (rec_get rs stk sh) else rec_get rs stk sh.
Proof.
  intros. unfold rollback_out. destruct (out_hits mine stk sh o) eqn:Hh.
  - apply out_hits_true in Hh. destruct Hh as [Hm [Hs Hf]]. rewrite Hm, Hf. subst sh.
    unfold unrolled. destruct (rec_get rs stk (o_sh o)) as [h0|] eqn:G; [|exact G].
    destruct ((0 <? H)%Z && (h0 =? H)%Z); [apply rec_get_del_same | exact G].
  - destruct (mine (o_sh o)) eqn:Hm; [|reflexivity].
    destruct (out_form (o_class o)) as [f|] eqn:Hf; [|reflexivity].
    destruct (rec_get rs f (o_sh o)) as [h0|]; [|reflexivity].
    destruct ((0 <? H)%Z && (h0 =? H)%Z); [|reflexivity].
    apply rec_get_del_other. eapply out_hits_false_key; eassumption.
Qed.

Lemma rollback_block_get : forall mine rs b stk sh,
  rec_get (rollback_block mine rs b) stk sh =
  if block_hits mine stk sh b then unrolled (b_height b) (rec_get rs stk sh) else rec_get rs stk sh.
Proof.
  intros mine rs b stk sh. unfold rollback_block, block_hits.
  generalize (block_outs b) as outs. intro outs. revert rs.
  induction outs as [|o outs IH]; intros rs; [reflexivity|].
  cbn [fold_left existsb]. rewrite IH, rollback_out_get.
  destruct (out_hits mine stk sh o); cbn [orb].
  - destruct (existsb (out_hits mine stk sh) outs); [apply unrolled_idem | reflexivity].
  - reflexivity.
Qed.

(* ================================================================ records against the processed chain *)

Lemma pays_form_app : forall c1 c2 stk sh,
  pays_form (c1 ++ c2) stk sh = pays_form c1 stk sh || pays_form c2 stk sh.
Proof. intros. unfold pays_form, chain_outs. rewrite flat_map_app, existsb_app. reflexivity. Qed.

Lemma pays_form_cons : forall b c stk sh,
  pays_form (b :: c) stk sh = pays_form [b] stk sh || pays_form c stk sh.
Proof. intros. change (b :: c) with ([b] ++ c). apply pays_form_app. Qed.

Lemma pays_form_nil : forall stk sh, pays_form [] stk sh = false.
Proof. reflexivity. Qed.

Lemma block_hits_pays : forall mine stk sh b,
  block_hits mine stk sh b = mine sh && pays_form [b] stk sh.
Proof.
  intros. unfold block_hits, pays_form, chain_outs. cbn [flat_map]. rewrite app_nil_r.
  induction (block_outs b) as [|o l IH]; cbn [existsb].
  - rewrite andb_false_r. reflexivity.
  - rewrite IH. unfold out_hits. destruct (o_sh o =? sh) eqn:E.
    + apply N.eqb_eq in E. rewrite E. destruct (mine sh); cbn [andb orb]; reflexivity.
    + rewrite andb_false_r. cbn [andb orb]. reflexivity.
Qed.

Definition heights_ok (c : list block) : Prop :=
  forall i b, nth_error c i = Some b -> b_height b = Z.of_nat i.

Lemma heights_ok_app_l : forall c1 c2, heights_ok (c1 ++ c2) -> heights_ok c1.
Proof.
  intros c1 c2 H i b Hn. apply H. rewrite nth_error_app1; [exact Hn|].
  apply nth_error_Some. congruence.
Qed.

Lemma heights_ok_last : forall c b, heights_ok (c ++ [b]) -> b_height b = Z.of_nat (length c).
Proof.
  intros c b H. apply H. rewrite nth_error_app2 by lia. rewrite Nat.sub_diag. reflexivity.
Qed.

(* the record height h names the first block of the chain paying the address in that form *)
Definition first_pay (c : list block) (stk : bool) (sh : N) (h : Z) : Prop :=
  exists p b r, c = p ++ b :: r /\ Z.of_nat (length p) = h /\
                pays_form [b] stk sh = true /\ pays_form p stk sh = false.

Lemma first_pay_pays : forall c stk sh h, first_pay c stk sh h -> pays_form c stk sh = true.
Proof.
  intros c stk sh h (p & b & r & Hc & _ & Hb & _). subst c.
  rewrite pays_form_app, pays_form_cons, Hb. rewrite orb_true_r. reflexivity.
Qed.

Lemma first_pay_snoc : forall c b stk sh h, first_pay c stk sh h -> first_pay (c ++ [b]) stk sh h.
Proof.
  intros c b stk sh h (p & b0 & r & Hc & Hl & Hb & Hp). exists p, b0, (r ++ [b]).
  subst c. rewrite <- app_assoc. cbn [app]. auto.
Qed.

Lemma app_tail_decomp : forall (A : Type) (c p r : list A) (b b0 : A),
  c ++ [b] = p ++ b0 :: r ->
  (p = c /\ b0 = b /\ r = []) \/ (exists r', r = r' ++ [b] /\ c = p ++ b0 :: r').
Proof.
  intros A c p r b b0 H. destruct (exists_last (l := b0 :: r)) as (l' & x & Hl); [discriminate|].
  destruct r as [|y r].
  - left. apply app_inj_tail in H. destruct H. auto.
  - right. destruct (exists_last (l := y :: r)) as (r' & z & Hr); [discriminate|].
    rewrite Hr in H. change (p ++ b0 :: r' ++ [z]) with (p ++ (b0 :: r') ++ [z]) in H.
    rewrite app_assoc in H. apply app_inj_tail in H. destruct H as [H1 H2]. subst z.
    exists r'. rewrite Hr. auto.
Qed.

Lemma first_pay_unsnoc : forall c b stk sh h,
  first_pay (c ++ [b]) stk sh h -> h <> Z.of_nat (length c) -> first_pay c stk sh h.
Proof.
  intros c b stk sh h (p & b0 & r & Hc & Hl & Hb & Hp) Hne.
  apply app_tail_decomp in Hc. destruct Hc as [[Hp' _]|[r' [Hr Hc]]].
  - subst p. congruence.
  - exists p, b0, r'. auto.
Qed.

Lemma first_pay_top : forall c b stk sh,
  first_pay (c ++ [b]) stk sh (Z.of_nat (length c)) -> pays_form c stk sh = false /\ pays_form [b] stk sh = true.
Proof.
  intros c b stk sh (p & b0 & r & Hc & Hl & Hb & Hp).
  apply app_tail_decomp in Hc. destruct Hc as [[Hp' [Hb0 _]]|[r' [Hr Hc]]].
  - subst. auto.
  - exfalso. subst c. rewrite app_length in Hl. cbn [length] in Hl. lia.
Qed.

Definition rec_ok (mine : N -> bool) (c : list block) (rs : arecs) : Prop :=
  forall stk sh,
    match rec_get rs stk sh with
    | Some h => mine sh = true /\ (0 <= h)%Z /\ ((0 < h)%Z -> first_pay c stk sh h) /\
                (h = 0%Z -> pays_form c stk sh = false)
    | None => mine sh = true -> pays_form c stk sh = false
    end.

Lemma connect_ok : forall mine c b rs,
  b_height b = Z.of_nat (length c) -> (0 < b_height b)%Z ->
  rec_ok mine c rs -> rec_ok mine (c ++ [b]) (connect_recs mine rs b).
Proof.
  intros mine c b rs Hh Hpos Hok stk sh. specialize (Hok stk sh).
  rewrite connect_recs_get, block_hits_pays, pays_form_app.
  destruct (mine sh) eqn:Hm; cbn [andb].
  - destruct (pays_form [b] stk sh) eqn:Hb.
    + assert (Hfp : pays_form c stk sh = false -> first_pay (c ++ [b]) stk sh (b_height b)).
      { intro Hc. exists c, b, []. auto. }
      destruct (rec_get rs stk sh) as [h0|]; cbn [credited].
      * destruct Hok as (_ & H0 & H1 & H2). destruct (h0 =? 0)%Z eqn:E.
        -- apply Z.eqb_eq in E.
           split; [reflexivity|]. split; [lia|]. split; [intros _; apply Hfp, H2, E | intros; lia].
        -- apply Z.eqb_neq in E.
           split; [reflexivity|]. split; [lia|]. split; [|intros; lia].
           intros Hp. apply first_pay_snoc. apply H1. exact Hp.
      * split; [reflexivity|]. split; [lia|]. split; [intros _; apply Hfp, Hok; reflexivity | intros; lia].
    + rewrite orb_false_r. destruct (rec_get rs stk sh) as [h0|].
      * destruct Hok as (_ & H0 & H1 & H2). repeat split; auto.
        intros Hp. apply first_pay_snoc. auto.
      * auto.
  - destruct (rec_get rs stk sh) as [h0|].
    + destruct Hok as (Hx & _). discriminate.
    + intros; discriminate.
Qed.

Lemma rollback_ok : forall mine c b rs,
  b_height b = Z.of_nat (length c) -> (0 < b_height b)%Z ->
  rec_ok mine (c ++ [b]) rs -> rec_ok mine c (rollback_block mine rs b).
Proof.
  intros mine c b rs Hh Hpos Hok stk sh. specialize (Hok stk sh).
  rewrite rollback_block_get, block_hits_pays. rewrite pays_form_app in Hok.
  destruct (mine sh) eqn:Hm; cbn [andb].
  - destruct (pays_form [b] stk sh) eqn:Hb.
    + destruct (rec_get rs stk sh) as [h0|]; cbn [unrolled].
      * destruct Hok as (_ & H0 & H1 & H2).
        destruct ((0 <? b_height b)%Z && (h0 =? b_height b)%Z) eqn:E.
        -- apply andb_true_iff in E. destruct E as [_ E]. apply Z.eqb_eq in E. intros _.
           assert (Hp : (0 < h0)%Z) by lia. apply H1 in Hp. rewrite E, Hh in Hp.
           apply first_pay_top in Hp. tauto.
        -- assert (Hne : h0 <> b_height b).
           { intro. subst h0. rewrite Z.eqb_refl, andb_true_r in E. apply Z.ltb_ge in E. lia. }
           repeat split; auto.
           ++ intros Hp. eapply first_pay_unsnoc; [apply H1; exact Hp | congruence].
           ++ intros Hz. apply H2 in Hz. apply orb_false_iff in Hz. tauto.
      * intros _. specialize (Hok eq_refl). apply orb_false_iff in Hok. tauto.
    + rewrite orb_false_r in Hok. destruct (rec_get rs stk sh) as [h0|].
      * destruct Hok as (_ & H0 & H1 & H2). repeat split; auto.
        intros Hp. eapply first_pay_unsnoc; [apply H1; exact Hp|].
        intro Heq. specialize (H1 Hp). rewrite Heq in H1. apply first_pay_top in H1. destruct H1; congruence.
      * auto.
  - destruct (rec_get rs stk sh) as [h0|].
    + destruct Hok as (Hx & _). discriminate.
    + intros; discriminate.
Qed.

Lemma rollback_list_ok : forall mine p rm rs,
  p <> [] -> heights_ok (p ++ rm) -> rec_ok mine (p ++ rm) rs ->
  rec_ok mine p (rollback_recs mine rs (rev rm)).
Proof.
  intros mine p rm. induction rm as [|b rm IH] using rev_ind; intros rs Hne Hh Hok.
  - rewrite app_nil_r in Hok. exact Hok.
  - rewrite rev_unit. unfold rollback_recs. cbn [fold_left]. fold (rollback_recs mine (rollback_block mine rs b) (rev rm)).
    rewrite app_assoc in Hh, Hok. apply IH; [exact Hne | eapply heights_ok_app_l; exact Hh |].
    pose proof (heights_ok_last _ _ Hh) as Hb.
    apply rollback_ok; [exact Hb | | exact Hok].
    rewrite Hb, app_length. destruct p; [congruence | cbn [length]; lia].
Qed.

Lemma connect_list_ok : forall mine ad p rs,
  p <> [] -> heights_ok (p ++ ad) -> rec_ok mine p rs ->
  rec_ok mine (p ++ ad) (fold_left (connect_recs mine) ad rs).
Proof.
  intros mine ad. induction ad as [|b ad IH]; intros p rs Hne Hh Hok.
  - rewrite app_nil_r. exact Hok.
  - cbn [fold_left]. change (p ++ b :: ad) with (p ++ [b] ++ ad) in *. rewrite app_assoc in *.
    apply IH; [destruct p; discriminate | exact Hh |].
    pose proof (heights_ok_last _ _ (heights_ok_app_l _ _ Hh)) as Hb.
    apply connect_ok; [exact Hb | | exact Hok].
    rewrite Hb. destruct p; [congruence | cbn [length]; lia].
Qed.

Lemma rec_ok_used : forall mine c rs stk sh,
  rec_ok mine c rs -> mine sh = true -> rec_used rs stk sh = pays_form c stk sh.
Proof.
  intros mine c rs stk sh Hok Hm. specialize (Hok stk sh). unfold rec_used.
  destruct (rec_get rs stk sh) as [h|].
  - destruct Hok as (_ & H0 & H1 & H2). destruct (0 <? h)%Z eqn:E.
    + apply Z.ltb_lt in E. symmetry. eapply first_pay_pays. apply H1. exact E.
    + apply Z.ltb_ge in E. symmetry. apply H2. lia.
  - symmetry. auto.
Qed.

(* ================================================================ the issuing rule *)

Lemma next_addresses_ok : forall fx gap used st i st',
  next_addresses fx gap used st = KOk (i, st') ->
  i = ks_next_e st /\ ks_next_e st' = i + 1 /\ ks_next_i st' = ks_next_i st /\
  ks_pubs st' = ks_pubs st ++ [(false, i)] /\ ks_index st' = (i, false) :: ks_index st.
Proof.
  intros fx gap used st i st' H. unfold next_addresses in H.
  destruct (max_addresses <? u32 (1 + ks_next_e st)); [discriminate|].
  destruct (gap <? 1); [discriminate|].
  match type of H with (if ?c then _ else _) = _ => destruct c end; [discriminate|].
  destruct (hardened_start <=? ks_next_e st); [discriminate|].
  inversion H. subst. cbn. auto.
Qed.

Lemma window_used_spec : forall fx l used len start,
  window_used fx l used start len = true <->
  exists j, start <= j /\ j < start + N.of_nat len /\ idx_used fx l used j = true.
Proof.
  intros fx l used len. induction len as [|len IH]; intros start.
  - cbn. split; [discriminate | intros (j & H1 & H2 & _); lia].
  - cbn [window_used]. rewrite orb_true_iff, IH. split.
    + intros [H|(j & H1 & H2 & H3)].
      * exists start. split; [lia|]. split; [lia | exact H].
      * exists j. split; [lia|]. split; [lia | exact H3].
    + intros (j & H1 & H2 & H3). destruct (N.eq_dec j start) as [->|Hne]; [left; exact H3|].
      right. exists j. split; [lia|]. split; [lia | exact H3].
Qed.

Lemma u32_small : forall x, x < two32 -> u32 x = x.
Proof. intros. unfold u32. apply N.mod_small. assumption. Qed.

(* the exact condition under which a request is refused with "gap limit", in terms of what the
   index map shows for the gap window (child numbers, not branches: D3) *)
Lemma gap_refusal_index : forall fx gap used st,
  ks_next_e st < max_addresses ->
  (next_addresses fx gap used st = KErr EGapLimit <->
   gap = 0 \/ (gap <= ks_next_e st /\
               forall j, ks_next_e st - gap <= j -> j < ks_next_e st -> idx_used fx (ks_index st) used j = false)) /\
  (next_addresses fx gap used st <> KErr EGapLimit -> exists st', next_addresses fx gap used st = KOk (ks_next_e st, st')).
Proof.
  intros fx gap used st Hn. unfold next_addresses. set (n := ks_next_e st) in *.
  unfold max_addresses in Hn.
  assert (Hsmall : u32 (1 + n) = 1 + n) by (apply u32_small; unfold two32; lia).
  assert (Hsmall' : u32 (n + 1) = n + 1) by (apply u32_small; unfold two32; lia).
  rewrite Hsmall, Hsmall'.
  assert (E1 : (max_addresses <? 1 + n) = false) by (apply N.ltb_ge; unfold max_addresses; lia).
  rewrite E1.
  destruct (gap <? 1) eqn:Eg.
  - apply N.ltb_lt in Eg. split; [split; [intros _; left; lia | reflexivity] | intros H; congruence].
  - apply N.ltb_ge in Eg.
    assert (Eh : (hardened_start <=? n) = false) by (apply N.leb_gt; unfold hardened_start; lia).
    destruct (gap <? n + 1) eqn:Egn.
    + apply N.ltb_lt in Egn.
      assert (En0 : (n =? 0) = false) by (apply N.eqb_neq; lia).
      rewrite En0. cbn [negb andb].
      assert (Hst : u32 (n + 1 - gap - 1) = n - gap) by (rewrite u32_small; unfold two32; lia).
      rewrite Hst. replace (n - (n - gap)) with gap by lia.
      destruct (window_used fx (ks_index st) used (n - gap) (N.to_nat gap)) eqn:W; cbn [negb].
      * rewrite Eh. apply window_used_spec in W. destruct W as (j & H1 & H2 & H3).
        rewrite N2Nat.id in H2.
        split; [|intros _; eexists; reflexivity].
        split; [discriminate|]. intros [H|[_ H]]; [lia|]. rewrite H in H3; [discriminate | lia | lia].
      * split; [|intros H; congruence].
        split; [|reflexivity]. intros _. right. split; [lia|]. intros j H1 H2.
        destruct (idx_used fx (ks_index st) used j) eqn:U; [|reflexivity].
        assert (W' : window_used fx (ks_index st) used (n - gap) (N.to_nat gap) = true).
        { apply window_used_spec. exists j. rewrite N2Nat.id. split; [lia|]. split; [lia | exact U]. }
        congruence.
    + apply N.ltb_ge in Egn. rewrite andb_false_r. cbn [andb]. rewrite Eh.
      split; [|intros _; eexists; reflexivity].
      split; [discriminate|]. intros [H|[H _]]; lia.
Qed.

(* the index map answers "external address" for every child number below the counter: with the code
   as found this needs a keystore without internal addresses, with the repaired code it always holds *)
Definition index_good (fx : bool) (st : kstate) : Prop :=
  forall j, j < ks_next_e st -> idx_lookup_br fx (ks_index st) false j = Some false.

Lemma ext_window_used_spec : forall used start len,
  ext_window_used used start len = true <-> exists j, start <= j /\ j < start + N.of_nat len /\ used j = true.
Proof.
  intros. unfold ext_window_used. rewrite existsb_exists. split.
  - intros (x & Hin & Hu). apply in_map_iff in Hin. destruct Hin as (k & <- & Hk). apply in_seq in Hk.
    exists (start + N.of_nat k). split; [lia|]. split; [lia | exact Hu].
  - intros (j & H1 & H2 & H3). exists j. split; [|exact H3]. apply in_map_iff.
    exists (N.to_nat (j - start)). split; [lia|]. apply in_seq. lia.
Qed.

Lemma spec_refuse_spec : forall gap used n,
  spec_refuse gap used n = true <-> gap <= n /\ forall j, n - gap <= j -> j < n -> used j = false.
Proof.
  intros. unfold spec_refuse. rewrite andb_true_iff, N.leb_le, negb_true_iff. split.
  - intros [H1 H2]. split; [exact H1|]. intros j Ha Hb.
    destruct (used j) eqn:U; [|reflexivity].
    assert (W : ext_window_used used (n - gap) (N.to_nat gap) = true).
    { apply ext_window_used_spec. exists j. rewrite N2Nat.id. split; [lia|]. split; [lia | exact U]. }
    congruence.
  - intros [H1 H2]. split; [exact H1|].
    destruct (ext_window_used used (n - gap) (N.to_nat gap)) eqn:W; [|reflexivity].
    apply ext_window_used_spec in W. destruct W as (j & Ha & Hb & Hc). rewrite N2Nat.id in Hb.
    rewrite H2 in Hc; [discriminate | lia | lia].
Qed.

Lemma gap_refusal_ext : forall fx gap used st,
  ks_next_e st < max_addresses -> index_good fx st ->
  (next_addresses fx gap used st = KErr EGapLimit <->
   gap = 0 \/ spec_refuse gap (used false) (ks_next_e st) = true) /\
  (next_addresses fx gap used st <> KErr EGapLimit -> exists st', next_addresses fx gap used st = KOk (ks_next_e st, st')).
Proof.
  intros fx gap used st Hn Hx. destruct (gap_refusal_index fx gap used st Hn) as [H1 H2]. split; [|exact H2].
  rewrite H1, spec_refuse_spec. split.
  - intros [H|[Ha Hb]]; [left; exact H | right]. split; [exact Ha|]. intros j Hj1 Hj2.
    specialize (Hb j Hj1 Hj2). unfold idx_used in Hb. rewrite (Hx j Hj2) in Hb. exact Hb.
  - intros [H|[Ha Hb]]; [left; exact H | right]. split; [exact Ha|]. intros j Hj1 Hj2.
    unfold idx_used. rewrite (Hx j Hj2). apply Hb; assumption.
Qed.

Lemma issue_ok_iff : forall fx gap used st,
  ks_next_e st < max_addresses -> index_good fx st ->
  ((exists st', next_addresses fx gap used st = KOk (ks_next_e st, st')) <-> issue_ok gap (used false) (ks_next_e st) = true) /\
  (forall e, next_addresses fx gap used st = KErr e -> e = EGapLimit).
Proof.
  intros fx gap used st Hn Hx. destruct (gap_refusal_ext fx gap used st Hn Hx) as [H1 H2].
  unfold issue_ok. rewrite andb_true_iff, N.leb_le, negb_true_iff. split; [split|].
  - intros [st' Hs]. destruct (spec_refuse gap (used false) (ks_next_e st)) eqn:S.
    + assert (next_addresses fx gap used st = KErr EGapLimit) by (apply H1; right; reflexivity). congruence.
    + split; [|reflexivity]. destruct (N.eq_dec gap 0) as [->|]; [|lia].
      assert (next_addresses fx 0 used st = KErr EGapLimit) by (apply H1; left; reflexivity). congruence.
  - intros [Hg Hs]. apply H2. intro Hc. apply H1 in Hc. destruct Hc as [Hc|Hc]; [lia | congruence].
  - intros e He. destruct e; try reflexivity; exfalso;
      (assert (Hne : next_addresses fx gap used st <> KErr EGapLimit) by congruence;
       apply H2 in Hne; destruct Hne as [st' Hs]; congruence).
Qed.

Lemma idx_lookup_cons : forall l i b j,
  idx_lookup ((i, b) :: l) j = if i =? j then Some b else idx_lookup l j.
Proof. intros. unfold idx_lookup. cbn [find fst snd]. destruct (i =? j); reflexivity. Qed.

Lemma idx_lookup_br_cons : forall fx l i j,
  idx_lookup_br fx ((i, false) :: l) false j = if i =? j then Some false else idx_lookup_br fx l false j.
Proof.
  intros fx l i j. unfold idx_lookup_br. destruct fx.
  - cbn [existsb fst snd Bool.eqb]. rewrite andb_true_r. destruct (i =? j); reflexivity.
  - apply idx_lookup_cons.
Qed.

Lemma index_good_next : forall fx gap used st i st',
  index_good fx st -> next_addresses fx gap used st = KOk (i, st') -> index_good fx st'.
Proof.
  intros fx gap used st i st' Hx H. apply next_addresses_ok in H. destruct H as (Hi & Hn & _ & _ & Hidx).
  intros j Hj. rewrite Hidx, idx_lookup_br_cons. destruct (i =? j) eqn:E; [reflexivity|].
  apply N.eqb_neq in E. apply Hx. lia.
Qed.

(* ================================================================ keystore well-formedness *)

Definition ks_wf (ks : kstate) : Prop := forall i, In (false, i) (ks_pubs ks) <-> i < ks_next_e ks.
Definition ks_ext_only (ks : kstate) : Prop := forall i, ~ In (true, i) (ks_pubs ks).

Lemma ks_wf_next : forall fx gap used st i st',
  ks_wf st -> next_addresses fx gap used st = KOk (i, st') -> ks_wf st' /\ ~ In (false, i) (ks_pubs st).
Proof.
  intros fx gap used st i st' Hwf H. apply next_addresses_ok in H. destruct H as (Hi & Hn & _ & Hp & _).
  split.
  - intros j. rewrite Hp, in_app_iff, Hn, (Hwf j). cbn [In]. split.
    + intros [H|[H|[]]]; [lia | inversion H; lia].
    + intros H. destruct (N.eq_dec j i) as [->|]; [right; left; reflexivity | left; lia].
  - intros Hin. apply Hwf in Hin. lia.
Qed.

Lemma ks_ext_only_next : forall fx gap used st i st',
  ks_ext_only st -> next_addresses fx gap used st = KOk (i, st') -> ks_ext_only st'.
Proof.
  intros fx gap used st i st' Hx H. apply next_addresses_ok in H. destruct H as (_ & _ & _ & Hp & _).
  intros j Hin. rewrite Hp, in_app_iff in Hin. destruct Hin as [Hin|[Hin|[]]]; [eapply Hx; exact Hin | discriminate].
Qed.

Lemma idx_lookup_map_ext : forall (l : list key) j,
  (forall k, In k l -> fst k = false) ->
  idx_lookup (map (fun k => (snd k, false)) l) j = if existsb (fun k => snd k =? j) l then Some false else None.
Proof.
  intros l j Hl. induction l as [|k l IH]; [reflexivity|].
  cbn [map existsb]. rewrite idx_lookup_cons. destruct (snd k =? j); [reflexivity|]. cbn [orb].
  apply IH. intros k' Hk'. apply Hl. right. exact Hk'.
Qed.

Lemma load_index_has_ext : forall pubs j,
  In (false, j) pubs -> existsb (fun e : N * bool => (fst e =? j) && Bool.eqb (snd e) false) (load_index pubs) = true.
Proof.
  intros pubs j Hin. apply existsb_exists. exists (j, false). split.
  - unfold load_index. apply in_app_iff. right. apply in_map_iff. exists (false, j). split; [reflexivity|].
    apply filter_In. split; [exact Hin | reflexivity].
  - cbn [fst snd Bool.eqb]. rewrite N.eqb_refl. reflexivity.
Qed.

Lemma index_good_reload : forall fx st,
  ks_wf st -> (fx = true \/ ks_ext_only st) -> index_good fx (ks_reload st).
Proof.
  intros fx st Hwf Hx j Hj. cbn [ks_reload ks_index ks_next_e] in *. unfold idx_lookup_br. destruct fx.
  - rewrite load_index_has_ext; [reflexivity | apply Hwf; exact Hj].
  - destruct Hx as [Hx|Hx]; [discriminate|]. unfold load_index.
    assert (E : filter (fun k : bool * N => fst k) (ks_pubs st) = []).
    { destruct (filter (fun k : bool * N => fst k) (ks_pubs st)) as [|[b i] l] eqn:F; [reflexivity|].
      assert (Hin : In (b, i) (filter (fun k : bool * N => fst k) (ks_pubs st))) by (rewrite F; left; reflexivity).
      apply filter_In in Hin. destruct Hin as [Hin Hb]. cbn in Hb. subst b. exfalso. eapply Hx. exact Hin. }
    rewrite E. cbn [map app]. rewrite idx_lookup_map_ext.
    + assert (Ex : existsb (fun k : bool * N => snd k =? j) (filter (fun k : bool * N => negb (fst k)) (ks_pubs st)) = true).
      { apply existsb_exists. exists (false, j). split; [|cbn; apply N.eqb_refl].
        apply filter_In. split; [apply Hwf; exact Hj | reflexivity]. }
      rewrite Ex. reflexivity.
    + intros k Hk. apply filter_In in Hk. destruct Hk as [_ Hk]. destruct (fst k); [discriminate | reflexivity].
Qed.

(* ================================================================ the discovery scan *)

Definition no_overflow (gap : N) (used : N -> bool) : Prop := forall j, used j = true -> j + 1 + gap < two32.

Lemma safe_add_small : forall a b, a + b < two32 -> safe_add a b = a + b.
Proof. intros. unfold safe_add. destruct (two32 <=? a + b) eqn:E; [apply N.leb_le in E; lia | reflexivity]. Qed.

(* loop invariant: [last] is one more than the largest used index below [i] (or 0) *)
Definition scan_state (used : N -> bool) (i last : N) : Prop :=
  last <= i /\ (forall j, j < i -> used j = true -> j < last) /\ (last = 0 \/ used (last - 1) = true).

Lemma scan_inv : forall used gap hint f i last last' i',
  scan f gap hint used i last = Some (last', i') ->
  scan_state used i last ->
  scan_state used i' last' /\ i <= i' /\
  (i' <? safe_add last' gap) = false /\ (i' <? safe_add hint gap) = false.
Proof.
  intros used gap hint f. induction f as [|f IH]; intros i last last' i' H Hs; [discriminate|].
  cbn [scan] in H. destruct ((i <? safe_add last gap) || (i <? safe_add hint gap)) eqn:C.
  - apply IH in H.
    + destruct H as (H1 & H2 & H3). split; [exact H1|]. split; [lia | exact H3].
    + destruct Hs as (Ha & Hb & Hc). destruct (used i) eqn:U.
      * split; [lia|]. split.
        -- intros j Hj _. lia.
        -- right. replace (i + 1 - 1) with i by lia. exact U.
      * split; [lia|]. split; [|exact Hc].
        intros j Hj Hu. destruct (N.eq_dec j i) as [->|]; [congruence|]. apply Hb; [lia | exact Hu].
  - inversion H. subst. apply orb_false_iff in C. destruct C as [C1 C2].
    split; [exact Hs|]. split; [lia|]. split; assumption.
Qed.

(* every index could have been issued under the gap rule, judged with the oracle [used] *)
Definition gap_inv (gap : N) (used : N -> bool) (n : N) : Prop :=
  forall m, gap <= m -> m < n -> exists j, m - gap <= j /\ j < m /\ used j = true.

Lemma scan_complete : forall used gap hint f last' i' n,
  no_overflow gap used ->
  scan f gap hint used 0 0 = Some (last', i') ->
  gap_inv gap used n ->
  forall j, j < n -> used j = true -> j < last'.
Proof.
  intros used gap hint f last' i' n Hov H Hinv.
  apply scan_inv in H; [|split; [lia|]; split; [intros; lia | left; reflexivity]].
  destruct H as ((Ha & Hb & Hc) & _ & Hd & _).
  assert (Hge : forall j, j < n -> used j = true -> j < i').
  { intro j. induction j as [j IHj] using (well_founded_induction N.lt_wf_0). intros Hj Hu.
    destruct (N.lt_ge_cases j i') as [Hlt|Hge]; [exact Hlt|]. exfalso.
    apply N.ltb_ge in Hd. pose proof (Hov j Hu) as Hoj.
    assert (Hsa : last' + gap <= i').
    { unfold safe_add in Hd. destruct (two32 <=? last' + gap) eqn:E; [|exact Hd].
      unfold max_u32 in Hd. lia. }
    assert (Hgj : gap <= j) by lia.
    destruct (Hinv j Hgj Hj) as (j' & H1 & H2 & H3).
    assert (Hj' : j' < i') by (apply IHj; [exact H2 | lia | exact H3]).
    specialize (Hb j' Hj' H3). lia. }
  intros j Hj Hu. apply Hb; [apply Hge; assumption | exact Hu].
Qed.

Lemma safe_add_le : forall a b, safe_add a b <= a + b.
Proof. intros. unfold safe_add, max_u32. destruct (two32 <=? a + b) eqn:E; [apply N.leb_le in E; lia | lia]. Qed.

(* enough fuel: nothing is used from B on *)
Lemma scan_fuel : forall used gap hint B,
  (forall j, B <= j -> used j = false) ->
  forall f i last, last <= B -> (N.to_nat (N.max B hint + gap - i) < f)%nat ->
  exists r, scan f gap hint used i last = Some r.
Proof.
  intros used gap hint B HB f. induction f as [|f IH]; intros i last Hl Hf; [lia|].
  cbn [scan]. destruct ((i <? safe_add last gap) || (i <? safe_add hint gap)) eqn:C; [|eexists; reflexivity].
  assert (Hi : i < N.max B hint + gap).
  { apply orb_true_iff in C. destruct C as [C|C]; apply N.ltb_lt in C.
    - pose proof (safe_add_le last gap). lia.
    - pose proof (safe_add_le hint gap). lia. }
  apply IH; [|lia].
  destruct (used i) eqn:U; [|exact Hl].
  destruct (N.lt_ge_cases i B) as [H|H]; [lia|]. rewrite HB in U; [discriminate | exact H].
Qed.

Lemma in_seqN : forall n i, In i (seqN n) <-> i < n.
Proof.
  intros. unfold seqN. rewrite in_map_iff. split.
  - intros (k & <- & Hk). apply in_seq in Hk. lia.
  - intros H. exists (N.to_nat i). split; [lia|]. apply in_seq. lia.
Qed.

Lemma ks_restore_good : forall fuel gap hint_e hint_i used ks,
  ks_restore fuel gap hint_e hint_i used = Some ks ->
  ks_wf ks /\ (hint_i = 0 -> ks_ext_only ks) /\
  (forall fx, fx = true \/ hint_i = 0 -> index_good fx ks) /\
  restore_branch fuel gap (if hint_e =? 0 then 1 else hint_e) (used false) = Some (ks_next_e ks).
Proof.
  intros fuel gap hint_e hint_i used ks H. unfold ks_restore in H.
  destruct (restore_branch fuel gap hint_i (used true)) as [ni|] eqn:Ri; [|discriminate].
  destruct (restore_branch fuel gap (if hint_e =? 0 then 1 else hint_e) (used false)) as [ne|] eqn:R; [|discriminate].
  inversion H. subst ks. clear H. cbn [ks_next_e ks_next_i ks_pubs ks_index].
  set (pubs := map (fun i0 : N => (false, i0)) (seqN ne) ++ map (fun i0 : N => (true, i0)) (seqN ni)).
  assert (Hwf : forall i, In (false, i) pubs <-> i < ne).
  { intros i. unfold pubs. rewrite in_app_iff, !in_map_iff. split.
    - intros [(k & Hk & Hin)|(k & Hk & _)]; [inversion Hk; subst; apply in_seqN; exact Hin | discriminate].
    - intros Hi. left. exists i. split; [reflexivity | apply in_seqN; exact Hi]. }
  assert (Hxo : hint_i = 0 -> forall i, ~ In (true, i) pubs).
  { intros -> i Hin. unfold restore_branch in Ri. cbn in Ri. inversion Ri. subst ni.
    unfold pubs in Hin. change (seqN 0) with (@nil N) in Hin. cbn [map] in Hin. rewrite app_nil_r in Hin.
    apply in_map_iff in Hin. destruct Hin as (k & Hk & _). discriminate. }
  split; [exact Hwf|]. split; [exact Hxo|]. split; [|reflexivity].
  intros fx Hfx.
  pose (st := {| ks_next_e := ne; ks_next_i := ni; ks_pubs := pubs; ks_index := [] |}).
  apply (index_good_reload fx st Hwf). destruct Hfx as [->|Hi]; [left; reflexivity | right; exact (Hxo Hi)].
Qed.

Lemma restore_branch_complete : forall fuel gap hint used ne n,
  hint <> 0 -> no_overflow gap used -> gap_inv gap used n ->
  restore_branch fuel gap hint used = Some ne ->
  forall j, j < n -> used j = true -> j < ne.
Proof.
  intros fuel gap hint used ne n Hh Hov Hinv H j Hj Hu. unfold restore_branch in H.
  apply N.eqb_neq in Hh. rewrite Hh in H.
  destruct (scan fuel gap hint used 0 0) as [[last i']|] eqn:S; [|discriminate].
  inversion H. subst ne. pose proof (scan_complete _ _ _ _ _ _ _ Hov S Hinv j Hj Hu). lia.
Qed.

(* ================================================================ issuing keeps the gap invariant *)

Lemma gap_inv_step : forall gap u ut n,
  (forall j, ut j = true -> u j = true) ->
  gap_inv gap u n -> issue_ok gap ut n = true -> gap_inv gap u (n + 1).
Proof.
  intros gap u ut n Hmono Hinv Hok m Hg Hm.
  destruct (N.eq_dec m n) as [->|Hne]; [|apply Hinv; lia].
  unfold issue_ok in Hok. apply andb_true_iff in Hok. destruct Hok as [_ Hok].
  apply negb_true_iff in Hok.
  destruct (ext_window_used ut (n - gap) (N.to_nat gap)) eqn:W.
  - apply ext_window_used_spec in W. destruct W as (j & H1 & H2 & H3). rewrite N2Nat.id in H2.
    exists j. split; [lia|]. split; [lia|]. apply Hmono. exact H3.
  - unfold spec_refuse in Hok. rewrite W in Hok. cbn [negb] in Hok. rewrite andb_true_r in Hok.
    apply N.leb_gt in Hok. lia.
Qed.

Lemma issue_run_inv : forall gap u us n,
  Forall (fun ut => forall j, ut j = true -> u j = true) us ->
  gap_inv gap u n -> gap_inv gap u (issue_run gap us n).
Proof.
  intros gap u us. induction us as [|ut us IH]; intros n Hall Hinv; [exact Hinv|].
  inversion Hall as [|? ? Hut Hrest]. subst. cbn [issue_run].
  destruct (issue_ok gap ut n) eqn:E; apply IH; try assumption.
  eapply gap_inv_step; eassumption.
Qed.

Lemma gap_inv_0 : forall gap u, gap_inv gap u 0.
Proof. intros gap u m _ H. lia. Qed.

Lemma gap_inv_b_spec : forall gap u n, gap_inv_b gap u n = true <-> gap_inv gap u n.
Proof.
  intros. unfold gap_inv_b. rewrite forallb_forall. split.
  - intros H m Hg Hm. specialize (H m (proj2 (in_seqN n m) Hm)). apply negb_true_iff in H.
    destruct (ext_window_used u (m - gap) (N.to_nat gap)) eqn:W.
    + apply ext_window_used_spec in W. destruct W as (j & H1 & H2 & H3). rewrite N2Nat.id in H2.
      exists j. split; [lia|]. split; [lia | exact H3].
    + unfold spec_refuse in H. rewrite W in H. cbn [negb] in H. rewrite andb_true_r in H. apply N.leb_gt in H. lia.
  - intros H m Hin. apply in_seqN in Hin. apply negb_true_iff.
    destruct (spec_refuse gap u m) eqn:S; [|reflexivity]. apply spec_refuse_spec in S. destruct S as [Hg Hno].
    destruct (H m Hg Hin) as (j & H1 & H2 & H3). rewrite Hno in H3; [discriminate | lia | lia].
Qed.

(* ================================================================ histories *)

Lemma rollback_recs_zero : forall mine bs rs stk sh,
  rec_get (rollback_recs mine rs bs) stk sh = Some 0%Z -> rec_get rs stk sh = Some 0%Z.
Proof.
  intros mine bs. induction bs as [|b bs IH]; intros rs stk sh H; [exact H|].
  unfold rollback_recs in H. cbn [fold_left] in H. apply IH in H.
  rewrite rollback_block_get in H. destruct (block_hits mine stk sh b); [|exact H].
  unfold unrolled in H. destruct (rec_get rs stk sh) as [h0|]; [|discriminate].
  destruct ((0 <? b_height b)%Z && (h0 =? b_height b)%Z); [discriminate | exact H].
Qed.

Lemma rollback_recs_present : forall mine bs rs stk sh h,
  rec_get (rollback_recs mine rs bs) stk sh = Some h -> rec_get rs stk sh = Some h.
Proof.
  intros mine bs. induction bs as [|b bs IH]; intros rs stk sh h H; [exact H|].
  unfold rollback_recs in H. cbn [fold_left] in H. apply IH in H.
  rewrite rollback_block_get in H. destruct (block_hits mine stk sh b); [|exact H].
  unfold unrolled in H. destruct (rec_get rs stk sh) as [h0|]; [|discriminate].
  destruct ((0 <? b_height b)%Z && (h0 =? b_height b)%Z); [discriminate | exact H].
Qed.

Lemma connect_list_zero : forall mine ad p rs stk sh,
  p <> [] -> heights_ok (p ++ ad) ->
  rec_get (fold_left (connect_recs mine) ad rs) stk sh = Some 0%Z -> rec_get rs stk sh = Some 0%Z.
Proof.
  intros mine ad. induction ad as [|b ad IH]; intros p rs stk sh Hne Hh H; [exact H|].
  cbn [fold_left] in H. change (p ++ b :: ad) with (p ++ [b] ++ ad) in Hh. rewrite app_assoc in Hh.
  apply (IH (p ++ [b])) in H; [|destruct p; discriminate | exact Hh].
  pose proof (heights_ok_last _ _ (heights_ok_app_l _ _ Hh)) as Hb.
  assert (Hpos : (0 < b_height b)%Z) by (rewrite Hb; destruct p; [congruence | cbn [length]; lia]).
  rewrite connect_recs_get in H. destruct (block_hits mine stk sh b); [|exact H].
  unfold credited in H. destruct (rec_get rs stk sh) as [h0|].
  - destruct (h0 =? 0)%Z eqn:E; [inversion H; lia | inversion H; subst; discriminate].
  - inversion H. lia.
Qed.

Lemma connect_list_present : forall mine ad rs stk sh,
  rec_get rs stk sh <> None -> rec_get (fold_left (connect_recs mine) ad rs) stk sh <> None.
Proof.
  intros mine ad. induction ad as [|b ad IH]; intros rs stk sh H; [exact H|].
  cbn [fold_left]. apply IH. rewrite connect_recs_get. destruct (block_hits mine stk sh b); [|exact H].
  unfold credited. destruct (rec_get rs stk sh) as [h0|]; [destruct (h0 =? 0)%Z; discriminate | discriminate].
Qed.

Lemma firstn_nonempty : forall (A : Type) (l : list A) k, l <> [] -> (0 < k)%nat -> firstn k l <> [].
Proof. intros A [|x l] [|k] H1 H2; try congruence; try lia. discriminate. Qed.

Section Runs.
Variable shf : bool -> N -> N.
Hypothesis shf_inj : forall b i b' i', shf b i = shf b' i' -> b = b' /\ i = i'.
Variable fx : bool.
Variables gap maxun : N.

Lemma mine_of_spec : forall ks sh, mine_of shf ks sh = true <-> exists k, In k (ks_pubs ks) /\ shf (fst k) (snd k) = sh.
Proof.
  intros. unfold mine_of. rewrite existsb_exists. split; intros (k & H1 & H2); exists k; split; auto.
  - apply N.eqb_eq. exact H2.
  - apply N.eqb_eq in H2. exact H2.
Qed.

Lemma api_is_new : forall used cls w r,
  api_create_address shf fx gap maxun used cls w = KOk r -> new_address shf fx gap used cls w = KOk r.
Proof.
  intros used cls w r H. unfold api_create_address in H.
  destruct (cls && (maxun <=? unused_count (listing (if cls then 1 else 0) (w_recs w)))); [discriminate|].
  destruct (negb cls && (u32 (gap + two32 - maxun) <=? unused_count (listing (if cls then 1 else 0) (w_recs w)))); [discriminate|].
  exact H.
Qed.

Lemma new_address_ok : forall used cls w a w',
  new_address shf fx gap used cls w = KOk (a, w') ->
  exists ks', next_addresses fx gap used (w_ks w) = KOk (snd a, ks') /\ fst a = cls /\
              w' = {| w_ks := ks'; w_recs := rec_put (w_recs w) cls (shf false (snd a)) 0 |}.
Proof.
  intros used cls w a w' H. unfold new_address in H.
  destruct (next_addresses fx gap used (w_ks w)) as [[i ks']|e] eqn:E; [|discriminate].
  inversion H. subst. exists ks'. cbn [fst snd]. auto.
Qed.

(* environment assumptions of one event *)
Definition ev_ok (s : rstate) (e : ev) : Prop :=
  match e with
  | ENew _ _ _ =>
      (* E3: an address is not paid before it is issued; fewer than 2^31 - 1 addresses *)
      pays_any (r_chain s) (shf false (ks_next_e (w_ks (r_wal s)))) = false /\
      ks_next_e (w_ks (r_wal s)) < max_addresses
  | ESync new =>
      let k := common_prefix (r_chain s) new in
      (0 < k)%nat /\ firstn k (r_chain s) = firstn k new /\ heights_ok new
  | EReload => True
  end.

Fixpoint run_ok (s : rstate) (evs : list ev) : Prop :=
  match evs with
  | [] => True
  | e :: rest => ev_ok s e /\ run_ok (rstep shf fx gap maxun s e) rest
  end.

Definition run_from (s : rstate) (evs : list ev) : rstate := fold_left (rstep shf fx gap maxun) evs s.

Record Inv (s : rstate) : Prop := {
  inv_ne : r_chain s <> [];
  inv_heights : heights_ok (r_chain s);
  inv_recs : rec_ok (mine_of shf (w_ks (r_wal s))) (r_chain s) (w_recs (r_wal s));
  inv_ks : ks_wf (w_ks (r_wal s));
  inv_nozz : forall sh, rec_get (w_recs (r_wal s)) false sh = Some 0%Z ->
                        rec_get (w_recs (r_wal s)) true sh = Some 0%Z -> False
}.

Lemma fresh_not_mine : forall ks, ks_wf ks -> mine_of shf ks (shf false (ks_next_e ks)) = false.
Proof.
  intros ks Hwf. destruct (mine_of shf ks (shf false (ks_next_e ks))) eqn:M; [|reflexivity].
  apply mine_of_spec in M. destruct M as ([b i] & Hin & Heq). cbn [fst snd] in Heq.
  apply shf_inj in Heq. destruct Heq as [-> ->]. apply Hwf in Hin. lia.
Qed.

Lemma pays_any_false : forall c sh stk, pays_any c sh = false -> pays_form c stk sh = false.
Proof. intros c sh stk H. unfold pays_any in H. apply orb_false_iff in H. destruct stk; tauto. Qed.

Lemma Inv_new : forall s used cls a w',
  Inv s -> pays_any (r_chain s) (shf false (ks_next_e (w_ks (r_wal s)))) = false ->
  new_address shf fx gap used cls (r_wal s) = KOk (a, w') ->
  Inv {| r_wal := w'; r_chain := r_chain s; r_issued := a :: r_issued s |}.
Proof.
  intros s used cls a w' HI Hfresh H. destruct HI as [Hne Hh Hr Hk Hz].
  apply new_address_ok in H. destruct H as (ks' & Hn & Hc & Hw). subst w'.
  pose proof (next_addresses_ok _ _ _ _ _ _ Hn) as (Hi & Hnext & _ & Hp & _).
  pose proof (fresh_not_mine _ Hk) as Hnm. rewrite <- Hi in Hnm, Hfresh.
  assert (Hmine : forall sh, mine_of shf ks' sh = mine_of shf (w_ks (r_wal s)) sh || (shf false (snd a) =? sh)).
  { intro sh. unfold mine_of. rewrite Hp, existsb_app. cbn [existsb fst snd]. rewrite orb_false_r. reflexivity. }
  assert (Hnone : forall stk, rec_get (w_recs (r_wal s)) stk (shf false (snd a)) = None).
  { intro stk. specialize (Hr stk (shf false (snd a))).
    destruct (rec_get (w_recs (r_wal s)) stk (shf false (snd a))); [|reflexivity].
    destruct Hr as (Hm & _). congruence. }
  constructor; cbn [r_chain r_wal w_ks w_recs].
  - exact Hne.
  - exact Hh.
  - intros stk sh. destruct (key_dec (stk, sh) (cls, shf false (snd a))) as [E|E].
    + inversion E. subst. rewrite rec_get_put_same. rewrite Hmine, N.eqb_refl, orb_true_r.
      split; [reflexivity|]. split; [lia|]. split; [intros; lia|]. intros _. apply pays_any_false. exact Hfresh.
    + rewrite rec_get_put_other by exact E. specialize (Hr stk sh). rewrite Hmine.
      destruct (rec_get (w_recs (r_wal s)) stk sh) as [h|].
      * destruct Hr as (Hm & Hrest). rewrite Hm. cbn [orb]. split; [reflexivity | exact Hrest].
      * intros Hm. apply orb_true_iff in Hm. destruct Hm as [Hm|Hm]; [auto|].
        apply N.eqb_eq in Hm. subst sh. apply pays_any_false. exact Hfresh.
  - eapply ks_wf_next; eassumption.
  - intros sh H1 H2. destruct (N.eq_dec sh (shf false (snd a))) as [->|Hne'].
    + destruct cls.
      * rewrite rec_get_put_other in H1 by congruence. rewrite Hnone in H1. discriminate.
      * rewrite rec_get_put_other in H2 by congruence. rewrite Hnone in H2. discriminate.
    + rewrite rec_get_put_other in H1 by congruence. rewrite rec_get_put_other in H2 by congruence. eauto.
Qed.

Lemma sync_decomp : forall old new,
  let k := common_prefix old new in
  old <> [] -> (0 < k)%nat -> firstn k old = firstn k new ->
  exists p rm ad, p <> [] /\ old = p ++ rm /\ new = p ++ ad /\ rm = skipn k old /\ ad = skipn k new.
Proof.
  intros old new k Hne Hk Hf. exists (firstn k old), (skipn k old), (skipn k new).
  split; [apply firstn_nonempty; assumption|]. split; [symmetry; apply firstn_skipn|].
  split; [rewrite Hf; symmetry; apply firstn_skipn | auto].
Qed.

Lemma Inv_step : forall s e, Inv s -> ev_ok s e -> Inv (rstep shf fx gap maxun s e).
Proof.
  intros s e HI Hok. destruct e as [cls api node|new|]; cbn [rstep].
  - destruct Hok as [Hfresh _].
    destruct api.
    + destruct (api_create_address shf fx gap maxun (oracle_of shf node) cls (r_wal s)) as [[a w']|err] eqn:E; [|exact HI].
      apply api_is_new in E. eapply Inv_new; eassumption.
    + destruct (new_address shf fx gap (oracle_of shf node) cls (r_wal s)) as [[a w']|err] eqn:E; [|exact HI].
      eapply Inv_new; eassumption.
  - destruct Hok as (Hk & Hf & Hhn). destruct HI as [Hne Hh Hr Hks Hz].
    destruct (sync_decomp (r_chain s) new Hne Hk Hf) as (p & rm & ad & Hp & Ho & Hn & Hrm & Had).
    unfold wal_sync. rewrite <- Hrm, <- Had.
    constructor; cbn [r_chain r_wal w_ks w_recs].
    + rewrite Hn. destruct p; [congruence | discriminate].
    + exact Hhn.
    + rewrite Hn. apply connect_list_ok; [exact Hp | rewrite <- Hn; exact Hhn |].
      apply rollback_list_ok; [exact Hp | rewrite <- Ho; exact Hh | rewrite <- Ho; exact Hr].
    + exact Hks.
    + intros sh H1 H2.
      apply (connect_list_zero _ _ p) in H1; [|exact Hp | rewrite <- Hn; exact Hhn].
      apply (connect_list_zero _ _ p) in H2; [|exact Hp | rewrite <- Hn; exact Hhn].
      apply rollback_recs_zero in H1. apply rollback_recs_zero in H2. eauto.
  - destruct HI as [Hne Hh Hr Hks Hz]. constructor; cbn [r_chain r_wal wal_reload w_ks w_recs]; try assumption.
Qed.

Lemma Inv_run : forall evs s, Inv s -> run_ok s evs -> Inv (run_from s evs).
Proof.
  intros evs. induction evs as [|e evs IH]; intros s HI Hok; [exact HI|].
  destruct Hok as [He Hrest]. cbn [run_from fold_left]. apply IH; [apply Inv_step; assumption | exact Hrest].
Qed.

Lemma Inv_init : forall g, b_height g = 0%Z -> Inv (rinit g).
Proof.
  intros g Hg. constructor; cbn.
  - discriminate.
  - intros i b Hn. destruct i as [|i]; cbn in Hn; [inversion Hn; subst; exact Hg | destruct i; discriminate].
  - intros stk sh. cbn. intros; discriminate.
  - intros i. cbn. split; [tauto | lia].
  - intros sh H. discriminate.
Qed.

(* ---------------------------------------------------------------- listing *)

Lemma dedupN_In : forall l x, In x (dedupN l) <-> In x l.
Proof.
  induction l as [|y l IH]; intros x; [tauto|]. cbn [dedupN].
  destruct (existsb (N.eqb y) l) eqn:E.
  - rewrite IH. cbn [In]. split; [tauto|]. intros [->|H]; [|exact H].
    apply existsb_exists in E. destruct E as (z & Hz & Hyz). apply N.eqb_eq in Hyz. subst. exact Hz.
  - cbn [In]. rewrite IH. tauto.
Qed.

Lemma rec_shs_In : forall rs stk sh h, rec_get rs stk sh = Some h -> In sh (rec_shs rs).
Proof.
  intros rs stk sh h H. apply rec_get_in in H. unfold rec_shs. apply dedupN_In.
  apply in_map_iff. exists (stk, sh, h). auto.
Qed.

Lemma in_listing_stk : forall rs e,
  In e (listing_stk rs) <-> exists h, rec_get rs true (ae_sh e) = Some h /\ e = {| ae_stk := true; ae_sh := ae_sh e; ae_used := (0 <? h)%Z |}.
Proof.
  intros rs e. unfold listing_stk. rewrite in_flat_map. split.
  - intros (sh & Hsh & Hin). destruct (rec_get rs true sh) as [h|] eqn:G; [|destruct Hin].
    destruct Hin as [<-|[]]. cbn [ae_sh]. exists h. auto.
  - intros (h & G & He). exists (ae_sh e). split; [eapply rec_shs_In; exact G|]. rewrite G. left. auto.
Qed.

Lemma in_listing_std : forall rs e,
  In e (listing_std rs) <-> exists u, std_entry rs (ae_sh e) = Some u /\ e = {| ae_stk := false; ae_sh := ae_sh e; ae_used := u |}.
Proof.
  intros rs e. unfold listing_std. rewrite in_flat_map. split.
  - intros (sh & Hsh & Hin). destruct (std_entry rs sh) as [u|] eqn:G; [|destruct Hin].
    destruct Hin as [<-|[]]. cbn [ae_sh]. exists u. auto.
  - intros (u & G & He). exists (ae_sh e). split.
    + unfold std_entry in G.
      destruct (rec_get rs false (ae_sh e)) as [hs|] eqn:G1; [eapply rec_shs_In; exact G1|].
      destruct (rec_get rs true (ae_sh e)) as [ht|] eqn:G2; [eapply rec_shs_In; exact G2 | discriminate].
    + rewrite G. left. auto.
Qed.

Lemma in_listing : forall filter rs e,
  In e (listing filter rs) -> In e (listing_std rs) \/ In e (listing_stk rs).
Proof.
  intros filter rs e H. unfold listing in H.
  destruct (filter =? 0); [left; exact H|]. destruct (filter =? 1); [right; exact H|].
  apply in_app_iff in H. exact H.
Qed.

(* C12_used_flag, at the level of the records and of the listing *)
Lemma used_flag_rec : forall s stk sh,
  Inv s -> mine_of shf (w_ks (r_wal s)) sh = true ->
  rec_used (w_recs (r_wal s)) stk sh = pays_form (r_chain s) stk sh.
Proof. intros s stk sh HI Hm. eapply rec_ok_used; [apply (inv_recs _ HI) | exact Hm]. Qed.

Lemma rec_present_mine : forall s stk sh h,
  Inv s -> rec_get (w_recs (r_wal s)) stk sh = Some h -> mine_of shf (w_ks (r_wal s)) sh = true /\ (0 <= h)%Z.
Proof.
  intros s stk sh h HI G. pose proof (inv_recs _ HI stk sh) as H. rewrite G in H. tauto.
Qed.

Lemma used_flag_listing : forall s filter e,
  Inv s -> In e (listing filter (w_recs (r_wal s))) ->
  ae_used e = if ae_stk e then pays_form (r_chain s) true (ae_sh e) else pays_any (r_chain s) (ae_sh e).
Proof.
  intros s filter e HI Hin. apply in_listing in Hin. destruct Hin as [Hin|Hin].
  - apply in_listing_std in Hin. destruct Hin as (u & Hs & He). rewrite He. cbn [ae_stk ae_used ae_sh].
    unfold pays_any. unfold std_entry in Hs.
    destruct (rec_get (w_recs (r_wal s)) false (ae_sh e)) as [hs|] eqn:G1;
    destruct (rec_get (w_recs (r_wal s)) true (ae_sh e)) as [ht|] eqn:G2.
    + destruct (rec_present_mine _ _ _ _ HI G1) as [Hm _].
      rewrite <- (used_flag_rec s false _ HI Hm), <- (used_flag_rec s true _ HI Hm).
      unfold rec_used. rewrite G1, G2.
      destruct (0 <? ht)%Z; [inversion Hs; rewrite orb_true_r; reflexivity|].
      destruct (0 <? hs)%Z; [inversion Hs; reflexivity | discriminate].
    + destruct (rec_present_mine _ _ _ _ HI G1) as [Hm _].
      rewrite <- (used_flag_rec s false _ HI Hm), <- (used_flag_rec s true _ HI Hm).
      unfold rec_used. rewrite G1, G2. inversion Hs. rewrite orb_false_r. reflexivity.
    + destruct (rec_present_mine _ _ _ _ HI G2) as [Hm _].
      rewrite <- (used_flag_rec s false _ HI Hm), <- (used_flag_rec s true _ HI Hm).
      unfold rec_used. rewrite G1, G2. destruct (0 <? ht)%Z; [inversion Hs; reflexivity | discriminate].
    + discriminate.
  - apply in_listing_stk in Hin. destruct Hin as (h & G & He). rewrite He. cbn [ae_stk ae_used ae_sh].
    destruct (rec_present_mine _ _ _ _ HI G) as [Hm _].
    rewrite <- (used_flag_rec s true _ HI Hm). unfold rec_used. rewrite G. reflexivity.
Qed.

Lemma listed_present : forall s stk sh h,
  Inv s -> rec_get (w_recs (r_wal s)) stk sh = Some h -> listed (w_recs (r_wal s)) stk sh = true.
Proof.
  intros s stk sh h HI G. unfold listed. apply existsb_exists.
  change (listing 2 (w_recs (r_wal s))) with (listing_std (w_recs (r_wal s)) ++ listing_stk (w_recs (r_wal s))).
  destruct stk.
  - exists {| ae_stk := true; ae_sh := sh; ae_used := (0 <? h)%Z |}. split.
    + apply in_app_iff. right. apply in_listing_stk. exists h. cbn [ae_sh]. auto.
    + cbn. rewrite N.eqb_refl. reflexivity.
  - assert (Hs : exists u, std_entry (w_recs (r_wal s)) sh = Some u).
    { unfold std_entry. rewrite G. destruct (rec_get (w_recs (r_wal s)) true sh) as [ht|] eqn:G2; [|eexists; reflexivity].
      destruct (0 <? ht)%Z eqn:E1; [eexists; reflexivity|]. destruct (0 <? h)%Z eqn:E2; [eexists; reflexivity|].
      exfalso. destruct (rec_present_mine _ _ _ _ HI G) as [_ H0]. destruct (rec_present_mine _ _ _ _ HI G2) as [_ H1].
      apply Z.ltb_ge in E1, E2. assert (h = 0%Z) by lia. assert (ht = 0%Z) by lia. subst.
      eapply (inv_nozz _ HI); eassumption. }
    destruct Hs as [u Hu]. exists {| ae_stk := false; ae_sh := sh; ae_used := u |}. split.
    + apply in_app_iff. left. apply in_listing_std. exists u. cbn [ae_sh]. auto.
    + cbn. rewrite N.eqb_refl. reflexivity.
Qed.

(* ---------------------------------------------------------------- C12_fresh_next *)

Lemma fresh_next : forall s used cls a w',
  Inv s -> pays_any (r_chain s) (shf false (ks_next_e (w_ks (r_wal s)))) = false ->
  new_address shf fx gap used cls (r_wal s) = KOk (a, w') ->
  a = (cls, ks_next_e (w_ks (r_wal s))) /\
  ~ In (false, snd a) (ks_pubs (w_ks (r_wal s))) /\
  mine_of shf (w_ks (r_wal s)) (shf false (snd a)) = false /\
  In (false, snd a) (ks_pubs (w_ks w')) /\
  ks_next_e (w_ks w') = snd a + 1 /\
  listed (w_recs w') cls (shf false (snd a)) = true /\
  rec_used (w_recs w') cls (shf false (snd a)) = false /\
  (* restart: counters, keys and records are the persisted ones *)
  ks_next_e (w_ks (wal_reload w')) = snd a + 1 /\
  ks_pubs (w_ks (wal_reload w')) = ks_pubs (w_ks w') /\
  w_recs (wal_reload w') = w_recs w'.
Proof.
  intros s used cls a w' HI Hfresh H.
  pose proof (Inv_new s used cls a w' HI Hfresh H) as HI'.
  pose proof H as H0. apply new_address_ok in H0. destruct H0 as (ks' & Hn & Hc & Hw).
  pose proof (next_addresses_ok _ _ _ _ _ _ Hn) as (Hi & Hnext & _ & Hp & _).
  pose proof (ks_wf_next _ _ _ _ _ _ (inv_ks _ HI) Hn) as [_ Hnotin].
  assert (Hget : rec_get (w_recs w') cls (shf false (snd a)) = Some 0%Z) by (subst w'; apply rec_get_put_same).
  split; [destruct a; cbn [fst snd] in *; congruence|].
  split; [exact Hnotin|].
  split; [rewrite Hi; apply fresh_not_mine; exact (inv_ks _ HI)|].
  split; [subst w'; cbn [w_ks]; rewrite Hp; apply in_app_iff; right; left; reflexivity|].
  split; [subst w'; exact Hnext|].
  split; [exact (listed_present _ _ _ _ HI' Hget)|].
  split; [unfold rec_used; rewrite Hget; reflexivity|].
  subst w'. cbn. auto.
Qed.

(* the indexes handed out are strictly increasing (newest first: strictly decreasing), hence pairwise different *)
Fixpoint decr (l : list (bool * N)) (bound : N) : Prop :=
  match l with
  | [] => True
  | a :: r => snd a < bound /\ decr r (snd a)
  end.

Lemma decr_weaken : forall l b b', decr l b -> b <= b' -> decr l b'.
Proof. intros [|a l] b b' H Hle; [exact I|]. destruct H. split; [lia | assumption]. Qed.

Lemma issued_step : forall s e,
  decr (r_issued s) (ks_next_e (w_ks (r_wal s))) ->
  decr (r_issued (rstep shf fx gap maxun s e)) (ks_next_e (w_ks (r_wal (rstep shf fx gap maxun s e)))).
Proof.
  intros s e Hd. destruct e as [cls api node|new|]; cbn [rstep]; [| exact Hd | exact Hd].
  assert (Hnew : forall a w', new_address shf fx gap (oracle_of shf node) cls (r_wal s) = KOk (a, w') ->
                 decr (a :: r_issued s) (ks_next_e (w_ks w'))).
  { intros a w' H. apply new_address_ok in H. destruct H as (ks' & Hn & _ & Hw). subst w'.
    apply next_addresses_ok in Hn. destruct Hn as (Hi & Hnext & _). cbn [w_ks decr]. rewrite Hnext, Hi.
    split; [lia | exact Hd]. }
  destruct api.
  - destruct (api_create_address shf fx gap maxun (oracle_of shf node) cls (r_wal s)) as [[a w']|err] eqn:E; [|exact Hd].
    apply api_is_new in E. cbn [r_issued r_wal]. apply Hnew. exact E.
  - destruct (new_address shf fx gap (oracle_of shf node) cls (r_wal s)) as [[a w']|err] eqn:E; [|exact Hd].
    cbn [r_issued r_wal]. apply Hnew. reflexivity.
Qed.

Lemma issued_run : forall evs s,
  decr (r_issued s) (ks_next_e (w_ks (r_wal s))) ->
  decr (r_issued (run_from s evs)) (ks_next_e (w_ks (r_wal (run_from s evs)))).
Proof.
  intros evs. induction evs as [|e evs IH]; intros s Hd; [exact Hd|].
  cbn [run_from fold_left]. apply IH. apply issued_step. exact Hd.
Qed.

Lemma decr_NoDup : forall l b, decr l b -> NoDup (map snd l) /\ forall a, In a l -> snd a < b.
Proof.
  induction l as [|x l IH]; intros b H; [split; [constructor | intros a []]|].
  destruct H as [Hx Hl]. destruct (IH _ Hl) as [Hnd Hlt]. split.
  - cbn [map]. constructor; [|exact Hnd]. intros Hin. apply in_map_iff in Hin. destruct Hin as (a & Ha & Hin).
    apply Hlt in Hin. lia.
  - intros a [->|Hin]; [exact Hx|]. apply Hlt in Hin. lia.
Qed.

(* ---------------------------------------------------------------- listed from then on, unless its first payment is reorganised away *)

Lemma rollback_recs_keeps : forall mine bs rs stk sh h,
  rec_get rs stk sh = Some h ->
  (forall b, In b bs -> ~ (b_height b = h /\ (0 < h)%Z /\ block_hits mine stk sh b = true)) ->
  rec_get (rollback_recs mine rs bs) stk sh = Some h.
Proof.
  intros mine bs. induction bs as [|b bs IH]; intros rs stk sh h G Hno; [exact G|].
  unfold rollback_recs. cbn [fold_left]. apply IH; [|intros b' Hb'; apply Hno; right; exact Hb'].
  rewrite rollback_block_get. destruct (block_hits mine stk sh b) eqn:Hh; [|exact G].
  rewrite G. cbn [unrolled]. destruct ((0 <? b_height b)%Z && (h =? b_height b)%Z) eqn:E; [|reflexivity].
  exfalso. apply andb_true_iff in E. destruct E as [E1 E2]. apply Z.ltb_lt in E1. apply Z.eqb_eq in E2.
  apply (Hno b); [left; reflexivity|]. split; [congruence|]. split; [lia | exact Hh].
Qed.

Definition loses (s : rstate) (e : ev) (stk : bool) (sh : N) : Prop :=
  match e with
  | ESync new =>
      exists b h, In b (skipn (common_prefix (r_chain s) new) (r_chain s)) /\
                  rec_get (w_recs (r_wal s)) stk sh = Some h /\ (0 < h)%Z /\ b_height b = h /\
                  pays_form [b] stk sh = true
  | _ => False
  end.

Lemma present_step : forall s e stk sh,
  Inv s -> rec_get (w_recs (r_wal s)) stk sh <> None -> ~ loses s e stk sh ->
  rec_get (w_recs (r_wal (rstep shf fx gap maxun s e))) stk sh <> None.
Proof.
  intros s e stk sh HI Hp Hnl. destruct e as [cls api node|new|]; cbn [rstep]; [| |exact Hp].
  - assert (Hnew : forall a w', new_address shf fx gap (oracle_of shf node) cls (r_wal s) = KOk (a, w') ->
                   rec_get (w_recs w') stk sh <> None).
    { intros a w' H. apply new_address_ok in H. destruct H as (ks' & _ & _ & Hw). subst w'. cbn [w_recs].
      destruct (key_dec (stk, sh) (cls, shf false (snd a))) as [E|E].
      - inversion E. subst. rewrite rec_get_put_same. discriminate.
      - rewrite rec_get_put_other by exact E. exact Hp. }
    destruct api.
    + destruct (api_create_address shf fx gap maxun (oracle_of shf node) cls (r_wal s)) as [[a w']|err] eqn:E; [|exact Hp].
      apply api_is_new in E. cbn [r_wal]. eapply Hnew. exact E.
    + destruct (new_address shf fx gap (oracle_of shf node) cls (r_wal s)) as [[a w']|err] eqn:E; [|exact Hp].
      cbn [r_wal]. eapply Hnew. reflexivity.
  - cbn [r_wal]. unfold wal_sync. cbn [w_recs]. apply connect_list_present.
    destruct (rec_get (w_recs (r_wal s)) stk sh) as [h|] eqn:G; [|congruence].
    erewrite rollback_recs_keeps; [discriminate | exact G|].
    intros b Hb (H1 & H2 & H3). apply Hnl. cbn [loses]. exists b, h.
    apply in_rev in Hb. rewrite block_hits_pays in H3. apply andb_true_iff in H3. tauto.
Qed.

(* ---------------------------------------------------------------- the gap invariant along a history, discovery *)

Definition ExtInv (s : rstate) : Prop :=
  (fx = true \/ ks_ext_only (w_ks (r_wal s))) /\ index_good fx (w_ks (r_wal s)).

(* usage is monotone towards the final chain: an address paid when some request was served is still paid *)
Definition run_mono (evs : list ev) (cfin : list block) : Prop :=
  forall cls api node, In (ENew cls api node) evs ->
    forall j, pays_any node (shf false j) = true -> pays_any cfin (shf false j) = true.

Lemma ext_step : forall s e u,
  Inv s -> ExtInv s -> ev_ok s e ->
  (forall cls api node, e = ENew cls api node -> forall j, pays_any node (shf false j) = true -> u j = true) ->
  gap_inv gap u (ks_next_e (w_ks (r_wal s))) ->
  ExtInv (rstep shf fx gap maxun s e) /\ gap_inv gap u (ks_next_e (w_ks (r_wal (rstep shf fx gap maxun s e)))).
Proof.
  intros s e u HI [Hx Hix] Hok Hmono Hg. destruct e as [cls api node|new|]; cbn [rstep].
  - destruct Hok as [_ Hmax].
    assert (Hnew : forall a w', new_address shf fx gap (oracle_of shf node) cls (r_wal s) = KOk (a, w') ->
                   ExtInv {| r_wal := w'; r_chain := r_chain s; r_issued := a :: r_issued s |} /\
                   gap_inv gap u (ks_next_e (w_ks w'))).
    { intros a w' H. apply new_address_ok in H. destruct H as (ks' & Hn & _ & Hw). subst w'. cbn [r_wal w_ks].
      split; [split; [destruct Hx as [Hx|Hx]; [left; exact Hx | right; eapply ks_ext_only_next; eassumption]
                     | eapply index_good_next; eassumption]|].
      pose proof (next_addresses_ok _ _ _ _ _ _ Hn) as (Hi & Hnext & _). rewrite Hnext, Hi.
      destruct (issue_ok_iff fx gap (oracle_of shf node) (w_ks (r_wal s)) Hmax Hix) as [Hiff _].
      eapply gap_inv_step; [|exact Hg|].
      - intros j Hj. eapply (Hmono cls api node eq_refl). exact Hj.
      - apply Hiff. exists ks'. rewrite <- Hi. exact Hn. }
    destruct api.
    + destruct (api_create_address shf fx gap maxun (oracle_of shf node) cls (r_wal s)) as [[a w']|err] eqn:E; [|split; [split|]; assumption].
      apply api_is_new in E. cbn [r_wal]. apply Hnew. exact E.
    + destruct (new_address shf fx gap (oracle_of shf node) cls (r_wal s)) as [[a w']|err] eqn:E; [|split; [split|]; assumption].
      cbn [r_wal]. apply Hnew. reflexivity.
  - cbn [r_wal wal_sync w_ks]. split; [split|]; assumption.
  - cbn [r_wal wal_reload w_ks ks_reload ks_next_e]. split; [|exact Hg]. split; [exact Hx|].
    apply index_good_reload; [exact (inv_ks _ HI) | exact Hx].
Qed.

Lemma run_gap_inv : forall evs s u,
  Inv s -> ExtInv s -> run_ok s evs ->
  (forall cls api node, In (ENew cls api node) evs -> forall j, pays_any node (shf false j) = true -> u j = true) ->
  gap_inv gap u (ks_next_e (w_ks (r_wal s))) ->
  ExtInv (run_from s evs) /\ gap_inv gap u (ks_next_e (w_ks (r_wal (run_from s evs)))).
Proof.
  intros evs. induction evs as [|e evs IH]; intros s u HI HX Hok Hmono Hg; [split; assumption|].
  destruct Hok as [He Hrest]. cbn [run_from fold_left].
  destruct (ext_step s e u HI HX He) as [HX' Hg']; [|exact Hg|].
  - intros cls api node -> j Hj. eapply Hmono; [left; reflexivity | exact Hj].
  - apply IH; [apply Inv_step; assumption | exact HX' | exact Hrest | | exact Hg'].
    intros cls api node Hin. eapply Hmono. right. exact Hin.
Qed.

Lemma ExtInv_init : forall g, ExtInv (rinit g).
Proof. intros g. split; [right; intros i H; exact H | intros j Hj; cbn in Hj; lia]. Qed.

(* C12_discovery_complete *)
Theorem discovery_complete : forall g evs cfin hint fuel w',
  b_height g = 0%Z ->
  run_ok (rinit g) evs -> run_mono evs cfin ->
  (forall j, pays_any cfin (shf false j) = true -> j + 1 + gap < two32) ->
  wal_restore shf fuel gap hint 0 cfin = Some w' ->
  forall j, j < ks_next_e (w_ks (r_wal (run_from (rinit g) evs))) ->
            pays_any cfin (shf false j) = true ->
            In (false, j) (ks_pubs (w_ks w')).
Proof.
  intros g evs cfin hint fuel w' Hg Hok Hmono Hov Hr j Hj Hpaid.
  set (u := fun j => pays_any cfin (shf false j)).
  destruct (run_gap_inv evs (rinit g) u (Inv_init g Hg) (ExtInv_init g) Hok) as [_ Hinv].
  { intros cls api node Hin j' Hj'. exact (Hmono cls api node Hin j' Hj'). }
  { apply gap_inv_0. }
  unfold wal_restore in Hr.
  destruct (ks_restore fuel gap hint 0 (oracle_of shf cfin)) as [ks|] eqn:K; [|discriminate].
  inversion Hr. subst w'. cbn [w_ks].
  destruct (ks_restore_good _ _ _ _ _ _ K) as (Hwf & _ & _ & Hrb).
  apply Hwf. eapply restore_branch_complete; [| | exact Hinv | exact Hrb | exact Hj | exact Hpaid].
  - destruct (hint =? 0) eqn:E; [discriminate | apply N.eqb_neq in E; exact E].
  - exact Hov.
Qed.

(* a scan that is given enough fuel answers *)
Lemma restore_answers : forall cfin (hint B : N) (fuel : nat),
  (forall br j, B <= j -> pays_any cfin (shf br j) = false) ->
  (N.to_nat (N.max B (if (hint =? 0)%N then 1%N else hint) + gap)%N < fuel)%nat ->
  exists w', wal_restore shf fuel gap hint 0 cfin = Some w'.
Proof.
  intros cfin hint B fuel HB Hf. unfold wal_restore, ks_restore.
  change (restore_branch fuel gap 0 (oracle_of shf cfin true)) with (Some 0).
  set (he := if hint =? 0 then 1 else hint) in *.
  unfold restore_branch. assert (Hhe : (he =? 0) = false).
  { apply N.eqb_neq. unfold he. destruct (hint =? 0) eqn:E; [discriminate | apply N.eqb_neq in E; exact E]. }
  rewrite Hhe.
  destruct (scan_fuel (oracle_of shf cfin false) gap he B (fun j Hj => HB false j Hj) fuel 0 0) as [[last i'] Hs]; [lia | lia |].
  rewrite Hs. eexists. reflexivity.
Qed.

(* ---------------------------------------------------------------- a restored wallet satisfies the invariant *)

Lemma restore_rs0_get : forall (pubs : list key) rs stk sh,
  rec_get (fold_left (fun rs (k : bool * N) => rec_put rs false (shf (fst k) (snd k)) 0) pubs rs) stk sh =
  if negb stk && existsb (fun k : bool * N => shf (fst k) (snd k) =? sh) pubs then Some 0%Z else rec_get rs stk sh.
Proof.
  intros pubs. induction pubs as [|k pubs IH]; intros rs stk sh.
  - cbn. rewrite andb_false_r. reflexivity.
  - cbn [fold_left existsb]. rewrite IH.
    destruct (negb stk && existsb (fun k0 : bool * N => shf (fst k0) (snd k0) =? sh) pubs) eqn:E.
    + apply andb_true_iff in E. destruct E as [E1 E2]. rewrite E1, E2, orb_true_r. reflexivity.
    + destruct (key_dec (stk, sh) (false, shf (fst k) (snd k))) as [K|K].
      * inversion K. subst. rewrite rec_get_put_same. cbn [negb andb]. rewrite N.eqb_refl. reflexivity.
      * rewrite rec_get_put_other by exact K.
        destruct stk; cbn [negb andb]; [reflexivity|]. cbn [negb andb] in E. rewrite E, orb_false_r.
        destruct (shf (fst k) (snd k) =? sh) eqn:E2; [|reflexivity].
        apply N.eqb_eq in E2. subst sh. congruence.
Qed.

Lemma restore_Inv : forall fuel hint_e hint_i g rest w',
  b_height g = 0%Z -> b_txs g = [] -> heights_ok (g :: rest) ->
  wal_restore shf fuel gap hint_e hint_i (g :: rest) = Some w' ->
  Inv {| r_wal := w'; r_chain := g :: rest; r_issued := [] |} /\
  (fx = true \/ hint_i = 0 -> ExtInv {| r_wal := w'; r_chain := g :: rest; r_issued := [] |}).
Proof.
  intros fuel hint_e hint_i g rest w' Hg Htx Hh Hr. unfold wal_restore in Hr.
  destruct (ks_restore fuel gap hint_e hint_i (oracle_of shf (g :: rest))) as [ks|] eqn:K; [|discriminate].
  inversion Hr. subst w'. clear Hr.
  set (rs0 := fold_left (fun rs (k : bool * N) => rec_put rs false (shf (fst k) (snd k)) 0) (ks_pubs ks) []).
  assert (Hg0 : forall stk sh, pays_form [g] stk sh = false).
  { intros. unfold pays_form, chain_outs, block_outs. cbn [flat_map]. rewrite Htx. reflexivity. }
  assert (Hcg : connect_recs (mine_of shf ks) rs0 g = rs0).
  { unfold connect_recs, block_outs. rewrite Htx. reflexivity. }
  cbn [fold_left]. rewrite Hcg.
  assert (H0 : rec_ok (mine_of shf ks) [g] rs0).
  { intros stk sh. unfold rs0. rewrite restore_rs0_get. cbn [rec_get find].
    destruct (negb stk && existsb (fun k : bool * N => shf (fst k) (snd k) =? sh) (ks_pubs ks)) eqn:E.
    - apply andb_true_iff in E. destruct E as [_ E]. split; [exact E|]. split; [lia|]. split; [intros; lia | intros; apply Hg0].
    - intros _. apply Hg0. }
  destruct (ks_restore_good _ _ _ _ _ _ K) as (Hks & Hxo & Hgood & _).
  split.
  - constructor; cbn [r_chain r_wal w_ks w_recs].
    + discriminate.
    + exact Hh.
    + change (g :: rest) with ([g] ++ rest). apply connect_list_ok; [discriminate | exact Hh | exact H0].
    + exact Hks.
    + intros sh _ H2. apply (connect_list_zero _ _ [g]) in H2; [|discriminate | exact Hh].
      unfold rs0 in H2. rewrite restore_rs0_get in H2. cbn in H2. discriminate.
  - intros Hfx. split; [|apply Hgood; exact Hfx]. cbn [r_wal w_ks].
    destruct Hfx as [Hfx|Hfx]; [left; exact Hfx | right; exact (Hxo Hfx)].
Qed.

End Runs.

(* ================================================================ witnesses *)

Definition heights_okb (c : list block) : bool :=
  forallb (fun p => (b_height (snd p) =? Z.of_nat (fst p))%Z) (combine (seq 0 (length c)) c).

Lemma heights_okb_from : forall c k,
  forallb (fun p => (b_height (snd p) =? Z.of_nat (fst p))%Z) (combine (seq k (length c)) c) = true ->
  forall i b, nth_error c i = Some b -> b_height b = Z.of_nat (k + i).
Proof.
  induction c as [|x c IH]; intros k H i b Hn; [destruct i; discriminate|].
  cbn [length seq combine forallb] in H. apply andb_true_iff in H. destruct H as [H1 H2].
  destruct i as [|i]; cbn in Hn.
  - inversion Hn. subst. cbn [fst snd] in H1. apply Z.eqb_eq in H1. rewrite Nat.add_0_r. exact H1.
  - rewrite (IH (S k) H2 i b Hn). f_equal. lia.
Qed.

Lemma heights_okb_ok : forall c, heights_okb c = true -> heights_ok c.
Proof. intros c H i b Hn. exact (heights_okb_from c 0 H i b Hn). Qed.

(* script-hash numbering of the witnesses: external index i -> 2i+1, internal -> 2i+2 *)
Definition shf0 (br : bool) (i : N) : N := 2 * i + (if br then 2 else 1).

Lemma shf0_inj : forall b i b' i', shf0 b i = shf0 b' i' -> b = b' /\ i = i'.
Proof. intros b i b' i' H. unfold shf0 in H. destruct b, b'; split; try reflexivity; lia. Qed.

Definition wg : block := {| b_id := 0; b_prev := 0; b_height := 0; b_txs := [] |}.
Definition wpay (id prev : N) (h : Z) (outs : list (N * oclass)) : block :=
  {| b_id := id; b_prev := prev; b_height := h;
     b_txs := [ {| t_id := id; t_cb := true; t_ins := [];
                   t_outs := map (fun o => {| o_sh := fst o; o_val := 1000000; o_class := snd o |}) outs |} ] |}.

(* one standard address, paid in block 1, block 1 replaced by an empty block: the address is
   issued, unpaid, and no longer listed *)
Definition wl_b1 := wpay 1 0 1 [(shf0 false 0, CStd)].
Definition wl_b1' := wpay 2 0 1 [].
Definition wl_evs : list ev := [ENew false false [wg]; ESync [wg; wl_b1]; ESync [wg; wl_b1']].

Lemma listed_refuted_after_reorg :
  exists gap evs,
    run_ok shf0 true gap 1 (rinit wg) evs /\
    let s := run_from shf0 true gap 1 (rinit wg) evs in
    r_issued s = [(false, 0)] /\
    listed (w_recs (r_wal s)) false (shf0 false 0) = false /\
    pays_any (r_chain s) (shf0 false 0) = false /\
    (* it was listed, with the flag set, while block 1 was on the chain *)
    let s1 := run_from shf0 true gap 1 (rinit wg) (firstn 2 evs) in
    listed (w_recs (r_wal s1)) false (shf0 false 0) = true /\
    rec_used (w_recs (r_wal s1)) false (shf0 false 0) = true.
Proof.
  exists 2, wl_evs. split.
  - cbn [run_ok wl_evs]. split; [split; [reflexivity | vm_compute; reflexivity]|].
    split; [split; [vm_compute; lia | split; [reflexivity | apply heights_okb_ok; reflexivity]]|].
    split; [split; [vm_compute; lia | split; [reflexivity | apply heights_okb_ok; reflexivity]] | exact I].
  - vm_compute. repeat split; reflexivity.
Qed.

Lemma pays_any_in : forall c sh, pays_any c sh = true -> In sh (map o_sh (chain_outs c)).
Proof.
  intros c sh H. unfold pays_any, pays_form in H. apply orb_true_iff in H.
  destruct H as [H|H]; apply existsb_exists in H; destruct H as (o & Hin & Ho);
    apply andb_true_iff in Ho; destruct Ho as [Ho _]; apply N.eqb_eq in Ho; subst sh;
    apply in_map; exact Hin.
Qed.

(* gap limit 2: indexes 0,1 are free; index 1 is paid in block 1, which justifies 2 and 3; block 1
   is reorganised away, index 3 is paid on the new branch; a restore with hint 0 examines
   0,1,2 only and misses index 3 *)
Definition wd_b1 := wpay 1 0 1 [(shf0 false 1, CStd)].
Definition wd_b1' := wpay 2 0 1 [].
Definition wd_b2' := wpay 3 2 2 [(shf0 false 3, CStd)].
Definition wd_fin : list block := [wg; wd_b1'; wd_b2'].
Definition wd_evs : list ev :=
  [ENew false false [wg]; ENew false false [wg]; ESync [wg; wd_b1];
   ENew false false [wg; wd_b1]; ENew false false [wg; wd_b1]; ESync wd_fin].

Lemma discovery_refuted_under_reorg :
  exists gap evs cfin hint fuel w' j,
    2 <= gap /\ b_height wg = 0%Z /\
    run_ok shf0 true gap 1 (rinit wg) evs /\
    r_chain (run_from shf0 true gap 1 (rinit wg) evs) = cfin /\
    (forall i, pays_any cfin (shf0 false i) = true -> i + 1 + gap < two32) /\
    wal_restore shf0 fuel gap hint 0 cfin = Some w' /\
    j < ks_next_e (w_ks (r_wal (run_from shf0 true gap 1 (rinit wg) evs))) /\
    pays_any cfin (shf0 false j) = true /\
    ~ In (false, j) (ks_pubs (w_ks w')) /\
    (* the only premise of discovery_complete that fails: usage is not monotone *)
    ~ run_mono shf0 evs cfin.
Proof.
  exists 2, wd_evs, wd_fin, 0, 20%nat.
  eexists. exists 3. split; [lia|]. split; [reflexivity|].
  assert (Hok : run_ok shf0 true 2 1 (rinit wg) wd_evs).
  { cbn [run_ok wd_evs].
    split; [split; [reflexivity | vm_compute; reflexivity]|].
    split; [split; [reflexivity | vm_compute; reflexivity]|].
    split; [split; [vm_compute; lia | split; [reflexivity | apply heights_okb_ok; reflexivity]]|].
    split; [split; [reflexivity | vm_compute; reflexivity]|].
    split; [split; [reflexivity | vm_compute; reflexivity]|].
    split; [split; [vm_compute; lia | split; [reflexivity | apply heights_okb_ok; reflexivity]] | exact I]. }
  split; [exact Hok|]. split; [reflexivity|].
  split.
  { intros i Hi. assert (Hi3 : i = 3).
    { apply pays_any_in in Hi. remember (shf0 false i) as sh eqn:Hsh. vm_compute in Hi.
      destruct Hi as [Hi|[]]. subst sh. unfold shf0 in Hi. lia. }
    subst. vm_compute. reflexivity. }
  split; [vm_compute; reflexivity|].
  split; [vm_compute; reflexivity|].
  split; [vm_compute; reflexivity|].
  split.
  - cbn. intros [H|[]]. discriminate.
  - intros Hm. specialize (Hm false false [wg; wd_b1]).
    assert (Hin : In (ENew false false [wg; wd_b1]) wd_evs) by (cbn; tauto).
    specialize (Hm Hin 1 eq_refl). vm_compute in Hm. discriminate.
Qed.

(* the same history is discovered completely when the hint reaches the gap window *)
Example discovery_with_hint_2 :
  exists w', wal_restore shf0 20 2 2 0 wd_fin = Some w' /\ In (false, 3) (ks_pubs (w_ks w')).
Proof. eexists. split; [vm_compute; reflexivity | cbn; tauto]. Qed.

(* D3, the code as found (fx = false): the index map is keyed by the child number only.  After an import that also materialised
   internal addresses 0 and 1 (both used), the gap window of the external branch reads the internal
   addresses: index 2 is issued although neither external 0 nor external 1 has chain history *)
Definition wc_used (br : bool) (i : N) : bool := br && (i <? 2).

Lemma index_collision_refuted :
  exists gap used ks i ks',
    ks_restore 20 gap 2 2 used = Some ks /\
    spec_refuse gap (used false) (ks_next_e ks) = true /\
    next_addresses false gap used (ks_reload ks) = KOk (i, ks') /\
    (* the repaired code refuses *)
    next_addresses true gap used (ks_reload ks) = KErr EGapLimit.
Proof.
  exists 2, wc_used. eexists. eexists. eexists.
  split; [vm_compute; reflexivity|]. split; [vm_compute; reflexivity|]. split; vm_compute; reflexivity.
Qed.

(* non-vacuity: a history with requests of both classes, a payment, a reorg that keeps it, a restart *)
Definition we_b1 := wpay 1 0 1 [(shf0 false 1, CStaking 3)].
Definition we_b2 := wpay 2 1 2 [(shf0 false 0, CStd)].
Definition we_b2' := wpay 3 1 2 [(shf0 false 2, CBindingOld)].
Definition we_evs : list ev :=
  [ENew false false [wg]; ENew true true [wg]; ESync [wg; we_b1]; ENew false false [wg; we_b1];
   ESync [wg; we_b1; we_b2]; EReload; ESync [wg; we_b1; we_b2']; ENew false false [wg; we_b1; we_b2']].

Example run_ok_example :
  run_ok shf0 true 2 1 (rinit wg) we_evs /\
  r_issued (run_from shf0 true 2 1 (rinit wg) we_evs) = [(false, 3); (false, 2); (true, 1); (false, 0)].
Proof.
  split; [|vm_compute; reflexivity]. cbn [run_ok we_evs].
  split; [split; [reflexivity | vm_compute; reflexivity]|].
  split; [split; [reflexivity | vm_compute; reflexivity]|].
  split; [split; [vm_compute; lia | split; [reflexivity | apply heights_okb_ok; reflexivity]]|].
  split; [split; [reflexivity | vm_compute; reflexivity]|].
  split; [split; [vm_compute; lia | split; [reflexivity | apply heights_okb_ok; reflexivity]]|].
  split; [exact I|].
  split; [split; [vm_compute; lia | split; [reflexivity | apply heights_okb_ok; reflexivity]]|].
  split; [split; [reflexivity | vm_compute; reflexivity] | exact I].
Qed.

(* ================================================================ statements used by Properties/C12.v *)

Lemma run_ok_app : forall shf fx gap maxun evs s e,
  run_ok shf fx gap maxun s (evs ++ [e]) ->
  run_ok shf fx gap maxun s evs /\ ev_ok shf (run_from shf fx gap maxun s evs) e.
Proof.
  intros shf fx gap maxun evs. induction evs as [|x evs IH]; intros s e H.
  - cbn in H. cbn. tauto.
  - cbn [app run_ok] in H. destruct H as [Hx H]. apply IH in H. cbn [run_ok run_from fold_left]. tauto.
Qed.

Section Statements.
Variable shf : bool -> N -> N.
Hypothesis shf_inj : forall b i b' i', shf b i = shf b' i' -> b = b' /\ i = i'.
Variable fx : bool.
Variables gap maxun : N.
Variable g : block.
Hypothesis g_height : b_height g = 0%Z.

Lemma reachable_Inv : forall evs,
  run_ok shf fx gap maxun (rinit g) evs -> Inv shf (rrun shf fx gap maxun g evs).
Proof. intros evs H. apply (Inv_run shf shf_inj fx gap maxun evs); [apply Inv_init; exact g_height | exact H]. Qed.

Lemma used_flag_run : forall evs filter e,
  run_ok shf fx gap maxun (rinit g) evs ->
  let s := rrun shf fx gap maxun g evs in
  In e (listing filter (w_recs (r_wal s))) ->
  ae_used e = if ae_stk e then pays_form (r_chain s) true (ae_sh e) else pays_any (r_chain s) (ae_sh e).
Proof. intros evs filter e H s Hin. apply (used_flag_listing shf s filter e); [apply reachable_Inv; exact H | exact Hin]. Qed.

Lemma used_flag_rec_run : forall evs stk sh,
  run_ok shf fx gap maxun (rinit g) evs ->
  let s := rrun shf fx gap maxun g evs in
  mine_of shf (w_ks (r_wal s)) sh = true ->
  rec_used (w_recs (r_wal s)) stk sh = pays_form (r_chain s) stk sh.
Proof. intros evs stk sh H s Hm. apply (used_flag_rec shf s stk sh); [apply reachable_Inv; exact H | exact Hm]. Qed.

Lemma issued_in_order : forall evs,
  let s := rrun shf fx gap maxun g evs in
  decr (r_issued s) (ks_next_e (w_ks (r_wal s))) /\ NoDup (map snd (r_issued s)).
Proof.
  intros evs s. assert (H : decr (r_issued s) (ks_next_e (w_ks (r_wal s)))).
  { apply (issued_run shf fx gap maxun evs (rinit g)). exact I. }
  split; [exact H | exact (proj1 (decr_NoDup _ _ H))].
Qed.

Lemma listed_from_then_on : forall evs e stk sh,
  run_ok shf fx gap maxun (rinit g) (evs ++ [e]) ->
  let s := rrun shf fx gap maxun g evs in
  rec_get (w_recs (r_wal s)) stk sh <> None ->
  ~ loses s e stk sh ->
  let s' := rstep shf fx gap maxun s e in
  rec_get (w_recs (r_wal s')) stk sh <> None /\ listed (w_recs (r_wal s')) stk sh = true.
Proof.
  intros evs e stk sh H s Hp Hnl s'. apply run_ok_app in H. destruct H as [H He].
  pose proof (reachable_Inv evs H) as HI.
  assert (Hp' : rec_get (w_recs (r_wal s')) stk sh <> None) by (exact (present_step shf fx gap maxun s e stk sh HI Hp Hnl)).
  split; [exact Hp'|].
  destruct (rec_get (w_recs (r_wal s')) stk sh) as [h|] eqn:G; [|congruence].
  apply (listed_present shf s' stk sh h); [|exact G]. apply (Inv_step shf shf_inj fx gap maxun s e HI He).
Qed.

End Statements.

(* ================================================================ tie to the Ledger's environment assumptions *)
Require Import MW.Ledger.Run MW.Ledger.WF.

Lemma linked_heights : forall c prev h,
  linked prev h c -> forall i b, nth_error c i = Some b -> b_height b = (h + Z.of_nat i)%Z.
Proof.
  induction c as [|x c IH]; intros prev h Hl i b Hn; [destruct i; discriminate|].
  cbn [linked] in Hl. destruct Hl as (_ & Hh & Hl). destruct i as [|i]; cbn in Hn.
  - inversion Hn. subst. lia.
  - rewrite (IH _ _ Hl i b Hn). lia.
Qed.

(* a chain that is well formed in the sense of Ledger/WF.v has the heights and the empty genesis
   block this development assumes *)
Lemma wf_chain_heights : forall c, wf_chain c ->
  heights_ok c /\ exists g rest, c = g :: rest /\ b_height g = 0%Z /\ b_txs g = [].
Proof.
  intros c [Hgen _ _ _ _]. destruct Hgen as (g & rest & -> & Hg & Htx & Hl). split.
  - intros i b Hn. destruct i as [|i]; cbn in Hn.
    + inversion Hn. subst. exact Hg.
    + rewrite (linked_heights _ _ _ Hl i b Hn). lia.
  - exists g, rest. auto.
Qed.
