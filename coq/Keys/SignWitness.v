(* Keys/SignWitness.v — closed witnesses over the perfect-cryptography instance (Keys/Toy.v):
   the hypotheses of the C03 theorems are satisfiable, and the statement of C03_sign_ok fails
   without its SIGHASH_SINGLE guard. *)
From Coq Require Import List ZArith Bool Lia.
Import ListNotations.
Require Import MW.Codec.Bip32 MW.Keys.Unlock MW.Keys.UnlockProofs MW.Keys.Sign MW.Keys.SignProofs MW.Keys.Toy.
Open Scope Z_scope.

Definition ex_right : bytes := [112; 97; 115; 115].
Definition ex_cfg : amcfg := Toy.cfg ex_right [1; 2; 3] [4; 5; 6] [(0, 0); (0, 1)].
(* every outpoint (_, v) is a confirmed, unspent standard coin of address (0, v mod 2) *)
Definition ex_env (op : outpoint) : look :=
  let a := (0, snd op mod 2) in
  LOut (mkU CStd (Toy.sha256 (Toy.redeem (Toy.pub_at a))) 500 (Some 3) false (Some a)).
Definition ex_tx : tx := mkTx [mkIn (7, 0) 0 []; mkIn (7, 1) 0 []] [[1; 2]] [9].
Definition ex_engine := engine_template Toy.pk Toy.verify Toy.sighash Toy.sha256 Toy.pk_of_redeem.
Definition ex_sign_raw :=
  sign_raw Toy.kdf Toy.digest Toy.shash Toy.open_box Toy.sk Toy.branch_ok Toy.derive_sk Toy.sign true true true ex_cfg
           Toy.pk Toy.sighash Toy.redeem Toy.pub_at 1000 ex_env true 10 ex_engine.

Lemma ex_env_ok : forall op u a, ex_env op = LOut u -> u_addr u = Some a ->
  Unlock.known ex_cfg a = true /\ u_prog u = Toy.sha256 (Toy.redeem (Toy.pub_at a)).
Proof.
  intros op u a E A. unfold ex_env in E. inversion E; subst u; clear E. cbn [u_addr u_prog] in *.
  inversion A; subst a; clear A. split; [|reflexivity].
  assert (M : snd op mod 2 = 0 \/ snd op mod 2 = 1).
  { assert (0 <= snd op mod 2 < 2) by (apply Z.mod_pos_bound; lia). lia. }
  destruct M as [-> | ->]; reflexivity.
Qed.

Lemma ex_laws :
  unlock_laws Toy.kdf Toy.digest Toy.shash Toy.open_box Toy.sk Toy.branch_ok Toy.derive_sk ex_cfg
              ex_right [4; 5; 6] [1; 2; 3] Toy.sk_of /\
  sign_laws Toy.sk Toy.sign ex_cfg Toy.sk_of Toy.pk Toy.verify Toy.pub_of Toy.sighash Toy.sha256 Toy.redeem
            Toy.pk_of_redeem Toy.pub_at ex_env ex_engine.
Proof.
  split; [apply Toy.toy_unlock_laws; reflexivity|].
  apply (Toy.toy_sign_laws ex_right [1; 2; 3] [4; 5; 6] [(0, 0); (0, 1)] ex_env ex_env_ok).
Qed.

Lemma ex_owned : owned 1000 ex_env true 10 ex_tx.
Proof.
  intros i inp N. destruct i as [|[|i]]; cbn in N; try (destruct i; discriminate);
    inversion N; subst inp; eexists; eexists; eexists; repeat split; reflexivity.
Qed.

Lemma single_unguarded_refuted_witness :
  owned 1000 ex_env true 10 ex_tx /\ parse_flag s_single = Some FSingle /\
  exists t', ex_sign_raw (init_state ex_cfg) ex_right s_single ex_tx = (SErr SEngine, (init_state ex_cfg), t', None) /\
             wit_shape t' = [2%nat; 0%nat].
Proof.
  split; [exact ex_owned|]. split; [reflexivity|]. eexists. split; vm_compute; reflexivity.
Qed.
