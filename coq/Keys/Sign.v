(* Keys/Sign.v — model of WalletManager.SignRawTx / signWitnessTx (masswallet/wallet.go, tx.go)
   on top of the unlock machine of Keys/Unlock.v. Definitions only; proofs in SignProofs.v.

   Abstract (Section variables):
     verify / pub_of   ECDSA verification and the public key of a private key (btcec)
     sighash           mass-core txscript.calcWitnessSignatureHash (flag, tx, input index, amount,
                       script code) — assumed to ignore the witness fields of the transaction
     sha256            the witness program of a redeem script
     redeem            the 1-of-1 multisig redeem script of a public key
                       (keystore/address.go RedeemScript: OP_1 <pub33> OP_1 OP_CHECKMULTISIG)
     engine            mass-core txscript.NewEngine(...).Execute() for one input — assumed to
                       follow the witness template ([engine_template] below)
   The wallet's view of the previous outputs (existsMsgTx / existsUnminedTx / existsOutPoint and
   the address lookup of the current keystore) is the function [env]. *)
From Coq Require Import List ZArith Bool.
Import ListNotations.
Require Import MW.Codec.Bip32 MW.Keys.Unlock.
Open Scope Z_scope.

(* ------------------------------------------------------------------ sighash flags *)
Inductive flag := FAll | FNone | FSingle | FAllAny | FNoneAny | FSingleAny.

(* the strings SignRawTx accepts (wallet.go): "ALL" "NONE" "SINGLE" "ALL|ANYONECANPAY"
   "NONE|ANYONECANPAY" "SINGLE|ANYONECANPAY" *)
Definition s_all : bytes := [65; 76; 76].
Definition s_none : bytes := [78; 79; 78; 69].
Definition s_single : bytes := [83; 73; 78; 71; 76; 69].
Definition s_any : bytes := [124; 65; 78; 89; 79; 78; 69; 67; 65; 78; 80; 65; 89].
Definition parse_flag (s : bytes) : option flag :=
  if bytes_eqb s s_all then Some FAll
  else if bytes_eqb s s_none then Some FNone
  else if bytes_eqb s s_single then Some FSingle
  else if bytes_eqb s (s_all ++ s_any) then Some FAllAny
  else if bytes_eqb s (s_none ++ s_any) then Some FNoneAny
  else if bytes_eqb s (s_single ++ s_any) then Some FSingleAny
  else None.

(* txscript.SigHashType: All = 1, None = 2, Single = 3, AnyOneCanPay = 0x80; the byte appended to
   the signature *)
Definition flag_byte (f : flag) : Z :=
  match f with FAll => 1 | FNone => 2 | FSingle => 3 | FAllAny => 129 | FNoneAny => 130 | FSingleAny => 131 end.
Definition flag_of_byte (b : Z) : option flag :=
  if b =? 1 then Some FAll else if b =? 2 then Some FNone else if b =? 3 then Some FSingle
  else if b =? 129 then Some FAllAny else if b =? 130 then Some FNoneAny
  else if b =? 131 then Some FSingleAny else None.
(* (hashType & SigHashSingle) == SigHashSingle *)
Definition is_single (f : flag) : bool := match f with FSingle | FSingleAny => true | _ => false end.

(* ------------------------------------------------------------------ transactions *)
Definition outpoint := (Z * Z)%type.     (* (id of the previous transaction, output index) *)

Record txin := mkIn { in_prev : outpoint; in_seq : Z; in_wit : list bytes }.
(* everything that is not an input — version, outputs, lock time, payload — is carried as the
   list of serialised outputs (only their number matters to the wallet) and one opaque value *)
Record tx := mkTx { t_ins : list txin; t_outs : list bytes; t_rest : bytes }.

Definition strip_in (i : txin) : txin := mkIn (in_prev i) (in_seq i) [].
Definition strip_witness (t : tx) : tx := mkTx (map strip_in (t_ins t)) (t_outs t) (t_rest t).
Definition unsigned (t : tx) : Prop := Forall (fun i => in_wit i = []) (t_ins t).

Fixpoint set_nth {A} (n : nat) (x : A) (l : list A) : list A :=
  match l, n with
  | [], _ => []
  | _ :: r, O => x :: r
  | y :: r, S m => y :: set_nth m x r
  end.
Definition set_wit (t : tx) (i : nat) (w : list bytes) : tx :=
  match nth_error (t_ins t) i with
  | Some inp => mkTx (set_nth i (mkIn (in_prev inp) (in_seq inp) w) (t_ins t)) (t_outs t) (t_rest t)
  | None => t
  end.

(* ------------------------------------------------------------------ previous outputs *)
Inductive cls := CStd | CStaking (frozen : Z) | CBinding.

Record uinfo := mkU {
  u_class : cls;
  u_prog : bytes;             (* the 32-byte witness program of the pkScript *)
  u_value : Z;
  u_height : option Z;        (* Some h: confirmed in block h; None: pending (no block meta) *)
  u_spent : bool;             (* existsOutPoint: flags.Spent *)
  u_addr : option addr }.     (* Some a: the program is the address a of the CURRENT keystore *)

Inductive look :=
| LMissing                    (* neither a mined nor an unmined previous transaction / outpoint: ErrUTXONotExists *)
| LBadIndex                   (* vout beyond the previous transaction's outputs: ErrInvalidIndex *)
| LOut (u : uinfo).

(* ------------------------------------------------------------------ CHECKSEQUENCEVERIFY *)
Definition seq_disabled : Z := 2 ^ 63.          (* wire.SequenceLockTimeDisabled *)
Definition seq_is_seconds : Z := 2 ^ 38.        (* wire.SequenceLockTimeIsSeconds *)
Definition seq_mask : Z := 4294967295.          (* wire.SequenceLockTimeMask *)
Definition binding_locked_period : Z := 4294967294.   (* consensus.MASSIP0002BindingLockedPeriod *)
(* opcodeCheckSequenceVerify with the pushed requirement [req] against the input's sequence *)
Definition csv_ok (req sq : Z) : bool :=
  if negb (Z.land req seq_disabled =? 0) then true
  else if negb (Z.land sq seq_disabled =? 0) then false
  else
    let m := Z.lor seq_is_seconds seq_mask in
    let t := Z.land sq m in
    let l := Z.land req m in
    (((t <? seq_is_seconds) && (l <? seq_is_seconds)) || ((seq_is_seconds <=? t) && (seq_is_seconds <=? l)))
    && (l <=? t).
(* the extra script verifyWitnessProgram prepends: staking: <frozen+1> CSV DROP; binding under
   ScriptMASSip2: <BindingLockedPeriod> CSV DROP; standard: nothing *)
Definition seq_ok (c : cls) (ip2 : bool) (sq : Z) : bool :=
  match c with
  | CStd => true
  | CStaking frozen => csv_ok (frozen + 1) sq
  | CBinding => if ip2 then csv_ok binding_locked_period sq else true
  end.

Fixpoint split_last (l : bytes) : option (bytes * Z) :=
  match l with
  | [] => None
  | [x] => Some ([], x)
  | x :: r => match split_last r with Some (a, b) => Some (x :: a, b) | None => None end
  end.

(* errors of SignRawTx *)
Inductive serr :=
| SInvalidFlag            (* ErrInvalidFlag *)
| SUtxoNotExists          (* ErrUTXONotExists *)
| SInvalidIndex           (* ErrInvalidIndex *)
| SDoubleSpend            (* ErrDoubleSpend *)
| SNotMine                (* keystore.ErrUnexpectedPubKeyToSign (ScriptClosure) *)
| SKeystore (e : uerr)    (* an error of KeystoreManager.SignHash *)
| SEngine.                (* an error of the script engine *)

Inductive sres := SOk | SErr (e : serr) | SPanic.   (* SPanic: nil block meta dereferenced *)

Section SignRaw.
  Variable kdf : bytes -> bytes -> bytes.
  Variable digest : bytes -> bytes.
  Variable shash : bytes -> bytes.
  Variable open_box : bytes -> bytes -> option bytes.
  Variable sk : Type.
  Variable branch_ok : bytes -> bool.
  Variable derive_sk : bytes -> Z -> Z -> option sk.
  Variable sign : sk -> bytes -> bytes.           (* serialised DER signature *)
  Variable zfix : bool.                           (* see Keys/Unlock.v *)
  Variable sfix : bool.                           (* see Keys/Unlock.v *)
  Variable nfix : bool.                           (* see Keys/Unlock.v *)
  Variable cfg : amcfg.

  Variable pk : Type.
  Variable verify : pk -> bytes -> bytes -> bool.   (* verify pubkey message signature *)
  Variable sighash : flag -> tx -> nat -> Z -> bytes -> bytes.
  Variable sha256 : bytes -> bytes.
  Variable redeem : pk -> bytes.
  Variable pk_of_redeem : bytes -> option pk.       (* the key of a 1-of-1 multisig script *)
  Variable pub_at : addr -> pk.                     (* ManagedAddress.pubKey of the keystore's address *)
  Variable warmup : Z.                              (* consensus.MASSIP0002WarmUpHeight *)
  Variable env : outpoint -> look.
  (* [pfix] = true: the repaired code (/repo commit 6d649d4: prevTxHeight — a pending previous
     transaction counts as mined at synced height + 1 = [pending_height]); false reproduces the code
     as first found, which dereferenced the nil block meta of a pending output (panic). *)
  Variable pfix : bool.
  Variable pending_height : Z.

  Local Notation amstate := (amstate sk).
  Local Notation step := (step kdf digest shash open_box sk bytes branch_ok derive_sk sign zfix sfix nfix cfg).

  (* the witness template of mass-core's engine for the three script classes:
     witness = [signature ++ [hash type]; redeem script] (in the implementation the first item is
     the one-opcode script that pushes these bytes: the push opcode is not modelled),
     sha256(redeem) = program,
     the signature verifies for the key in the redeem script over the signature hash of
     (hash type, tx, index, amount, redeem script), and the class's sequence condition holds *)
  Definition engine_template (u : uinfo) (t : tx) (i : nat) (ip2 : bool) : bool :=
    match nth_error (t_ins t) i with
    | None => false
    | Some inp =>
        match in_wit inp with
        | [s; red] =>
            match split_last s, pk_of_redeem red with
            | Some (sg, fb), Some k =>
                match flag_of_byte fb with
                | Some f =>
                    bytes_eqb (sha256 red) (u_prog u) &&
                    verify k (sighash f t i (u_value u) red) sg &&
                    seq_ok (u_class u) ip2 (in_seq inp)
                | None => false
                end
            | _, _ => false
            end
        | _ => false
        end
    end.

  Variable engine : uinfo -> tx -> nat -> bool -> bool.

  Definition ip2_of (h : Z) : bool := warmup <=? h.    (* forks.EnforceMASSIP0002WarmUp *)
  (* prevTxHeight(cacheMeta[...]); None = nil pointer dereference *)
  Definition eff_height (u : uinfo) : option Z :=
    match u_height u with
    | Some h => Some h
    | None => if pfix then Some pending_height else None
    end.

  (* one iteration of the loop of signWitnessTx for input i *)
  Definition sign_input (st : amstate) (p : bytes) (f : flag) (t : tx) (i : nat)
    : sres * amstate * tx :=
    match nth_error (t_ins t) i with
    | None => (SOk, st, t)
    | Some inp =>
        match env (in_prev inp) with
        | LMissing => (SErr SUtxoNotExists, st, t)
        | LBadIndex => (SErr SInvalidIndex, st, t)
        | LOut u =>
            if u_spent u then (SErr SDoubleSpend, st, t)
            else
              (* "if (hashType&SigHashSingle) != SigHashSingle || i < len(tx.TxOut)" *)
              let signed : sres * amstate * tx :=
                if negb (is_single f) || (i <? length (t_outs t))%nat then
                  match u_addr u with
                  | None => (SErr SNotMine, st, t)
                  | Some a =>
                      let red := redeem (pub_at a) in
                      match step st (OSign p a (sighash f t i (u_value u) red)) with
                      | (OutSig s, st', _) => (SOk, st', set_wit t i [s ++ [flag_byte f]; red])
                      | (OutErr e, st', _) => (SErr (SKeystore e), st', t)
                      | (_, st', _) => (SErr (SKeystore EDerive), st', t)
                      end
                  end
                else (SOk, st, t) in
              match signed with
              | (SOk, st', t') =>
                  (* "forks.EnforceMASSIP0002WarmUp(w.prevTxHeight(cacheMeta[...]))" *)
                  match eff_height u with
                  | None => (SPanic, st', t')
                  | Some h => if engine u t' i (ip2_of h) then (SOk, st', t') else (SErr SEngine, st', t')
                  end
              | other => other
              end
        end
    end.

  Fixpoint sign_loop (idxs : list nat) (st : amstate) (p : bytes) (f : flag) (t : tx)
    : sres * amstate * tx :=
    match idxs with
    | [] => (SOk, st, t)
    | i :: r =>
        match sign_input st p f t i with
        | (SOk, st', t') => sign_loop r st' p f t'
        | other => other
        end
    end.

  (* SignRawTx(password, flag, tx) with a wallet in use. Result: outcome, the manager's state
     afterwards, the caller's transaction object afterwards (it is signed in place), and the
     returned bytes (the serialisation of the transaction; None = nil).
     "defer w.ksmgr.ClearPrivKey()" runs on every exit of signWitnessTx, panic included; an
     invalid flag returns before. *)
  Definition sign_raw (st : amstate) (p : bytes) (flagstr : bytes) (t : tx)
    : sres * amstate * tx * option tx :=
    match parse_flag flagstr with
    | None => (SErr SInvalidFlag, st, t, None)
    | Some f =>
        match sign_loop (seq 0 (length (t_ins t))) st p f t with
        | (SOk, st', t') => (SOk, clear_priv_keys sk st', t', Some t')
        | (r, st', t') => (r, clear_priv_keys sk st', t', None)
        end
    end.

  (* the property's own predicate: every input of the transaction passes the engine against the
     output it spends *)
  Definition all_inputs_verify (t : tx) : Prop :=
    forall i inp, nth_error (t_ins t) i = Some inp ->
      exists u h, env (in_prev inp) = LOut u /\ eff_height u = Some h /\ engine u t i (ip2_of h) = true.

  (* the projection compared with the implementation: per input, is a witness present *)
  Definition wit_shape (t : tx) : list nat := map (fun i => length (in_wit i)) (t_ins t).
End SignRaw.
