(* Keys/Unlock.v — the unlock / lock state machine of one keystore.AddrManager
   (masswallet/keystore/addrmgr.go: checkPassword, safelyCheckPassword, signBtcec,
   getPrivKeyBtcec, exportKeystore, getMnemonic, changePrivPassphrase, clearPrivKeys;
   manager.go: SignHash, ExportKeystore, GetMnemonic, CheckPrivPassphrase, ChangePubPassphrase,
   ClearPrivKey; wallet.go / tx.go: which of them the WalletManager calls, and when it clears).
   Definitions only; proofs are in UnlockProofs.v, property theorems in Properties/C03.v, C05.v.

   Bytes are [list Z] (Codec/Bip32.v). The primitives are Section variables:
     kdf      scrypt.Key(passphrase, salt, N, r, p, 32)          (snacl.SecretKey.deriveKey)
     digest   sha256.Sum256 of the derived key                     (snacl Parameters.Digest)
     shash    sha512.Sum512 of salt ++ passphrase                  (hashedPrivPassphrase)
     open_box CryptoKey.Decrypt: secretbox.Open of nonce ++ box    (None = ErrDecryptFailed / ErrMalformed)
     branch_ok  hdkeychain.NewKeyFromString(account xprv), Child(0) and Child(1) succeed
     derive_sk  hdkeychain.NewKeyFromString(account xprv) . Child(branch) . Child(index) . ECPrivKey
     sign     btcec PrivateKey.Sign
   What is assumed of them is stated in UnlockProofs.v ([unlock_laws]). *)
From Coq Require Import List ZArith Bool.
Import ListNotations.
Require Import MW.Codec.Bip32.
Open Scope Z_scope.

(* error values (one constructor per Go error variable that these paths can return) *)
Inductive uerr :=
| EInvalidPassphrase      (* keystore.ErrInvalidPassphrase *)
| EDecryptFailed          (* snacl.ErrDecryptFailed / ErrMalformed *)
| EInvalidDataHash        (* keystore.ErrInvalidDataHash: hash to sign is not 32 bytes *)
| EAccountNotFound        (* keystore.ErrAccountNotFound: no manager holds the address *)
| EBadTiming              (* keystore.ErrBadTimingForChangingPass *)
| EChangeNotAllowed       (* keystore.ErrChangePassNotAllowed *)
| EIllegalNewPubPass      (* keystore.ErrIllegalNewPubPass *)
| EDerive.                (* NewKeyFromString / Child / ECPrivKey failed on the decrypted account key *)

Inductive res (A : Type) := ROk (a : A) | RErr (e : uerr).
Arguments ROk {A} a.
Arguments RErr {A} e.

Definition zero32 : bytes := repeat 0 32.   (* a zeroed snacl.CryptoKey *)
(* endsWithNUL(passphrase) *)
Fixpoint ends_nul (p : bytes) : bool :=
  match p with
  | [] => false
  | [x] => x =? 0
  | _ :: r => ends_nul r
  end.
Definition zero64 : bytes := repeat 0 64.   (* a zeroed hashedPrivPassphrase *)

(* an address of the manager: (branch, index) of its derivation path *)
Definition addr := (Z * Z)%type.
Definition addr_eqb (a b : addr) : bool := (fst a =? fst b) && (snd a =? snd b).

(* what loadAddrManager puts into the AddrManager and never changes afterwards
   (ChangePrivPassphrase cannot succeed on a version-0 keystore, see [change_priv]) *)
Record amcfg := mkCfg {
  c_salt : bytes;        (* masterKeyPriv.Parameters.Salt *)
  c_digest : bytes;      (* masterKeyPriv.Parameters.Digest *)
  c_run_salt : bytes;    (* privPassphraseSalt, fresh random per load *)
  c_cpriv_enc : bytes;   (* cryptoKeyPrivEncrypted  (row cpriv) *)
  c_cent_enc : bytes;    (* cryptoKeyEntropyEncrypted (row cent) *)
  c_acct_enc : bytes;    (* acctInfo.acctKeyEncrypted (private half of the account row) *)
  c_ent_enc : bytes;     (* row ent: the encrypted entropy *)
  c_version : Z;         (* row kver *)
  c_known : list addr }. (* keys of the addrs map *)

Section Machine.
  Variable kdf : bytes -> bytes -> bytes.
  Variable digest : bytes -> bytes.
  Variable shash : bytes -> bytes.
  Variable open_box : bytes -> bytes -> option bytes.
  Variable sk : Type.
  Variable sig : Type.
  Variable branch_ok : bytes -> bool.   (* NewKeyFromString(acct), Child(ExternalBranch), Child(InternalBranch) all succeed *)
  Variable derive_sk : bytes -> Z -> Z -> option sk.
  Variable sign : sk -> bytes -> sig.
  (* [zfix] = true: the repaired code (/repo commit 34102a8: safelyCheckPassword zeroes the master
     key only when the manager is locked); false reproduces the code as first found, which zeroed
     it also while unlocked — after which getMnemonic, relying on the unlocked state, failed. *)
  Variable zfix : bool.
  (* [sfix] = true: the salted buffer of checkPassword is a fresh allocation (the repair proposed
     for finding empty-passphrase-zeroes-salt); false reproduces the code as found:
     "saltedPassphrase := append(a.privPassphraseSalt[:], passphrase...)" returns the array's own
     backing store when the passphrase is EMPTY, and "zero.Bytes(saltedPassphrase)" then zeroes
     the manager's salt. *)
  Variable sfix : bool.
  (* [nfix] = true: the repaired code (/repo commit 30c1bd3: a candidate ending with a zero byte is
     refused before the key derivation — scrypt's HMAC zero-pads short keys, so P and P||00..
     derive the same key); false reproduces the code as first found. *)
  Variable nfix : bool.

  (* the mutable part of the AddrManager *)
  Record amstate := mkSt {
    s_unlocked : bool;               (* unlocked *)
    s_hashed : bytes;                (* hashedPrivPassphrase *)
    s_mk : bytes;                    (* masterKeyPriv.Key: zeroed, or the LAST scrypt output, right or wrong *)
    s_branch : option bytes;         (* Some acct: externalBranchPriv / internalBranchPriv are derived
                                        (from the decrypted account key string acct); None: both nil *)
    s_cached : list (addr * sk);     (* ManagedAddress.privKey != nil *)
    s_salt : bytes }.                (* privPassphraseSalt (random per load; see [sfix]) *)

  Definition set_mk (st : amstate) (k : bytes) : amstate :=
    mkSt (s_unlocked st) (s_hashed st) k (s_branch st) (s_cached st) (s_salt st).
  Definition set_salt (st : amstate) (x : bytes) : amstate :=
    mkSt (s_unlocked st) (s_hashed st) (s_mk st) (s_branch st) (s_cached st) x.

  (* a locked manager with nothing derived or cached *)
  Definition locked_state (salt : bytes) : amstate := mkSt false zero64 zero32 None [] salt.

  Variable cfg : amcfg.

  (* a freshly loaded manager *)
  Definition init_state : amstate := locked_state (c_run_salt cfg).

  (* checkPassword. "NOTE: this func will leave the masterKeyPriv derived": when locked the scrypt
     output is copied into masterKeyPriv.Key BEFORE the digest comparison (snacl.DeriveKey), so a
     wrong passphrase leaves the wrong key there. The third component is the list of values
     of masterKeyPriv.Key that were handed to Decrypt (none here). *)
  Definition check_password (st : amstate) (p : bytes) : option uerr * amstate :=
    if s_unlocked st then
      (* the hash is taken before the buffer is zeroed *)
      let st' := if sfix then st else if null p then set_salt st zero32 else st in
      if bytes_eqb (shash (s_salt st ++ p)) (s_hashed st) then (None, st')
      else (Some EInvalidPassphrase, st')
    else if nfix && ends_nul p then (Some EInvalidPassphrase, st)
    else
      let k := kdf p (c_salt cfg) in
      if bytes_eqb (digest k) (c_digest cfg) then (None, set_mk st k)
      else (Some EInvalidPassphrase, set_mk st k).

  (* safelyCheckPassword: zeroes the master key after a successful check — when locked (where
     checkPassword has just derived it); as first found also when unlocked *)
  Definition safely_check (st : amstate) (p : bytes) : option uerr * amstate :=
    match check_password st p with
    | (Some e, st') => (Some e, st')
    | (None, st') => (None, if zfix && s_unlocked st' then st' else set_mk st' zero32)
    end.

  Fixpoint lookup_sk (a : addr) (l : list (addr * sk)) : option sk :=
    match l with
    | [] => None
    | (b, k) :: r => if addr_eqb a b then Some k else lookup_sk a r
    end.

  (* getPrivKeyBtcec (the address is in a.addrs: KeystoreManager.SignHash found the manager by it).
     Returns the master-key values used for decryption as third component. *)
  Definition get_priv (st : amstate) (a : addr) : res sk * amstate * list bytes :=
    match lookup_sk a (s_cached st) with
    | Some k => (ROk k, st, [])
    | None =>
        let with_branch (acct : bytes) (st1 : amstate) (used : list bytes) :=
          match derive_sk acct (fst a) (snd a) with
          | None => (RErr EDerive, st1, used)
          | Some k => (ROk k, mkSt (s_unlocked st1) (s_hashed st1) (s_mk st1) (s_branch st1)
                                   ((a, k) :: s_cached st1) (s_salt st1), used)
          end in
        match s_branch st with
        | Some acct => with_branch acct st []
        | None =>
            match open_box (s_mk st) (c_cpriv_enc cfg) with
            | None => (RErr EDecryptFailed, st, [s_mk st])
            | Some ck =>
                match open_box ck (c_acct_enc cfg) with
                | None => (RErr EDecryptFailed, st, [s_mk st])
                | Some acct =>
                    (* NewKeyFromString, Child(ExternalBranch), Child(InternalBranch) *)
                    if branch_ok acct then
                      with_branch acct (mkSt (s_unlocked st) (s_hashed st) (s_mk st) (Some acct) (s_cached st) (s_salt st))
                                  [s_mk st]
                    else (RErr EDerive, st, [s_mk st])
                end
            end
        end
    end.

  (* signBtcec(hash, addr, password) *)
  Definition sign_btcec (st : amstate) (p : bytes) (a : addr) (hash : bytes)
    : res sig * amstate * list bytes :=
    if negb (length hash =? 32)%nat then (RErr EInvalidDataHash, st, [])
    else
      match check_password st p with
      | (Some e, st1) => (RErr e, st1, [])
      | (None, st1) =>
          let st2 := if s_unlocked st1 then st1
                     else mkSt true (shash (s_salt st1 ++ p)) (s_mk st1) (s_branch st1) (s_cached st1) (s_salt st1) in
          match get_priv st2 a with
          | (RErr e, st3, u) => (RErr e, st3, u)
          | (ROk k, st3, u) => (ROk (sign k hash), st3, u)
          end
      end.

  (* what exportKeystore reads from the bucket and returns (hex inside the JSON):
     entropyEnc, privParams = salt ++ digest ++ N,r,p, cryptoKeyEntropyEnc *)
  Record exported := mkExp { x_ent_enc : bytes; x_salt : bytes; x_digest : bytes; x_cent_enc : bytes }.
  Definition export_of_cfg : exported :=
    mkExp (c_ent_enc cfg) (c_salt cfg) (c_digest cfg) (c_cent_enc cfg).

  (* exportKeystore(passphrase) *)
  Definition export_keystore (st : amstate) (p : bytes) : res exported * amstate * list bytes :=
    match safely_check st p with
    | (Some e, st') => (RErr e, st', [])
    | (None, st') => (ROk export_of_cfg, st', [])
    end.

  (* getMnemonic(privpass): returns the entropy (NewMnemonic of it is a public bijection, C13).
     "if !a.unlocked { defer a.masterKeyPriv.Zero() }": the key is zeroed on every return path
     after the check only when the manager is locked. *)
  Definition get_mnemonic (st : amstate) (p : bytes) : res bytes * amstate * list bytes :=
    match check_password st p with
    | (Some e, st1) => (RErr e, st1, [])
    | (None, st1) =>
        let st2 := if s_unlocked st1 then st1 else set_mk st1 zero32 in
        match open_box (s_mk st1) (c_cent_enc cfg) with
        | None => (RErr EDecryptFailed, st2, [s_mk st1])
        | Some cke =>
            match open_box cke (c_ent_enc cfg) with
            | None => (RErr EDecryptFailed, st2, [s_mk st1])
            | Some ent => (ROk ent, st2, [s_mk st1])
            end
        end
    end.

  (* changePrivPassphrase: refuses when unlocked, then refuses every version-0 keystore — BEFORE
     looking at the passphrase. Version 0 is the only version create / import accept
     (manager.go: create, allocAddrMgrNamespace, ImportKeystoreWithMnemonic return
     ErrKeystoreVersion otherwise), so the re-encryption code below that test is dead and is not
     modelled: for another version the model answers EDerive, which no theorem uses and which
     [cfg_v0] excludes. *)
  Definition change_priv (st : amstate) (oldp newp : bytes) : res unit * amstate * list bytes :=
    if s_unlocked st then (RErr EBadTiming, st, [])
    else if c_version cfg =? 0 then (RErr EChangeNotAllowed, st, [])
    else (RErr EDerive, st, []).

  (* the part of KeystoreManager.ChangePubPassphrase that touches this manager:
     "err := addrManager.safelyCheckPassword(newPubPass); if err == nil { return ErrIllegalNewPubPass }";
     otherwise only public rows (mpub, cpub) and masterKeyPub change. *)
  Definition change_pub (st : amstate) (newpub : bytes) : res unit * amstate * list bytes :=
    match safely_check st newpub with
    | (None, st') => (RErr EIllegalNewPubPass, st', [])
    | (Some _, st') => (ROk tt, st', [])
    end.

  (* clearPrivKeys (the salt is not touched) *)
  Definition clear_priv_keys (st : amstate) : amstate := locked_state (s_salt st).

  (* ---------------------------------------------------------------- KeystoreManager level *)
  Inductive op :=
  | OSign (p : bytes) (a : addr) (hash : bytes)   (* SignHash(pubkey of a, hash, p) *)
  | OExport (p : bytes)                          (* ExportKeystore *)
  | OMnemonic (p : bytes)                        (* GetMnemonic *)
  | OCheck (p : bytes)                           (* CheckPrivPassphrase (RemoveWallet's gate) *)
  | OChangePriv (oldp newp : bytes)              (* ChangePrivPassphrase *)
  | OChangePub (newpub : bytes)                  (* ChangePubPassphrase *)
  | OClear.                                      (* ClearPrivKey *)

  (* the observable outcome of an operation *)
  Inductive out :=
  | OutSig (s : sig) | OutExport (x : exported) | OutEntropy (e : bytes) | OutUnit | OutErr (e : uerr).

  Definition known (a : addr) : bool := existsb (addr_eqb a) (c_known cfg).

  Definition step (st : amstate) (o : op) : out * amstate * list bytes :=
    match o with
    | OSign p a h =>
        if negb (known a) then (OutErr EAccountNotFound, st, [])
        else match sign_btcec st p a h with
             | (ROk s, st', u) => (OutSig s, st', u)
             | (RErr e, st', u) => (OutErr e, st', u)
             end
    | OExport p =>
        match export_keystore st p with
        | (ROk x, st', u) => (OutExport x, st', u)
        | (RErr e, st', u) => (OutErr e, st', u)
        end
    | OMnemonic p =>
        match get_mnemonic st p with
        | (ROk e, st', u) => (OutEntropy e, st', u)
        | (RErr e, st', u) => (OutErr e, st', u)
        end
    | OCheck p =>
        match safely_check st p with
        | (None, st') => (OutUnit, st', [])
        | (Some e, st') => (OutErr e, st', [])
        end
    | OChangePriv a b =>
        match change_priv st a b with
        | (ROk _, st', u) => (OutUnit, st', u)
        | (RErr e, st', u) => (OutErr e, st', u)
        end
    | OChangePub np =>
        match change_pub st np with
        | (ROk _, st', u) => (OutUnit, st', u)
        | (RErr e, st', u) => (OutErr e, st', u)
        end
    | OClear => (OutUnit, clear_priv_keys st, [])
    end.

  Definition step_st (st : amstate) (o : op) : amstate := snd (fst (step st o)).
  Definition step_out (st : amstate) (o : op) : out := fst (fst (step st o)).
  Definition step_uses (st : amstate) (o : op) : list bytes := snd (step st o).

  Fixpoint run (st : amstate) (ops : list op) : amstate :=
    match ops with [] => st | o :: r => run (step_st st o) r end.

  (* every state a manager can be in: any operations, any passphrases, any order *)
  Definition reachable (st : amstate) : Prop := exists ops, run init_state ops = st.

  (* ---------------------------------------------------------------- WalletManager level
     SignRawTx = SignHash per input, then ClearPrivKey (deferred: also on error and panic);
     ExportWallet, GetMnemonic, RemoveWallet (CheckPrivPassphrase), ChangePrivPassphrase,
     ChangePubPassphrase do not clear; WalletManager.SignHash is exported too and does not clear. *)
  Inductive wop :=
  | WSignRaw (p : bytes) (inputs : list (addr * bytes))
  | WSignHash (p : bytes) (a : addr) (hash : bytes)
  | WExport (p : bytes) | WMnemonic (p : bytes) | WRemove (p : bytes)
  | WChangePriv (oldp newp : bytes) | WChangePub (newpub : bytes).

  (* signing the inputs in order; stops at the first error *)
  Fixpoint sign_all (st : amstate) (p : bytes) (ins : list (addr * bytes)) : res (list sig) * amstate :=
    match ins with
    | [] => (ROk [], st)
    | (a, h) :: r =>
        match step st (OSign p a h) with
        | (OutSig s, st1, _) =>
            match sign_all st1 p r with
            | (ROk l, st2) => (ROk (s :: l), st2)
            | (RErr e, st2) => (RErr e, st2)
            end
        | (OutErr e, st1, _) => (RErr e, st1)
        | (_, st1, _) => (RErr EDerive, st1)
        end
    end.

  Inductive wout := WSigs (l : list sig) | WOut (o : out).

  Definition wstep (st : amstate) (o : wop) : wout * amstate :=
    match o with
    | WSignRaw p ins =>
        match sign_all st p ins with
        | (ROk l, st') => (WSigs l, clear_priv_keys st')
        | (RErr e, st') => (WOut (OutErr e), clear_priv_keys st')
        end
    | WSignHash p a h => (WOut (step_out st (OSign p a h)), step_st st (OSign p a h))
    | WExport p => (WOut (step_out st (OExport p)), step_st st (OExport p))
    | WMnemonic p => (WOut (step_out st (OMnemonic p)), step_st st (OMnemonic p))
    | WRemove p => (WOut (step_out st (OCheck p)), step_st st (OCheck p))
    | WChangePriv a b => (WOut (step_out st (OChangePriv a b)), step_st st (OChangePriv a b))
    | WChangePub np => (WOut (step_out st (OChangePub np)), step_st st (OChangePub np))
    end.

  Fixpoint wrun (st : amstate) (ops : list wop) : amstate :=
    match ops with [] => st | o :: r => wrun (snd (wstep st o)) r end.

  Definition is_sign_hash (o : wop) : bool := match o with WSignHash _ _ _ => true | _ => false end.

  (* states reachable through the WalletManager without the bare SignHash entry point *)
  Definition wreachable (st : amstate) : Prop :=
    exists ops, forallb (fun o => negb (is_sign_hash o)) ops = true /\ wrun init_state ops = st.

  (* which operations need a secret, and with which passphrase they were called *)
  Definition needs_secret (o : op) : option bytes :=
    match o with
    | OSign p _ _ | OExport p | OMnemonic p | OCheck p => Some p
    | _ => None
    end.
  Definition is_ok (o : out) : bool := match o with OutErr _ => false | _ => true end.

  (* observables of the state that the verif accessor of the real AddrManager reports *)
  Definition obs_state (st : amstate) : bool * bool * bool * bool * nat :=
    (s_unlocked st, bytes_eqb (s_mk st) zero32, bytes_eqb (s_hashed st) zero64,
     match s_branch st with Some _ => true | None => false end, length (s_cached st)).
  Definition salt_zero (st : amstate) : bool := bytes_eqb (s_salt st) zero32.
End Machine.

Arguments mkSt {sk}.
Arguments s_unlocked {sk}.
Arguments s_hashed {sk}.
Arguments s_mk {sk}.
Arguments s_branch {sk}.
Arguments s_cached {sk}.
Arguments s_salt {sk}.
Arguments set_salt {sk}.
Arguments locked_state {sk}.
Arguments salt_zero {sk}.
Arguments init_state {sk}.
Arguments OutSig {sig}.
Arguments OutExport {sig}.
Arguments OutEntropy {sig}.
Arguments OutUnit {sig}.
Arguments OutErr {sig}.
Arguments is_ok {sig}.
Arguments obs_state {sk}.
Arguments set_mk {sk}.
Arguments lookup_sk {sk}.
