(* Keys/Secrecy.v — attacker knowledge and derivability over the terms of Keys/Store.v, and the
   histories of keystore operations that produce stored rows and outputs.
   Definitions only; proofs in SecrecyProofs.v. *)
From Coq Require Import List ZArith Bool.
Import ListNotations.
Require Import MW.Codec.Bip32 MW.Keys.Store.
Open Scope Z_scope.

(* what an attacker can compute from a set K of known terms: pairing and projection, encryption
   and decryption WITH the key, hashing and key derivation in the forward direction only *)
Inductive derivable (K : term -> Prop) : term -> Prop :=
| DKnown t : K t -> derivable K t
| DPub b : derivable K (Pub b)
| DCat a b : derivable K a -> derivable K b -> derivable K (Cat a b)
| DFst a b : derivable K (Cat a b) -> derivable K a
| DSnd a b : derivable K (Cat a b) -> derivable K b
| DEnc k t : derivable K k -> derivable K t -> derivable K (Enc k t)
| DDec k t : derivable K (Enc k t) -> derivable K k -> derivable K t
| DHash t : derivable K t -> derivable K (Hash t)
| DKdf p s : derivable K p -> derivable K s -> derivable K (Kdf p s).

(* one-way images that are handed out although their argument is secret:
   the snacl digest of a master key, public keys, chain codes, signatures *)
Definition released_arg (t : term) : bool :=
  match t with
  | Kdf _ _ => true
  | Cat (Pub tag) _ => bytes_eqb tag tag_pub || bytes_eqb tag tag_cc || bytes_eqb tag tag_sig
  | _ => false
  end.

(* "the attacker may know t": closed under [derivable], false on every secret *)
Fixpoint okb (t : term) : bool :=
  match t with
  | Atom a => negb (secret_atom a)
  | Pub _ => true
  | Cat a b => okb a && okb b
  | Enc k t' => okb t' || negb (okb k)
  | Hash t' => okb t' || released_arg t'
  | Kdf p s => okb p && okb s
  end.

(* ------------------------------------------------------------------ histories *)

(* which part of the environment failed under an operation: the used-address look-up of the chain
   database (chainFetcher.CheckScriptHashUsed: imports, the gap rule), another read of the chain
   database (rescan, start-up catch-up, previous transactions), or the wallet database *)
Inductive fault := FChainLookup | FChainFetch | FStorage.

Inductive sop :=
| SCreate (w : nat) (coin : Z) (ent_len remark_len : nat)   (* CreateWallet: fresh seed w *)
| SNewAddr (n : nat) (a : Z * Z)                            (* NewAddress on instance number n *)
| SSign (n : nat) (a : Z * Z) (msg : bytes)                 (* a successful signature *)
| SRefused (code : Z)                                       (* any refused attempt: an error value *)
| SExport (n : nat)                                         (* ExportWallet with the right passphrase *)
| SImportKeystore (n : nat)                                 (* ImportWallet of the export of instance n (any database) *)
| SImportMnemonic (w : nat) (coin : Z) (ent_len : nat) (addrs : list (Z * Z))
| SChangePub                                                (* ChangePubPassphrase: every instance re-keyed *)
| SRestart                                                  (* Stop / Start: rows unchanged *)
| SRemove (n : nat)                                         (* the rows were on disk; nothing is un-known *)
| SReveal (n : nat)                                         (* GetMnemonic with the right passphrase: the sentence goes to the
                                                               caller who proved the passphrase; nothing is stored, exported or
                                                               put into an error *)
| SUse (n : nat)                                            (* UseWallet: reads only *)
(* the operation [o] was attempted and FAILED with an environment error: the output is the error
   value the real code builds on such a path — a constant text chosen by the failing site, public
   context (wallet ids, account numbers, key names, heights, transaction ids, addresses: [ctx]) and
   the wrapped error of the environment ([env], any byte string: the environment chooses it). The
   construction sites read: keystore/db.go ("failed to store ...: %v", "failed to get %d: %v" with
   the KEY NAME as a byte list, "account %d not found", "malformed serialized account for key %x"),
   keystore/manager.go ("failed to encrypt/decrypt ... for account %d", the bare error of checkfunc
   in createManagerKeyScope), keystore/addrmgr.go ("failed to get managedAddress, index: %v"),
   txmgr ("failed to put balance, account: %s, amount: %d, err: %v"), masswallet/wallet.go
   ("%s: %v" of a wallet id and the error), ntfnshandler.go (heights, block metas), and the bare
   errors of masswallet/db and of mass-core's database.Db. None takes an argument of the operation
   other than wallet ids, addresses and numbers: that is the claim the correspondence scan tests. *)
| SEnvFail (o : sop) (f : fault) (site : Z) (ctx : list bytes) (env : bytes).

Record world := mkWorld {
  w_insts : list inst;        (* live instances, newest first *)
  w_known : list term;        (* every row ever written, every export, error and signature *)
  w_secret : list term;       (* the secrets of every instance that ever existed or was attempted *)
  w_fresh : nat;              (* next unused number for ids, salts *)
  w_pubpass : nat }.          (* index of the current public passphrase *)

Definition init_world : world := mkWorld [] [Atom (APubPass 0)] [] 0 0.

Definition add_inst (wd : world) (k : inst) : world :=
  mkWorld (k :: w_insts wd) (map r_term (rows k) ++ w_known wd) (secrets k ++ w_secret wd)
          (S (S (S (w_fresh wd)))) (w_pubpass wd).

Definition rekey (g salt0 : nat) (k : inst) : inst :=
  mkInst (i_seed k) (i_id k) (i_coin k) (i_priv_salt k) (salt0 + i_id k) g (i_ent_len k) (i_remark_len k) (i_addrs k).

Fixpoint replace_nth (n : nat) (f : inst -> inst) (l : list inst) : list inst :=
  match l, n with
  | [], _ => []
  | k :: r, O => f k :: r
  | k :: r, S m => k :: replace_nth m f r
  end.

(* the error value of an environment failure: constant text, public context, the environment's error *)
Fixpoint pub_list (l : list bytes) : term :=
  match l with [] => Pub [] | b :: r => Cat (Pub b) (pub_list r) end.
Definition env_error_term (site : Z) (ctx : list bytes) (env : bytes) : term :=
  Cat (Pub [site]) (Cat (pub_list ctx) (Pub env)).

(* the parameter record an operation is called with (keystore.WalletParams of a mnemonic import:
   version, MNEMONIC, remarks, PRIVATE PASSPHRASE, index hints, gap limit; passphrase and remarks of
   CreateWallet; the passphrase of the calls that need one); the mnemonic sentence is the entropy
   (NewMnemonic is a public bijection) *)
Definition pass_of_inst (wd : world) (n : nat) : term :=
  match nth_error (w_insts wd) n with Some k0 => t_privpass (i_seed k0) | None => Pub [] end.
Definition params_term (wd : world) (o : sop) : term :=
  match o with
  | SCreate w _ _ _ => Cat (t_privpass w) (Pub [])
  | SImportMnemonic w _ _ _ => Cat (Pub [0]) (Cat (t_entropy w) (Cat (Pub []) (Cat (t_privpass w) (Pub []))))
  | SImportKeystore n => Cat (match nth_error (w_insts wd) n with Some k0 => export_term k0 | None => Pub [] end) (pass_of_inst wd n)
  | SSign n _ _ | SExport n | SReveal n | SRemove n => pass_of_inst wd n
  | _ => Pub []
  end.

(* [pfix] = true: the code as it is, errors of environment failures carry public data only.
   [pfix] = false: the seeded regression (a "%v" of the WalletParams value in the wrapped error):
   the error of a failed operation also carries the operation's parameter record. *)
Definition fail_error (pfix : bool) (wd : world) (o : sop) (site : Z) (ctx : list bytes) (env : bytes) : term :=
  if pfix then env_error_term site ctx env
  else Cat (env_error_term site ctx env) (params_term wd o).

Fixpoint sstep_gen (pfix : bool) (wd : world) (o : sop) {struct o} : world :=
  let f := w_fresh wd in
  match o with
  | SCreate w coin el rl =>
      add_inst wd (mkInst w f coin (S f) (S (S f)) (w_pubpass wd) el rl [])
  | SImportMnemonic w coin el addrs =>
      add_inst wd (mkInst w f coin (S f) (S (S f)) (w_pubpass wd) el 0 addrs)
  | SImportKeystore n =>
      match nth_error (w_insts wd) n with
      | Some k0 =>
          (* same seed, same private scrypt salt (privParams are copied), fresh crypto keys *)
          add_inst wd (mkInst (i_seed k0) f (i_coin k0) (i_priv_salt k0) (S (S f)) (w_pubpass wd)
                              (i_ent_len k0) (i_remark_len k0) (i_addrs k0))
      | None => wd
      end
  | SNewAddr n a =>
      match nth_error (w_insts wd) n with
      | Some k0 =>
          let k1 := mkInst (i_seed k0) (i_id k0) (i_coin k0) (i_priv_salt k0) (i_pub_salt k0) (i_pubpass k0)
                           (i_ent_len k0) (i_remark_len k0) (a :: i_addrs k0) in
          mkWorld (replace_nth n (fun _ => k1) (w_insts wd))
                  (r_term (pub_row k1 a) :: w_known wd)
                  (t_addr_key (i_seed k0) (i_coin k0) (fst a) (snd a) :: w_secret wd)
                  f (w_pubpass wd)
      | None => wd
      end
  | SSign n a msg =>
      match nth_error (w_insts wd) n with
      | Some k0 => mkWorld (w_insts wd) (signature_term k0 a msg :: w_known wd) (w_secret wd) f (w_pubpass wd)
      | None => wd
      end
  | SRefused code => mkWorld (w_insts wd) (error_term code :: w_known wd) (w_secret wd) f (w_pubpass wd)
  | SExport n =>
      match nth_error (w_insts wd) n with
      | Some k0 => mkWorld (w_insts wd) (export_term k0 :: w_known wd) (w_secret wd) f (w_pubpass wd)
      | None => wd
      end
  | SChangePub =>
      let g := S (w_pubpass wd) in
      let ins := map (rekey g f) (w_insts wd) in
      mkWorld ins
              (Atom (APubPass g) :: flat_map (fun k => map r_term (rows k)) ins ++ w_known wd)
              (w_secret wd) (f + S (length ins)) g
  | SRestart => wd
  | SRemove n => wd
  | SReveal n => wd
  | SUse n => wd
  | SEnvFail o' _ site ctx env =>
      (* the failed operation is rolled back: no new instance, no re-keying, the public passphrase
         stays. What the attacker gets is bounded from above: EVERYTHING the completed operation
         would have stored or returned (a failure after any part of it, a background step that
         did commit) and the error value. The secrets the attempt brought into being — the
         entropy of a wallet whose creation or import failed — stay secrets; the random numbers
         it used are spent. *)
      let wd' := sstep_gen pfix wd o' in
      mkWorld (w_insts wd) (fail_error pfix wd o' site ctx env :: w_known wd') (w_secret wd') (w_fresh wd') (w_pubpass wd)
  end.

Fixpoint srun_gen (pfix : bool) (wd : world) (ops : list sop) : world :=
  match ops with [] => wd | o :: r => srun_gen pfix (sstep_gen pfix wd o) r end.

(* the code as it is *)
Definition sstep : world -> sop -> world := sstep_gen true.
Definition srun : world -> list sop -> world := srun_gen true.

(* the attacker knows everything ever stored or returned, and every public passphrase *)
Definition knows (wd : world) (t : term) : Prop := In t (w_known wd).
