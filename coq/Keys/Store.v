(* Keys/Store.v — what the keystore writes, as symbolic terms.
   A Dolev–Yao style term algebra: secrets are atoms, encryption / hashing / key derivation are
   free constructors. Every row written under the wallet's bucket k/km/<id>/… by
   manager.go (initAcctBucket, createManagerKeyScope, allocAddrMgrNamespace, ChangePubPassphrase)
   and addrmgr.go (nextAddresses), the exported keystore JSON (addrmgr.go export) and the error
   values are given as terms, together with the SHAPE of the stored value (plain of n bytes,
   or nonce ++ secretbox of an n-byte plaintext, i.e. n + 24 + 16 bytes).
   Definitions only. *)
From Coq Require Import List ZArith Bool.
Import ListNotations.
Require Import MW.Codec.Bip32.
Open Scope Z_scope.

(* ------------------------------------------------------------------ atoms *)
Inductive atom :=
| AEntropy (w : nat)       (* the entropy of seed w — equivalently its mnemonic words (NewMnemonic is a public bijection) *)
| APrivPass (w : nat)      (* the private passphrase of seed w *)
| ACkPriv (i : nat)        (* cryptoKeyPriv of keystore instance i (random) *)
| ACkEnt (i : nat)         (* cryptoKeyEnt of instance i (random) *)
| ACkPub (i : nat)         (* cryptoKeyPub of instance i (random; protected by the PUBLIC passphrase only) *)
| APubPass (g : nat)       (* the g-th public passphrase *)
| ARand (n : nat).         (* public randomness: scrypt salts (nonces are part of Enc) *)

Definition secret_atom (a : atom) : bool :=
  match a with AEntropy _ | APrivPass _ | ACkPriv _ | ACkEnt _ => true | _ => false end.

(* ------------------------------------------------------------------ terms *)
Inductive term :=
| Atom (a : atom)
| Pub (b : bytes)              (* any public byte string: constants, counters, attacker-chosen passphrases *)
| Enc (k t : term)             (* nonce ++ secretbox.Seal(t) under key k *)
| Hash (t : term)              (* a one-way function of t *)
| Kdf (pass salt : term)       (* scrypt / PBKDF2 *)
| Cat (a b : term).

(* tags of the one-way functions; F tag x := Hash (Cat (Pub tag) x) *)
Definition tag_master : bytes := [1].   (* HMAC-SHA512("Bitcoin seed", seed): the BIP-32 root key *)
Definition tag_ckd : bytes := [2].      (* child private key of (parent, index) *)
Definition tag_pub : bytes := [3].      (* the public key of a private key *)
Definition tag_cc : bytes := [4].       (* the chain code of a key *)
Definition tag_sig : bytes := [5].      (* an ECDSA signature by a key over a message *)
Definition F (tag : bytes) (x : term) : term := Hash (Cat (Pub tag) x).

Definition mnemonic_salt : bytes := [109; 110; 101; 109; 111; 110; 105; 99].

(* the secrets derived from (entropy, private passphrase) of seed w *)
Definition t_entropy (w : nat) : term := Atom (AEntropy w).
Definition t_privpass (w : nat) : term := Atom (APrivPass w).
Definition t_seed (w : nat) : term := Kdf (t_entropy w) (Cat (Pub mnemonic_salt) (t_privpass w)).
Definition t_root (w : nat) : term := F tag_master (t_seed w).
Definition t_child (parent : term) (i : Z) : term := F tag_ckd (Cat parent (Pub [i])).
Definition t_acct (w : nat) (coin : Z) : term :=
  t_child (t_child (t_child (t_root w) (44 + hardened_start)) (coin + hardened_start)) (1 + hardened_start).
Definition t_branch (w : nat) (coin b : Z) : term := t_child (t_acct w coin) b.
Definition t_addr_key (w : nat) (coin b i : Z) : term := t_child (t_branch w coin b) i.
Definition t_pubkey (k : term) : term := F tag_pub k.
Definition t_chain (k : term) : term := F tag_cc k.
(* extended key strings: key material and chain code *)
Definition t_xprv (k : term) : term := Cat k (t_chain k).
Definition t_xpub (k : term) : term := Cat (t_pubkey k) (t_chain k).
Definition t_signature (k msg : term) : term := F tag_sig (Cat k msg).

(* snacl.SecretKey of a passphrase: the key, and the marshalled parameters salt ++ digest ++ N,r,p *)
Definition t_master_key (pass : term) (salt : nat) : term := Kdf pass (Atom (ARand salt)).
Definition t_params (pass : term) (salt : nat) : term :=
  Cat (Atom (ARand salt)) (Cat (Hash (t_master_key pass salt)) (Pub [0])).

(* ------------------------------------------------------------------ one keystore instance *)
Record inst := mkInst {
  i_seed : nat;            (* which (entropy, private passphrase) *)
  i_id : nat;              (* instance number: names its random crypto keys *)
  i_coin : Z;
  i_priv_salt : nat;       (* scrypt salt of mpriv — an imported keystore keeps the exporter's *)
  i_pub_salt : nat;        (* scrypt salt of mpub *)
  i_pubpass : nat;         (* which public passphrase protects it now *)
  i_ent_len : nat;         (* 16, 20, 24, 28 or 32 *)
  i_remark_len : nat;
  i_addrs : list (Z * Z) }.   (* issued (branch, index) *)

Inductive shape :=
| ShPlain (n : nat)          (* n bytes in clear *)
| ShEnc (n : nat)            (* nonce(24) ++ box(n + 16) *)
| ShAcct (npub npriv : nat). (* account row: 1 + 4 + (4 + enc npub + 4 + enc npriv) *)

Definition enc_len (n : nat) : nat := n + 40.
Definition shape_len (s : shape) : nat :=
  match s with
  | ShPlain n => n
  | ShEnc n => enc_len n
  | ShAcct a b => 5 + (8 + enc_len a + enc_len b)
  end.

Record row := mkRow { r_sub : bytes; r_key : bytes; r_term : term; r_shape : shape }.

(* key names of keystore/db.go *)
Definition n_kver : bytes := [107; 118; 101; 114].
Definition n_mpriv : bytes := [109; 112; 114; 105; 118].
Definition n_mpub : bytes := [109; 112; 117; 98].
Definition n_cpriv : bytes := [99; 112; 114; 105; 118].
Definition n_cpub : bytes := [99; 112; 117; 98].
Definition n_cent : bytes := [99; 101; 110; 116].
Definition n_ent : bytes := [101; 110; 116].
Definition n_account : bytes := [97; 99; 99; 111; 117; 110; 116].
Definition n_cointype : bytes := [99; 111; 105; 110; 84; 121; 112; 101].
Definition n_remark : bytes := [114; 101; 109; 97; 114; 107].
Definition n_exb : bytes := [101; 120; 98; 80; 117; 98; 75; 101; 121].
Definition n_inb : bytes := [105; 110; 98; 80; 117; 98; 75; 101; 121].
Definition n_exnum : bytes := [101; 120; 67; 104; 105; 108; 100; 78; 117; 109].
Definition n_innum : bytes := [105; 110; 67; 104; 105; 108; 100; 78; 117; 109].
Definition n_pub_bucket : bytes := [112; 117; 98].
(* uint32ToBytes(account) for account = 1 *)
Definition n_acct_row : bytes := [1; 0; 0; 0].
Definition le32 (x : Z) : bytes := [x mod 256; (x / 256) mod 256; (x / 65536) mod 256; (x / 16777216) mod 256].

Definition xkey_string_len : nat := 111.   (* base58check of 82 bytes with version 0488ade4 / 0488b21e *)
Definition params_len : nat := 88.         (* 32 salt + 32 digest + 3 * 8 *)

Definition ck_pub (k : inst) : term := Atom (ACkPub (i_id k)).
Definition ck_priv (k : inst) : term := Atom (ACkPriv (i_id k)).
Definition ck_ent (k : inst) : term := Atom (ACkEnt (i_id k)).
Definition mk_pub (k : inst) : term := t_master_key (Atom (APubPass (i_pubpass k))) (i_pub_salt k).
Definition mk_priv (k : inst) : term := t_master_key (t_privpass (i_seed k)) (i_priv_salt k).

Definition pub_row (k : inst) (a : Z * Z) : row :=
  mkRow n_pub_bucket (le32 (fst a) ++ le32 (snd a))
        (Enc (ck_pub k) (t_pubkey (t_addr_key (i_seed k) (i_coin k) (fst a) (snd a)))) (ShEnc 33).

(* every row under k/km/<id> *)
Definition rows (k : inst) : list row :=
  let w := i_seed k in
  let acct := t_acct w (i_coin k) in
  [ mkRow [] n_kver (Pub [0]) (ShPlain 1);
    mkRow [] n_cointype (Pub (le32 (i_coin k))) (ShPlain 4);
    mkRow [] n_account (Pub (le32 1)) (ShPlain 4);
    mkRow [] n_mpub (t_params (Atom (APubPass (i_pubpass k))) (i_pub_salt k)) (ShPlain params_len);
    mkRow [] n_mpriv (t_params (t_privpass w) (i_priv_salt k)) (ShPlain params_len);
    mkRow [] n_cpub (Enc (mk_pub k) (ck_pub k)) (ShEnc 32);
    mkRow [] n_cpriv (Enc (mk_priv k) (ck_priv k)) (ShEnc 32);
    mkRow [] n_cent (Enc (mk_priv k) (ck_ent k)) (ShEnc 32);
    mkRow [] n_ent (Enc (ck_ent k) (t_entropy w)) (ShEnc (i_ent_len k));
    mkRow [] n_acct_row (Cat (Enc (ck_pub k) (t_xpub acct)) (Enc (ck_priv k) (t_xprv acct)))
          (ShAcct xkey_string_len xkey_string_len);
    mkRow [] n_exb (Enc (ck_pub k) (t_xpub (t_branch w (i_coin k) 0))) (ShEnc xkey_string_len);
    mkRow [] n_inb (Enc (ck_pub k) (t_xpub (t_branch w (i_coin k) 1))) (ShEnc xkey_string_len);
    mkRow [] n_exnum (Pub []) (ShPlain 4);
    mkRow [] n_innum (Pub []) (ShPlain 4) ]
  ++ (if (i_remark_len k =? 0)%nat then [] else [mkRow [] n_remark (Pub []) (ShPlain (i_remark_len k))])
  ++ map (pub_row k) (i_addrs k).

(* addrmgr.go export: remarks, version, entropyEnc, privParams, cryptoKeyEntropyEnc, hdPath *)
Definition export_term (k : inst) : term :=
  Cat (Pub []) (Cat (Enc (ck_ent k) (t_entropy (i_seed k)))
      (Cat (t_params (t_privpass (i_seed k)) (i_priv_salt k)) (Enc (mk_priv k) (ck_ent k)))).

(* every error value is a constant string (or a constant formatted with public data) *)
Definition error_term (code : Z) : term := Pub [code].

(* what a successful SignHash / SignRawTx hands out *)
Definition signature_term (k : inst) (a : Z * Z) (msg : bytes) : term :=
  t_signature (t_addr_key (i_seed k) (i_coin k) (fst a) (snd a)) (Pub msg).

(* the secrets of the property's list, for one instance *)
Definition secrets (k : inst) : list term :=
  let w := i_seed k in
  [ t_entropy w; t_privpass w; t_seed w; t_root w; t_acct w (i_coin k);
    t_xprv (t_acct w (i_coin k));
    t_branch w (i_coin k) 0; t_branch w (i_coin k) 1; ck_priv k; ck_ent k; mk_priv k ]
  ++ map (fun a => t_addr_key w (i_coin k) (fst a) (snd a)) (i_addrs k).
