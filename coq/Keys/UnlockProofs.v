(* Keys/UnlockProofs.v — proofs about the unlock machine of Keys/Unlock.v. *)
From Coq Require Import List ZArith Bool Lia.
Import ListNotations.
Require Import MW.Codec.Bip32 MW.Codec.Bip32Proofs MW.Keys.Unlock.
Open Scope Z_scope.

Section Proofs.
  Variable kdf : bytes -> bytes -> bytes.
  Variable digest : bytes -> bytes.
  Variable shash : bytes -> bytes.
  Variable open_box : bytes -> bytes -> option bytes.
  Variable sk : Type.
  Variable sig : Type.
  Variable branch_ok : bytes -> bool.
  Variable derive_sk : bytes -> Z -> Z -> option sk.
  Variable sign : sk -> bytes -> sig.
  Variable zfix : bool.
  Variable sfix : bool.
  Variable nfix : bool.
  Variable cfg : amcfg.

  (* the wallet's true secrets *)
  Variable right : bytes.            (* the private passphrase *)
  Variable acct : bytes.             (* the account extended private key string *)
  Variable ent : bytes.              (* the entropy *)
  Variable sk_of : addr -> sk.       (* the private key of each address *)

  Definition good : bytes := kdf right (c_salt cfg).

  (* What is assumed of the primitives and of the stored rows.
     Idealisations: the stored digest identifies the passphrase among the candidates that do not
     end with a zero byte (scrypt followed by SHA-256 has no collision between such passphrases for
     this salt; scrypt's HMAC zero-pads short keys, so P and P||00.. do collide — see [nfix]); the
     passphrase itself does not end with a zero byte; the salted SHA-512 has no collision for the
     run salt; the derived master key is not the all-zero key and the all-zero key opens neither
     box (secretbox authenticates).
     Facts about the rows written by create / import (manager.go initAcctBucket,
     createManagerKeyScope): the master key opens cpriv and cent, the crypto keys inside open the
     account key and the entropy; the account key derives the key of every issued address. *)
  Record unlock_laws : Prop := {
    cfg_digest : c_digest cfg = digest good;
    kdf_digest_inj : forall p, ends_nul p = false -> digest (kdf p (c_salt cfg)) = digest good -> p = right;
    right_no_nul : ends_nul right = false;
    shash_inj : forall p q, shash (c_run_salt cfg ++ p) = shash (c_run_salt cfg ++ q) -> p = q;
    good_nonzero : good <> zero32;
    open_cpriv : exists ck, open_box good (c_cpriv_enc cfg) = Some ck /\ open_box ck (c_acct_enc cfg) = Some acct;
    open_cent : exists cke, open_box good (c_cent_enc cfg) = Some cke /\ open_box cke (c_ent_enc cfg) = Some ent;
    zero_cpriv : open_box zero32 (c_cpriv_enc cfg) = None;
    zero_cent : open_box zero32 (c_cent_enc cfg) = None;
    acct_branch_ok : branch_ok acct = true;
    derive_known : forall a, known cfg a = true -> derive_sk acct (fst a) (snd a) = Some (sk_of a);
    cfg_v0 : c_version cfg = 0 }.

  Hypothesis laws : unlock_laws.
  (* the theorems of this section are about the code with the salted buffer freshly allocated *)
  Hypothesis Sfix : sfix = true.
  Hypothesis Nfix : nfix = true.

  Local Notation amstate := (amstate sk).
  Local Notation check_password := (check_password kdf digest shash sk sfix nfix cfg).
  Local Notation safely_check := (safely_check kdf digest shash sk zfix sfix nfix cfg).
  Local Notation get_priv := (get_priv open_box sk branch_ok derive_sk cfg).
  Local Notation sign_btcec := (sign_btcec kdf digest shash open_box sk sig branch_ok derive_sk sign sfix nfix cfg).
  Local Notation get_mnemonic := (get_mnemonic kdf digest shash open_box sk sfix nfix cfg).
  Local Notation step := (step kdf digest shash open_box sk sig branch_ok derive_sk sign zfix sfix nfix cfg).
  Local Notation step_st := (step_st kdf digest shash open_box sk sig branch_ok derive_sk sign zfix sfix nfix cfg).
  Local Notation step_out := (step_out kdf digest shash open_box sk sig branch_ok derive_sk sign zfix sfix nfix cfg).
  Local Notation step_uses := (step_uses kdf digest shash open_box sk sig branch_ok derive_sk sign zfix sfix nfix cfg).
  Local Notation run := (run kdf digest shash open_box sk sig branch_ok derive_sk sign zfix sfix nfix cfg).
  Local Notation reachable := (reachable kdf digest shash open_box sk sig branch_ok derive_sk sign zfix sfix nfix cfg).
  Local Notation wstep := (wstep kdf digest shash open_box sk sig branch_ok derive_sk sign zfix sfix nfix cfg).
  Local Notation wrun := (wrun kdf digest shash open_box sk sig branch_ok derive_sk sign zfix sfix nfix cfg).
  Local Notation wreachable := (wreachable kdf digest shash open_box sk sig branch_ok derive_sk sign zfix sfix nfix cfg).
  Local Notation sign_all := (sign_all kdf digest shash open_box sk sig branch_ok derive_sk sign zfix sfix nfix cfg).

  (* ---------------------------------------------------------------- the invariant *)
  Definition cache_ok (l : list (addr * sk)) : Prop :=
    forall a k, lookup_sk a l = Some k -> k = sk_of a.

  Definition CInv (st : amstate) : Prop :=
    cache_ok (s_cached st) /\ s_salt st = c_run_salt cfg.

  Definition Inv (st : amstate) : Prop :=
    CInv st /\
    if s_unlocked st
    then s_hashed st = shash (c_run_salt cfg ++ right) /\
         (s_mk st = good \/ (zfix = false /\ s_mk st = zero32)) /\ s_branch st = Some acct
    else s_hashed st = zero64 /\ s_branch st = None /\ s_cached st = [].

  Lemma Inv_init : Inv (init_state cfg).
  Proof. split; [split; [intros a k H; discriminate|reflexivity]|]. cbn. auto. Qed.

  (* the same state up to the content of masterKeyPriv.Key *)
  Definition same_but_mk (a b : amstate) : Prop :=
    s_unlocked a = s_unlocked b /\ s_hashed a = s_hashed b /\
    s_branch a = s_branch b /\ s_cached a = s_cached b /\ s_salt a = s_salt b.

  Lemma same_refl a : same_but_mk a a.
  Proof. repeat split. Qed.
  Lemma same_set_mk a k : same_but_mk a (set_mk a k).
  Proof. repeat split. Qed.
  Lemma same_trans a b c : same_but_mk a b -> same_but_mk b c -> same_but_mk a c.
  Proof. unfold same_but_mk. intuition congruence. Qed.

  (* ---------------------------------------------------------------- checkPassword *)
  Lemma check_right st : Inv st ->
    check_password st right = (None, if s_unlocked st then st else set_mk st good).
  Proof.
    intros [[_ Hs] H]. unfold Unlock.check_password. rewrite Sfix, Hs, (right_no_nul laws), andb_false_r.
    destruct (s_unlocked st).
    - destruct H as (Hh & _). rewrite Hh, bytes_eqb_refl. reflexivity.
    - fold good. rewrite (cfg_digest laws), bytes_eqb_refl. reflexivity.
  Qed.

  (* the state a refused check leaves: nothing changes, except that a locked manager holds the
     (wrong) derived key when the key derivation was reached *)
  Definition wrong_state (st : amstate) (p : bytes) : amstate :=
    if s_unlocked st then st
    else if ends_nul p then st else set_mk st (kdf p (c_salt cfg)).

  Lemma check_wrong st p : Inv st -> p <> right ->
    check_password st p = (Some EInvalidPassphrase, wrong_state st p).
  Proof.
    intros [[_ Hs] H] Hp. unfold Unlock.check_password, wrong_state. rewrite Sfix, Nfix, Hs. cbn [andb].
    destruct (s_unlocked st).
    - destruct H as (Hh & _). rewrite Hh.
      destruct (bytes_eqb _ _) eqn:E; [|reflexivity].
      apply bytes_eqb_eq in E. apply (shash_inj laws) in E. contradiction.
    - destruct (ends_nul p) eqn:N; [reflexivity|].
      destruct (bytes_eqb _ _) eqn:E; [|reflexivity].
      apply bytes_eqb_eq in E. rewrite (cfg_digest laws) in E.
      apply (kdf_digest_inj laws p N) in E. contradiction.
  Qed.

  Lemma Inv_set_mk_locked st k : Inv st -> s_unlocked st = false -> Inv (set_mk st k).
  Proof. intros [C H] U. split; [exact C|]. cbn. rewrite U in *. exact H. Qed.

  Lemma Inv_wrong_state st p : Inv st -> Inv (wrong_state st p).
  Proof.
    intros I. unfold wrong_state. destruct (s_unlocked st) eqn:U; [exact I|].
    destruct (ends_nul p); [exact I|apply Inv_set_mk_locked; auto].
  Qed.

  Lemma same_wrong_state st p : same_but_mk st (wrong_state st p).
  Proof.
    unfold wrong_state. destruct (s_unlocked st); [apply same_refl|].
    destruct (ends_nul p); [apply same_refl|apply same_set_mk].
  Qed.

  Lemma wrong_state_unlocked st p : s_unlocked (wrong_state st p) = s_unlocked st.
  Proof.
    unfold wrong_state. destruct (s_unlocked st) eqn:U; [exact U|].
    destruct (ends_nul p); [exact U|exact U].
  Qed.

  (* what safelyCheckPassword does after a successful check *)
  Definition after_safe (st : amstate) : amstate :=
    if zfix && s_unlocked st then st else set_mk st zero32.

  Lemma Inv_after_safe st : Inv st -> Inv (after_safe st).
  Proof.
    intros [C H]. unfold after_safe. destruct (zfix && s_unlocked st) eqn:ZU.
    - split; [exact C|exact H].
    - split; [exact C|]. cbn. destruct (s_unlocked st) eqn:U; [|exact H].
      destruct H as (A & _ & B). split; [exact A|]. split; [right|exact B].
      split; [|reflexivity]. destruct zfix; [discriminate|reflexivity].
  Qed.

  Lemma Inv_set_mk_good st : Inv st -> Inv (set_mk st good).
  Proof.
    intros [C H]. split; [exact C|]. cbn. destruct (s_unlocked st); [|exact H].
    destruct H as (A & _ & B). auto.
  Qed.

  Lemma safely_right st : Inv st ->
    safely_check st right = (None, after_safe (if s_unlocked st then st else set_mk st good)).
  Proof. intros I. unfold Unlock.safely_check. rewrite (check_right st I). reflexivity. Qed.

  Lemma Inv_safely_right st : Inv st -> Inv (after_safe (if s_unlocked st then st else set_mk st good)).
  Proof. intros I. apply Inv_after_safe. destruct (s_unlocked st); [exact I|apply Inv_set_mk_good, I]. Qed.

  (* ---------------------------------------------------------------- getPrivKeyBtcec *)
  Lemma lookup_cons_ok a k l : cache_ok l -> k = sk_of a -> cache_ok ((a, k) :: l).
  Proof.
    intros C E b kb. cbn. destruct (addr_eqb b a) eqn:Eb.
    - intros H. inversion H; subst kb. unfold addr_eqb in Eb.
      apply andb_true_iff in Eb. destruct Eb as [E1 E2].
      apply Z.eqb_eq in E1, E2. destruct a, b. cbn in *. subst. reflexivity.
    - apply C.
  Qed.

  (* in a state satisfying the invariant, unlocked, with the master key good or the branch keys
     cached, the key of a known address is obtained, it is the right one, and only the good
     master key is used *)
  Lemma get_priv_ok st a : Inv st -> s_unlocked st = true -> known cfg a = true ->
    exists st', get_priv st a = (ROk (sk_of a), st', if s_branch st then [] else [s_mk st]) /\
                Inv st' /\ s_unlocked st' = true /\ s_hashed st' = s_hashed st /\ s_mk st' = s_mk st.
  Proof.
    intros [C H] U K. rewrite U in H. destruct H as (Hh & Hm & Hb).
    unfold Unlock.get_priv. destruct (lookup_sk a (s_cached st)) as [k|] eqn:L.
    - apply (proj1 C) in L. subst k. rewrite Hb. exists st. split; [reflexivity|]. split; [|auto].
      split; [exact C|]. rewrite U. auto.
    - rewrite Hb. rewrite (derive_known laws a K).
      eexists. split; [reflexivity|]. unfold Inv, CInv. cbn [s_unlocked s_hashed s_mk s_branch s_cached s_salt]. rewrite ?U.
      destruct C as [C Hs]. repeat split; auto. apply lookup_cons_ok; auto.
  Qed.

  (* the same when nothing is cached yet and the master key is the good one *)
  Lemma get_priv_fresh st a : s_cached st = [] -> s_salt st = c_run_salt cfg -> s_unlocked st = true ->
    s_hashed st = shash (c_run_salt cfg ++ right) -> s_mk st = good -> s_branch st = None ->
    known cfg a = true ->
    exists st', get_priv st a = (ROk (sk_of a), st', [good]) /\
                Inv st' /\ s_unlocked st' = true /\ s_mk st' = good /\ s_hashed st' = s_hashed st.
  Proof.
    intros C Hs U Hh Hm Hb K. unfold Unlock.get_priv. rewrite C. cbn [lookup_sk]. rewrite Hb, Hm.
    destruct (open_cpriv laws) as (ck & O1 & O2). rewrite O1, O2, (acct_branch_ok laws).
    rewrite (derive_known laws a K). eexists. split; [reflexivity|].
    unfold Inv, CInv. cbn [s_unlocked s_hashed s_mk s_branch s_cached s_salt]. rewrite U.
    repeat split; auto. apply lookup_cons_ok; [intros b kb Hx; discriminate|reflexivity].
  Qed.

  (* ---------------------------------------------------------------- one step *)
  Definition sign_ready (a : addr) (h : bytes) : Prop := known cfg a = true /\ length h = 32%nat.

  Lemma sign_right st a h : Inv st -> sign_ready a h ->
    exists st' u, step st (OSign right a h) = (OutSig (sign (sk_of a) h), st', u) /\
                  Inv st' /\ s_unlocked st' = true /\ (forall k, In k u -> k = good).
  Proof.
    intros I [K L]. cbn [Unlock.step]. rewrite K. cbn [negb]. unfold Unlock.sign_btcec.
    rewrite L, Nat.eqb_refl. cbn [negb]. rewrite (check_right st I).
    destruct (s_unlocked st) eqn:U; cbn iota; cbn [s_unlocked set_mk]; rewrite ?U; cbn iota.
    - destruct (get_priv_ok st a I U K) as (st' & E & I' & U' & _). rewrite E.
      exists st'. eexists. split; [reflexivity|]. split; [exact I'|]. split; [exact U'|].
      intros k Hk. destruct I as [_ HI]. rewrite U in HI. destruct HI as (_ & Hm & Hb).
      rewrite Hb in Hk. destruct Hk.
    - destruct I as [[C Hs] HI]. rewrite U in HI. destruct HI as (Hh & Hb & Hc).
      destruct (get_priv_fresh (mkSt true (shash (c_run_salt cfg ++ right)) good (s_branch st) (s_cached st) (s_salt st)) a)
        as (st' & E & I' & U' & M' & _); auto.
      cbn [s_hashed s_mk s_branch s_cached s_salt set_mk]. rewrite Hs. rewrite Hs in E. rewrite E.
      exists st'. eexists. split; [reflexivity|]. split; [exact I'|]. split; [exact U'|].
      intros k [<-|[]]. reflexivity.
  Qed.

  Lemma sign_wrong st p a h : Inv st -> sign_ready a h -> p <> right ->
    exists st', step st (OSign p a h) = (OutErr EInvalidPassphrase, st', []) /\
                Inv st' /\ same_but_mk st st'.
  Proof.
    intros I [K L] Hp. cbn [Unlock.step]. rewrite K. cbn [negb]. unfold Unlock.sign_btcec.
    rewrite L, Nat.eqb_refl. cbn [negb]. rewrite (check_wrong st p I Hp).
    eexists. split; [reflexivity|]. split; [apply Inv_wrong_state; exact I|apply same_wrong_state].
  Qed.

  (* a wrong passphrase never yields a signature, whatever the address and the hash *)
  Lemma sign_wrong_any st p a h : Inv st -> p <> right ->
    exists e st', step st (OSign p a h) = (OutErr e, st', []) /\ Inv st' /\ same_but_mk st st'.
  Proof.
    intros I Hp. cbn [Unlock.step]. destruct (known cfg a) eqn:K; cbn [negb].
    2:{ exists EAccountNotFound, st. split; [reflexivity|]. split; [exact I|apply same_refl]. }
    unfold Unlock.sign_btcec. destruct (length h =? 32)%nat eqn:L; cbn [negb].
    2:{ exists EInvalidDataHash, st. split; [reflexivity|]. split; [exact I|apply same_refl]. }
    rewrite (check_wrong st p I Hp). exists EInvalidPassphrase. eexists. split; [reflexivity|].
    split; [apply Inv_wrong_state; exact I|apply same_wrong_state].
  Qed.

  (* every step preserves the invariant *)
  Lemma step_Inv st o : Inv st -> Inv (step_st st o).
  Proof.
    intros I. unfold Unlock.step_st. destruct o as [p a h|p|p|p|a b|np|]; cbn [Unlock.step].
    - (* sign *)
      destruct (known cfg a) eqn:K; cbn [negb]; [|exact I].
      unfold Unlock.sign_btcec.
      destruct (length h =? 32)%nat eqn:L; cbn [negb]; [|exact I].
      apply Nat.eqb_eq in L.
      destruct (Z_lt_le_dec 0 1) as [_|]; [|lia].
      assert (Dp : p = right \/ p <> right).
      { destruct (bytes_eqb p right) eqn:E; [left; apply bytes_eqb_eq; exact E|right].
        intros ->. rewrite bytes_eqb_refl in E. discriminate. }
      destruct Dp as [->|Hp].
      + destruct (sign_right st a h I (conj K L)) as (st' & u & E & I' & _).
        cbn [Unlock.step] in E. rewrite K in E. cbn [negb] in E. unfold Unlock.sign_btcec in E.
        rewrite L, Nat.eqb_refl in E. cbn [negb] in E.
        destruct (check_password st right) as [[e|] st1]; [discriminate|].
        destruct (get_priv _ a) as [[[k|e] st3] uu]; inversion E; subst; exact I'.
      + rewrite (check_wrong st p I Hp). cbn [fst snd].
        apply Inv_wrong_state; exact I.
    - (* export *)
      unfold Unlock.export_keystore, Unlock.safely_check.
      destruct (bytes_eqb p right) eqn:E.
      + apply bytes_eqb_eq in E. subst p. rewrite (check_right st I). cbn [fst snd].
        apply (Inv_safely_right st I).
      + assert (Hp : p <> right) by (intros ->; rewrite bytes_eqb_refl in E; discriminate).
        rewrite (check_wrong st p I Hp). cbn [fst snd].
        apply Inv_wrong_state; exact I.
    - (* mnemonic *)
      unfold Unlock.get_mnemonic.
      destruct (bytes_eqb p right) eqn:E.
      + apply bytes_eqb_eq in E. subst p. rewrite (check_right st I).
        destruct (s_unlocked st) eqn:U.
        * rewrite U.
          destruct (open_box (s_mk st) (c_cent_enc cfg)) as [cke|]; [|exact I].
          destruct (open_box cke (c_ent_enc cfg)); exact I.
        * cbn [s_unlocked set_mk s_mk]. rewrite U.
          assert (IZ : Inv (set_mk (set_mk st good) zero32))
            by (apply Inv_set_mk_locked; [apply Inv_set_mk_good; exact I|exact U]).
          destruct (open_box good (c_cent_enc cfg)) as [cke|]; [|exact IZ].
          destruct (open_box cke (c_ent_enc cfg)); exact IZ.
      + assert (Hp : p <> right) by (intros ->; rewrite bytes_eqb_refl in E; discriminate).
        rewrite (check_wrong st p I Hp). cbn [fst snd].
        apply Inv_wrong_state; exact I.
    - (* check *)
      unfold Unlock.safely_check.
      destruct (bytes_eqb p right) eqn:E.
      + apply bytes_eqb_eq in E. subst p. rewrite (check_right st I). cbn [fst snd].
        apply (Inv_safely_right st I).
      + assert (Hp : p <> right) by (intros ->; rewrite bytes_eqb_refl in E; discriminate).
        rewrite (check_wrong st p I Hp). cbn [fst snd].
        apply Inv_wrong_state; exact I.
    - (* change priv *)
      unfold Unlock.change_priv. destruct (s_unlocked st); [exact I|].
      destruct (c_version cfg =? 0); exact I.
    - (* change pub *)
      unfold Unlock.change_pub, Unlock.safely_check.
      destruct (bytes_eqb np right) eqn:E.
      + apply bytes_eqb_eq in E. subst np. rewrite (check_right st I). cbn [fst snd].
        apply (Inv_safely_right st I).
      + assert (Hp : np <> right) by (intros ->; rewrite bytes_eqb_refl in E; discriminate).
        rewrite (check_wrong st np I Hp). cbn [fst snd].
        apply Inv_wrong_state; exact I.
    - destruct I as [[_ Hs] _]. cbn [snd fst]. unfold Unlock.clear_priv_keys. rewrite Hs. exact Inv_init.
  Qed.

  Lemma clear_is_init st : Inv st -> clear_priv_keys sk st = init_state cfg.
  Proof. intros [[_ Hs] _]. unfold Unlock.clear_priv_keys, Unlock.init_state. rewrite Hs. reflexivity. Qed.

  Lemma Inv_clear st : Inv st -> Inv (clear_priv_keys sk st).
  Proof. intros I. rewrite (clear_is_init st I). exact Inv_init. Qed.

  Lemma run_Inv ops : forall st, Inv st -> Inv (run st ops).
  Proof. induction ops as [|o r IH]; intros st I; [exact I|]. cbn. apply IH, step_Inv, I. Qed.

  Lemma reachable_Inv st : reachable st -> Inv st.
  Proof. intros [ops <-]. apply run_Inv, Inv_init. Qed.

  Lemma sign_wrong_reachable st p a h : reachable st -> known cfg a = true -> length h = 32%nat ->
    p <> right ->
    exists st', step st (OSign p a h) = (OutErr EInvalidPassphrase, st', []) /\ same_but_mk st st'.
  Proof.
    intros R K L Hp. destruct (sign_wrong st p a h (reachable_Inv st R) (conj K L) Hp) as (st' & E & _ & Sm).
    eauto.
  Qed.

  Lemma sign_right_reachable st a h : reachable st -> known cfg a = true -> length h = 32%nat ->
    exists st' u, step st (OSign right a h) = (OutSig (sign (sk_of a) h), st', u) /\ s_unlocked st' = true.
  Proof.
    intros R K L. destruct (sign_right st a h (reachable_Inv st R) (conj K L)) as (st' & u & E & _ & U & _).
    eauto.
  Qed.

  (* ---------------------------------------------------------------- outcomes by passphrase *)
  Lemma pass_dec p : p = right \/ p <> right.
  Proof.
    destruct (bytes_eqb p right) eqn:E; [left; apply bytes_eqb_eq; exact E|right].
    intros ->. rewrite bytes_eqb_refl in E. discriminate.
  Qed.

  (* a wrong passphrase: the passphrase error, nothing but masterKeyPriv.Key changes, no master key
     is used for decryption — for sign, export, reveal, check, in every reachable state *)
  Lemma wrong_pass_refused st o p : Inv st -> needs_secret o = Some p -> p <> right ->
    (forall a h, o = OSign p a h -> sign_ready a h) ->
    exists st', step st o = (OutErr EInvalidPassphrase, st', []) /\ same_but_mk st st'.
  Proof.
    intros I N Hp R. destruct o as [q a h|q|q|q|a b|np|]; cbn in N; inversion N; subst q; clear N.
    - destruct (sign_wrong st p a h I (R a h eq_refl) Hp) as (st' & E & _ & S). eauto.
    - cbn [Unlock.step]. unfold Unlock.export_keystore, Unlock.safely_check.
      rewrite (check_wrong st p I Hp). eexists. split; [reflexivity|].
      apply same_wrong_state.
    - cbn [Unlock.step]. unfold Unlock.get_mnemonic.
      rewrite (check_wrong st p I Hp). eexists. split; [reflexivity|].
      apply same_wrong_state.
    - cbn [Unlock.step]. unfold Unlock.safely_check.
      rewrite (check_wrong st p I Hp). eexists. split; [reflexivity|].
      apply same_wrong_state.
  Qed.

  (* the right passphrase: sign, export and check always work *)
  Lemma right_pass_export st : Inv st ->
    exists st', step st (OExport right) = (OutExport (export_of_cfg cfg), st', []) /\
                s_unlocked st' = s_unlocked st /\ same_but_mk st st' /\
                (s_unlocked st = true -> s_mk st' = if zfix then s_mk st else zero32).
  Proof.
    intros I. cbn [Unlock.step]. unfold Unlock.export_keystore. rewrite (safely_right st I).
    eexists. split; [reflexivity|]. unfold after_safe.
    destruct (s_unlocked st) eqn:U; cbn [s_unlocked set_mk]; rewrite ?U;
      destruct zfix; cbn [andb s_unlocked s_mk set_mk]; rewrite ?U; repeat split; try discriminate.
  Qed.

  Lemma right_pass_check st : Inv st ->
    exists st', step st (OCheck right) = (OutUnit, st', []) /\
                s_unlocked st' = s_unlocked st /\ same_but_mk st st'.
  Proof.
    intros I. cbn [Unlock.step]. rewrite (safely_right st I).
    eexists. split; [reflexivity|]. unfold after_safe.
    destruct (s_unlocked st) eqn:U; cbn [s_unlocked set_mk]; rewrite ?U;
      destruct zfix; cbn [andb s_unlocked s_mk set_mk]; rewrite ?U; repeat split.
  Qed.

  (* reveal works unless the manager is unlocked with a zeroed master key *)
  Lemma right_pass_mnemonic st : Inv st -> ~ (s_unlocked st = true /\ s_mk st = zero32) ->
    exists st', step st (OMnemonic right) = (OutEntropy ent, st', [good]) /\ same_but_mk st st'.
  Proof.
    intros I G. cbn [Unlock.step]. unfold Unlock.get_mnemonic. rewrite (check_right st I).
    destruct (open_cent laws) as (cke & O1 & O2).
    destruct (s_unlocked st) eqn:U.
    - rewrite U. destruct I as [_ HI]. rewrite U in HI. destruct HI as (_ & [Hm|[_ Hm]] & _).
      + rewrite Hm, O1, O2. eexists. split; [reflexivity|apply same_refl].
      + exfalso. apply G. auto.
    - cbn [s_unlocked set_mk s_mk]. rewrite U, O1, O2. eexists. split; [reflexivity|].
      repeat split.
  Qed.

  (* ... and in that one state it fails with a decryption error although the passphrase is right *)
  Lemma right_pass_mnemonic_zeroed st : Inv st -> s_unlocked st = true -> s_mk st = zero32 ->
    step st (OMnemonic right) = (OutErr EDecryptFailed, st, [zero32]).
  Proof.
    intros I U M. cbn [Unlock.step]. unfold Unlock.get_mnemonic. rewrite (check_right st I), U, U, M.
    rewrite (zero_cent laws). reflexivity.
  Qed.

  (* with the repair that state does not exist ... *)
  Lemma fixed_never_zeroed st : zfix = true -> Inv st -> ~ (s_unlocked st = true /\ s_mk st = zero32).
  Proof.
    intros Z [_ HI] [U M]. rewrite U in HI. destruct HI as (_ & [Hm|[Hz _]] & _).
    - apply (good_nonzero laws). congruence.
    - congruence.
  Qed.

  (* ... in the code as first found it is reachable: sign, then export *)
  Lemma zeroed_unlocked_reachable a h : zfix = false -> sign_ready a h ->
    exists st, reachable st /\ s_unlocked st = true /\ s_mk st = zero32.
  Proof.
    intros Z R.
    destruct (sign_right (init_state cfg) a h Inv_init R) as (st1 & u & E1 & I1 & U1 & _).
    destruct (right_pass_export st1 I1) as (st2 & E2 & U2 & _ & M2).
    exists st2. split; [|split; [congruence|]].
    - exists [OSign right a h; OExport right]. cbn [Unlock.run]. unfold Unlock.step_st.
      rewrite E1. cbn [fst snd]. rewrite E2. reflexivity.
    - rewrite (M2 U1), Z. reflexivity.
  Qed.

  Lemma mnemonic_gate_refuted a h : zfix = false -> sign_ready a h ->
    exists st, reachable st /\ step_out st (OMnemonic right) = OutErr EDecryptFailed.
  Proof.
    intros Z R. destruct (zeroed_unlocked_reachable a h Z R) as (st & Rs & U & M).
    exists st. split; [exact Rs|]. unfold Unlock.step_out.
    rewrite (right_pass_mnemonic_zeroed st (reachable_Inv st Rs) U M). reflexivity.
  Qed.

  (* ---------------------------------------------------------------- the gate *)
  Definition op_ready (o : op) : Prop := forall p a h, o = OSign p a h -> sign_ready a h.
  Definition mnemonic_guard (st : amstate) (o : op) : Prop :=
    forall p, o = OMnemonic p -> ~ (s_unlocked st = true /\ s_mk st = zero32).

  Theorem gate st o p : reachable st -> needs_secret o = Some p -> op_ready o -> mnemonic_guard st o ->
    (is_ok (step_out st o) = true <-> p = right) /\
    (p <> right -> step_out st o = OutErr EInvalidPassphrase).
  Proof.
    intros Rs N R G. pose proof (reachable_Inv st Rs) as I.
    assert (W : p <> right -> step_out st o = OutErr EInvalidPassphrase).
    { intros Hp. destruct (wrong_pass_refused st o p I N Hp) as (st' & E & _).
      - intros a h ->. apply (R p a h eq_refl).
      - unfold Unlock.step_out. rewrite E. reflexivity. }
    split; [|exact W]. split.
    - intros Ok. destruct (pass_dec p) as [->|Hp]; [reflexivity|]. rewrite (W Hp) in Ok. discriminate.
    - intros ->. unfold Unlock.step_out.
      destruct o as [q a h|q|q|q|a b|np|]; cbn in N; inversion N; subst q; clear N.
      + destruct (sign_right st a h I (R right a h eq_refl)) as (st' & u & E & _). rewrite E. reflexivity.
      + destruct (right_pass_export st I) as (st' & E & _). rewrite E. reflexivity.
      + destruct (right_pass_mnemonic st I (G right eq_refl)) as (st' & E & _). rewrite E. reflexivity.
      + destruct (right_pass_check st I) as (st' & E & _). rewrite E. reflexivity.
  Qed.

  (* the repaired code: no exception *)
  Theorem gate_fixed st o p : zfix = true -> reachable st -> needs_secret o = Some p -> op_ready o ->
    (is_ok (step_out st o) = true <-> p = right) /\
    (p <> right -> step_out st o = OutErr EInvalidPassphrase).
  Proof.
    intros Z Rs N R. apply gate; auto. intros q _. apply fixed_never_zeroed; auto.
    apply reachable_Inv, Rs.
  Qed.

  (* ---------------------------------------------------------------- refusals change nothing *)
  Theorem refusal_frames st o e : reachable st -> op_ready o ->
    step_out st o = OutErr e -> same_but_mk st (step_st st o).
  Proof.
    intros Rs R E. pose proof (reachable_Inv st Rs) as I.
    unfold Unlock.step_out in E. unfold Unlock.step_st.
    destruct o as [p a h|p|p|p|a b|np|].
    - destruct (known cfg a) eqn:K.
      2:{ cbn [Unlock.step]. rewrite K. cbn. apply same_refl. }
      destruct (pass_dec p) as [->|Hp].
      + destruct (sign_right st a h I (R right a h eq_refl)) as (st' & u & E' & _).
        rewrite E' in E. discriminate.
      + destruct (sign_wrong st p a h I (R p a h eq_refl) Hp) as (st' & E' & _ & S).
        rewrite E'. exact S.
    - destruct (pass_dec p) as [->|Hp].
      + destruct (right_pass_export st I) as (st' & E' & _). rewrite E' in E. discriminate.
      + destruct (wrong_pass_refused st (OExport p) p I eq_refl Hp) as (st' & E' & S); [discriminate|].
        rewrite E'. exact S.
    - destruct (pass_dec p) as [->|Hp].
      + cbn [Unlock.step]. unfold Unlock.get_mnemonic. rewrite (check_right st I).
        destruct (s_unlocked st) eqn:U.
        * rewrite U. destruct (open_box (s_mk st) (c_cent_enc cfg)) as [cke|]; [|apply same_refl].
          destruct (open_box cke (c_ent_enc cfg)); apply same_refl.
        * cbn [s_unlocked set_mk s_mk]. rewrite U.
          destruct (open_box good (c_cent_enc cfg)) as [cke|]; [|repeat split].
          destruct (open_box cke (c_ent_enc cfg)); repeat split.
      + destruct (wrong_pass_refused st (OMnemonic p) p I eq_refl Hp) as (st' & E' & S); [discriminate|].
        rewrite E'. exact S.
    - destruct (pass_dec p) as [->|Hp].
      + destruct (right_pass_check st I) as (st' & E' & _). rewrite E' in E. discriminate.
      + destruct (wrong_pass_refused st (OCheck p) p I eq_refl Hp) as (st' & E' & S); [discriminate|].
        rewrite E'. exact S.
    - cbn [Unlock.step]. unfold Unlock.change_priv. destruct (s_unlocked st); [apply same_refl|].
      destruct (c_version cfg =? 0); apply same_refl.
    - cbn [Unlock.step]. unfold Unlock.change_pub, Unlock.safely_check.
      destruct (pass_dec np) as [->|Hp].
      + rewrite (check_right st I). cbn [fst snd].
        destruct (s_unlocked st) eqn:U; cbn [s_unlocked set_mk]; rewrite ?U;
          destruct zfix; cbn [andb]; repeat split.
      + cbn [Unlock.step] in E. unfold Unlock.change_pub, Unlock.safely_check in E.
        rewrite (check_wrong st np I Hp) in E. cbn in E. discriminate.
    - cbn in E. discriminate.
  Qed.

  (* ---------------------------------------------------------------- the wrong key is never used *)
  Theorem wrong_key_never_used st o k : reachable st -> op_ready o ->
    In k (step_uses st o) -> k = good \/ k = zero32.
  Proof.
    intros Rs R Hk. pose proof (reachable_Inv st Rs) as I. unfold Unlock.step_uses in Hk.
    destruct o as [p a h|p|p|p|a b|np|].
    - destruct (known cfg a) eqn:K.
      2:{ cbn [Unlock.step] in Hk. rewrite K in Hk. destruct Hk. }
      destruct (pass_dec p) as [->|Hp].
      + destruct (sign_right st a h I (R right a h eq_refl)) as (st' & u & E' & _ & _ & G).
        rewrite E' in Hk. left. apply G. exact Hk.
      + destruct (sign_wrong st p a h I (R p a h eq_refl) Hp) as (st' & E' & _).
        rewrite E' in Hk. destruct Hk.
    - destruct (pass_dec p) as [->|Hp].
      + destruct (right_pass_export st I) as (st' & E' & _). rewrite E' in Hk. destruct Hk.
      + destruct (wrong_pass_refused st (OExport p) p I eq_refl Hp) as (st' & E' & S); [discriminate|].
        rewrite E' in Hk. destruct Hk.
    - destruct (pass_dec p) as [->|Hp].
      + cbn [Unlock.step] in Hk. unfold Unlock.get_mnemonic in Hk. rewrite (check_right st I) in Hk.
        assert (M : (if s_unlocked st then s_mk st else good) = good \/ (if s_unlocked st then s_mk st else good) = zero32).
        { destruct (s_unlocked st) eqn:U; [|left; reflexivity].
          destruct I as [_ HI]. rewrite U in HI. tauto. }
        destruct (s_unlocked st) eqn:U.
        * destruct (open_box (s_mk st) (c_cent_enc cfg)) as [cke|].
          -- destruct (open_box cke (c_ent_enc cfg)); cbn in Hk; destruct Hk as [<-|[]]; exact M.
          -- cbn in Hk. destruct Hk as [<-|[]]; exact M.
        * cbn [s_mk set_mk] in Hk.
          destruct (open_box good (c_cent_enc cfg)) as [cke|].
          -- destruct (open_box cke (c_ent_enc cfg)); cbn in Hk; destruct Hk as [<-|[]]; exact M.
          -- cbn in Hk. destruct Hk as [<-|[]]; exact M.
      + destruct (wrong_pass_refused st (OMnemonic p) p I eq_refl Hp) as (st' & E' & S); [discriminate|].
        rewrite E' in Hk. destruct Hk.
    - cbn [Unlock.step] in Hk. destruct (safely_check st p) as [[e|] st']; destruct Hk.
    - cbn [Unlock.step] in Hk. unfold Unlock.change_priv in Hk.
      destruct (s_unlocked st); [destruct Hk|]. destruct (c_version cfg =? 0); destruct Hk.
    - cbn [Unlock.step] in Hk. unfold Unlock.change_pub in Hk.
      destruct (safely_check st np) as [[e|] st']; destruct Hk.
    - destruct Hk.
  Qed.

  (* ---------------------------------------------------------------- WalletManager level *)
  Lemma sign_all_Inv ins : forall st p, Inv st -> Inv (snd (sign_all st p ins)).
  Proof.
    induction ins as [|[a h] r IH]; intros st p I; [exact I|]. cbn [Unlock.sign_all].
    pose proof (step_Inv st (OSign p a h) I) as I1. unfold Unlock.step_st in I1.
    destruct (step st (OSign p a h)) as [[o st1] u]. cbn [fst snd] in I1.
    destruct o; try exact I1.
    specialize (IH st1 p I1). destruct (sign_all st1 p r) as [[l|e] st2]; exact IH.
  Qed.

  (* operations other than signing leave a locked manager locked *)
  Lemma step_keeps_locked st o : match o with OSign _ _ _ => False | _ => True end ->
    s_unlocked st = false -> s_unlocked (step_st st o) = false.
  Proof.
    intros NS U. unfold Unlock.step_st. destruct o; try contradiction; cbn [Unlock.step];
      unfold Unlock.export_keystore, Unlock.get_mnemonic, Unlock.change_priv, Unlock.change_pub;
      unfold Unlock.safely_check; unfold Unlock.check_password;
      rewrite ?U;
      repeat match goal with
             | |- context [if ?b then _ else _] => destruct b
             | |- context [match ?x with Some _ => _ | None => _ end] => destruct x
             end;
      cbn [fst snd s_unlocked set_mk set_salt Unlock.clear_priv_keys locked_state]; rewrite ?U; try reflexivity.
  Qed.

  Lemma wstep_locked st o : is_sign_hash o = false -> Inv st -> s_unlocked st = false ->
    Inv (snd (wstep st o)) /\ s_unlocked (snd (wstep st o)) = false.
  Proof.
    intros NS I U. destruct o as [p ins|p a h|p|p|p|a b|np]; try discriminate; cbn [Unlock.wstep snd].
    - pose proof (sign_all_Inv ins st p I) as I1.
      remember (sign_all st p ins) as q eqn:Eq. destruct q as [[l|e] st']; cbn [snd] in *;
        (split; [apply Inv_clear; exact I1|reflexivity]).
    - split; [apply step_Inv, I|apply step_keeps_locked; auto].
    - split; [apply step_Inv, I|apply step_keeps_locked; auto].
    - split; [apply step_Inv, I|apply step_keeps_locked; auto].
    - split; [apply step_Inv, I|apply step_keeps_locked; auto].
    - split; [apply step_Inv, I|apply step_keeps_locked; auto].
  Qed.

  Lemma wrun_locked ops : forall st, forallb (fun o => negb (is_sign_hash o)) ops = true ->
    Inv st -> s_unlocked st = false -> Inv (wrun st ops) /\ s_unlocked (wrun st ops) = false.
  Proof.
    induction ops as [|o r IH]; intros st F I U; [auto|]. cbn in F. apply andb_true_iff in F.
    destruct F as [F1 F2]. apply negb_true_iff in F1. cbn [Unlock.wrun].
    destruct (wstep_locked st o F1 I U) as [I' U']. apply IH; auto.
  Qed.

  (* between two WalletManager calls (without the bare SignHash) the manager is locked *)
  Lemma wreachable_locked st : wreachable st -> Inv st /\ s_unlocked st = false.
  Proof. intros (ops & F & <-). apply wrun_locked; auto. apply Inv_init. Qed.

  (* a wrun is a run: every WalletManager call is a sequence of KeystoreManager calls *)
  Lemma sign_all_run ins : forall st p, exists ops, snd (sign_all st p ins) = run st ops.
  Proof.
    induction ins as [|[a h] r IH]; intros st p; [exists []; reflexivity|]. cbn [Unlock.sign_all].
    destruct (step st (OSign p a h)) as [[o st1] u] eqn:E.
    assert (S1 : st1 = step_st st (OSign p a h)) by (unfold Unlock.step_st; rewrite E; reflexivity).
    destruct (IH st1 p) as (ops & Eo).
    destruct o.
    - destruct (sign_all st1 p r) as [[l|e] st2]; cbn [snd] in *;
        exists (OSign p a h :: ops); cbn [Unlock.run]; rewrite <- S1; exact Eo.
    - exists [OSign p a h]. cbn [Unlock.run snd]. rewrite <- S1. reflexivity.
    - exists [OSign p a h]. cbn [Unlock.run snd]. rewrite <- S1. reflexivity.
    - exists [OSign p a h]. cbn [Unlock.run snd]. rewrite <- S1. reflexivity.
    - exists [OSign p a h]. cbn [Unlock.run snd]. rewrite <- S1. reflexivity.
  Qed.

  Lemma run_app ops1 : forall st ops2, run st (ops1 ++ ops2) = run (run st ops1) ops2.
  Proof. induction ops1 as [|o r IH]; intros st ops2; [reflexivity|]. cbn. apply IH. Qed.

  Lemma wstep_run st o : exists ops, snd (wstep st o) = run st ops.
  Proof.
    destruct o as [p ins|p a h|p|p|p|a b|np]; cbn [Unlock.wstep snd].
    - destruct (sign_all_run ins st p) as (ops & E).
      exists (ops ++ [OClear]). rewrite run_app.
      destruct (sign_all st p ins) as [[l|e] st']; cbn [snd] in *; rewrite <- E; reflexivity.
    - exists [OSign p a h]. reflexivity.
    - exists [OExport p]. reflexivity.
    - exists [OMnemonic p]. reflexivity.
    - exists [OCheck p]. reflexivity.
    - exists [OChangePriv a b]. reflexivity.
    - exists [OChangePub np]. reflexivity.
  Qed.

  Lemma wrun_run wops : forall st, exists ops, wrun st wops = run st ops.
  Proof.
    induction wops as [|o r IH]; intros st; [exists []; reflexivity|]. cbn [Unlock.wrun].
    destruct (wstep_run st o) as (ops1 & E1). destruct (IH (snd (wstep st o))) as (ops2 & E2).
    exists (ops1 ++ ops2). rewrite run_app, <- E1. exact E2.
  Qed.

  Lemma wreachable_reachable st : wreachable st -> reachable st.
  Proof. intros (wops & _ & <-). destruct (wrun_run wops (init_state cfg)) as (ops & E). exists ops. auto. Qed.

  (* through the WalletManager's own calls the gate has no exception *)
  Theorem wgate st o p : wreachable st -> needs_secret o = Some p -> op_ready o ->
    (is_ok (step_out st o) = true <-> p = right) /\
    (p <> right -> step_out st o = OutErr EInvalidPassphrase).
  Proof.
    intros W N R. apply gate; auto.
    - apply wreachable_reachable, W.
    - intros q _ [U _]. destruct (wreachable_locked st W) as [_ L]. congruence.
  Qed.

  (* signing a whole transaction: right passphrase *)
  Lemma sign_all_right ins : forall st, Inv st ->
    Forall (fun ah => sign_ready (fst ah) (snd ah)) ins ->
    exists st', sign_all st right ins = (ROk (map (fun ah => sign (sk_of (fst ah)) (snd ah)) ins), st') /\ Inv st'.
  Proof.
    induction ins as [|[a h] r IH]; intros st I F; [exists st; split; [reflexivity|exact I]|].
    inversion F as [|x l R1 R2]; subst x l. cbn [fst snd] in R1.
    destruct (sign_right st a h I R1) as (st1 & u & E & I1 & _).
    cbn [Unlock.sign_all]. rewrite E.
    destruct (IH st1 I1 R2) as (st2 & E2 & I2). rewrite E2. exists st2. split; [reflexivity|exact I2].
  Qed.

  (* wrong passphrase: the first input already fails, nothing is signed *)
  Lemma sign_all_wrong st p a h r : Inv st -> sign_ready a h -> p <> right ->
    exists st', sign_all st p ((a, h) :: r) = (RErr EInvalidPassphrase, st') /\ same_but_mk st st'.
  Proof.
    intros I R Hp. destruct (sign_wrong st p a h I R Hp) as (st' & E & _ & S).
    cbn [Unlock.sign_all]. rewrite E. eauto.
  Qed.
End Proofs.

(* ------------------------------------------------------------------ the salt defect
   (finding empty-passphrase-zeroes-salt): with the salted buffer built by
   append(a.privPassphraseSalt[:], passphrase...) an EMPTY candidate passphrase, checked while the
   manager is unlocked, zeroes the manager's salt; the right passphrase is refused afterwards. *)
Section SaltDefect.
  Variable kdf : bytes -> bytes -> bytes.
  Variable digest : bytes -> bytes.
  Variable shash : bytes -> bytes.
  Variable open_box : bytes -> bytes -> option bytes.
  Variable sk : Type.
  Variable sig : Type.
  Variable branch_ok : bytes -> bool.
  Variable derive_sk : bytes -> Z -> Z -> option sk.
  Variable sign : sk -> bytes -> sig.
  Variable zfix : bool.
  Variable nfix : bool.
  Variable cfg : amcfg.
  Variable right : bytes.
  Variable acct : bytes.
  Variable ent : bytes.
  Variable sk_of : addr -> sk.
  Hypothesis laws : unlock_laws kdf digest shash open_box sk branch_ok derive_sk cfg right acct ent sk_of.

  Local Notation stepf b := (step kdf digest shash open_box sk sig branch_ok derive_sk sign zfix b nfix cfg).

  Lemma check_password_sfix st p : null p = false ->
    check_password kdf digest shash sk false nfix cfg st p = check_password kdf digest shash sk true nfix cfg st p.
  Proof. intros N. unfold check_password. rewrite N. reflexivity. Qed.

  (* an operation whose candidate passphrase is not empty behaves the same in both versions *)
  Definition pass_nonempty (o : op) : Prop :=
    match o with
    | OSign p _ _ | OExport p | OMnemonic p | OCheck p | OChangePub p => null p = false
    | _ => True
    end.

  Lemma step_sfix st o : pass_nonempty o -> stepf false st o = stepf true st o.
  Proof.
    destruct o as [p a h|p|p|p|a b|np|]; cbn [pass_nonempty]; intros N; cbn [step]; try reflexivity.
    - unfold sign_btcec. rewrite (check_password_sfix st p N). reflexivity.
    - unfold export_keystore, safely_check. rewrite (check_password_sfix st p N). reflexivity.
    - unfold get_mnemonic. rewrite (check_password_sfix st p N). reflexivity.
    - unfold safely_check. rewrite (check_password_sfix st p N). reflexivity.
    - unfold change_pub, safely_check. rewrite (check_password_sfix st np N). reflexivity.
  Qed.

  Theorem salt_defect_refuted a h :
    sign_ready cfg a h -> right <> [] ->
    shash (zero32 ++ right) <> shash (c_run_salt cfg ++ right) ->
    exists st,
      reachable kdf digest shash open_box sk sig branch_ok derive_sk sign zfix false nfix cfg st /\
      s_unlocked st = true /\ s_salt st = zero32 /\
      step_out kdf digest shash open_box sk sig branch_ok derive_sk sign zfix false nfix cfg st (OExport right)
        = OutErr EInvalidPassphrase /\
      step_out kdf digest shash open_box sk sig branch_ok derive_sk sign zfix false nfix cfg st (OMnemonic right)
        = OutErr EInvalidPassphrase.
  Proof.
    intros R Rn Hne.
    assert (Nr : null right = false) by (destruct right; [congruence|reflexivity]).
    destruct (sign_right kdf digest shash open_box sk sig branch_ok derive_sk sign zfix true nfix cfg right acct ent sk_of
                laws eq_refl (init_state cfg) a h
                (Inv_init kdf shash sk zfix cfg right acct sk_of) R) as (st1 & u & E1 & I1 & U1 & _).
    destruct I1 as [[_ Hs1] HI1]. rewrite U1 in HI1. destruct HI1 as (Hh1 & _ & _).
    set (st2 := set_salt st1 zero32).
    assert (E2 : stepf false st1 (OCheck []) = (OutErr EInvalidPassphrase, st2, [])).
    { cbn [step]. unfold safely_check, check_password. rewrite U1. cbn [null].
      rewrite Hs1, Hh1.
      destruct (bytes_eqb (shash (c_run_salt cfg ++ [])) (shash (c_run_salt cfg ++ right))) eqn:B.
      - apply bytes_eqb_eq in B. apply (shash_inj _ _ _ _ _ _ _ _ _ _ _ _ laws) in B. congruence.
      - reflexivity. }
    exists st2. split; [|split; [exact U1|split; [reflexivity|]]].
    - exists [OSign right a h; OCheck []]. cbn [run]. unfold step_st.
      rewrite (step_sfix (init_state cfg) (OSign right a h) Nr), E1. cbn [fst snd]. rewrite E2. reflexivity.
    - assert (C : check_password kdf digest shash sk false nfix cfg st2 right = (Some EInvalidPassphrase, st2)).
      { unfold check_password. unfold st2 at 1. cbn [s_unlocked set_salt]. rewrite U1, Nr.
        unfold st2 at 1 2. cbn [s_salt s_hashed set_salt]. rewrite Hh1.
        destruct (bytes_eqb _ _) eqn:B; [|reflexivity]. apply bytes_eqb_eq in B. contradiction. }
      split; unfold step_out; cbn [step].
      + unfold export_keystore, safely_check. rewrite C. reflexivity.
      + unfold get_mnemonic. rewrite C. reflexivity.
  Qed.
End SaltDefect.

(* ------------------------------------------------------------------ the trailing-NUL defect
   (finding passphrase-trailing-nul-equivalent, repaired by /repo commit 30c1bd3): scrypt keys its
   HMAC with the passphrase and HMAC zero-pads short keys, so P and P followed by a zero byte
   derive the same key; without the guard the locked-state check accepts P||00. *)
Section NulDefect.
  Variable kdf : bytes -> bytes -> bytes.
  Variable digest : bytes -> bytes.
  Variable shash : bytes -> bytes.
  Variable open_box : bytes -> bytes -> option bytes.
  Variable sk : Type.
  Variable sig : Type.
  Variable branch_ok : bytes -> bool.
  Variable derive_sk : bytes -> Z -> Z -> option sk.
  Variable sign : sk -> bytes -> sig.
  Variable zfix sfix : bool.
  Variable cfg : amcfg.
  Variable right : bytes.

  Theorem nul_defect_refuted :
    c_digest cfg = digest (kdf right (c_salt cfg)) ->
    kdf (right ++ [0]) (c_salt cfg) = kdf right (c_salt cfg) ->
    right ++ [0] <> right /\
    step_out kdf digest shash open_box sk sig branch_ok derive_sk sign zfix sfix false cfg
             (init_state cfg) (OCheck (right ++ [0])) = OutUnit /\
    step_out kdf digest shash open_box sk sig branch_ok derive_sk sign zfix sfix false cfg
             (init_state cfg) (OExport (right ++ [0])) = OutExport (export_of_cfg cfg).
  Proof.
    intros D E. split.
    - intros H. apply (f_equal (@length Z)) in H. rewrite app_length in H. cbn in H. lia.
    - unfold step_out. cbn [step]. unfold export_keystore, safely_check, check_password.
      cbn [init_state locked_state s_unlocked andb]. rewrite E, D, bytes_eqb_refl. split; reflexivity.
  Qed.
End NulDefect.
