(* Keys/ExecManager.v — the executable instance of Keys/Manager.v the C05 correspondence driver runs
   (perfect-cryptography primitives of Keys/Toy.v; definitions only). *)
From Coq Require Import List ZArith Bool.
Import ListNotations.
Require Import MW.Codec.Bip32 MW.Keys.Unlock MW.Keys.Toy MW.Keys.Manager.
Open Scope Z_scope.

(* the encoded address of path a of keystore id: injective for ids, branches and indexes below 2^16, 2^16, 2^32 *)
Definition x_name (id : kid) (a : addr) : aname := id * 281474976710656 + fst a * 4294967296 + snd a.
Definition x_mstate := mstate Toy.sk.
Definition x_mfresh (l : list (kid * amcfg)) : x_mstate := fresh l.
Definition x_wstep (zfix sfix nfix cfix : bool) (m : x_mstate) (o : wop) : mout bytes * x_mstate :=
  wstep Toy.kdf Toy.digest Toy.shash Toy.open_box Toy.sk bytes Toy.branch_ok Toy.derive_sk Toy.sign
        zfix sfix nfix cfix x_name m o.
Definition x_mobs (m : x_mstate) := obs_manager m.
