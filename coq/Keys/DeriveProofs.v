(* Keys/DeriveProofs.v — proofs about the wallet's key tree (Keys/Derive.v). *)
From Coq Require Import List ZArith Bool Lia.
Import ListNotations.
Require Import MW.Codec.Bip32 MW.Codec.Bip32Proofs MW.Keys.Derive.
Require MW.Codec.Bip39 MW.Codec.Bip39Proofs.
Open Scope Z_scope.

(* secretbox as an ideal authenticated cipher: the right key opens, no other key does *)
Record box_laws (seal : bytes -> bytes -> bytes -> bytes) (open_box : bytes -> bytes -> option bytes) : Prop := {
  open_seal : forall k n m, open_box k (seal k n m) = Some m;
  open_other : forall k k' n m, k <> k' -> open_box k' (seal k n m) = None }.

Lemma bind_assoc {A B C} (o : Outcome A) (f : A -> Outcome B) (g : B -> Outcome C) :
  bind (bind o f) g = bind o (fun a => bind (f a) g).
Proof. destruct o; reflexivity. Qed.

Section Proofs.
  Variable hmac512 : bytes -> bytes -> bytes.
  Variable point : Type.
  Variable smulG : Z -> point.
  Variable padd : point -> point -> point.
  Variable ser_P : point -> bytes.
  Variable parse_pub : bytes -> option point.
  Variable coord_zero : point -> bool.
  Variable is_inf : point -> bool.
  Variable hash160 : bytes -> bytes.
  Variable dsha256 : bytes -> bytes.
  Variable b58enc : bytes -> bytes.
  Variable b58dec : bytes -> bytes.
  Variable sha256 : bytes -> bytes.
  Hypothesis laws : prim_laws hmac512 smulG padd ser_P parse_pub coord_zero is_inf hash160 dsha256 b58enc b58dec.

  Local Notation child := (child hmac512 point smulG padd ser_P parse_pub coord_zero hash160).
  Local Notation neuter := (neuter point smulG ser_P).
  Local Notation wf_key := (wf_key point parse_pub).
  Local Notation pub33_of := (pub33_of point smulG ser_P parse_pub).
  Local Notation pub_route_issue := (pub_route_issue hmac512 point smulG padd ser_P parse_pub coord_zero hash160).
  Local Notation pub_route_import := (pub_route_import hmac512 point smulG padd ser_P parse_pub coord_zero hash160).
  Local Notation priv_route_sign := (priv_route_sign hmac512 point smulG padd ser_P parse_pub coord_zero hash160).
  Local Notation pub_of_sign_key := (pub_of_sign_key hmac512 point smulG padd ser_P parse_pub coord_zero hash160).

  (* Child keeps the kind and the version of the parent *)
  Lemma child_priv_version k i c : child k i = Ok c -> ek_priv c = ek_priv k /\ ek_version c = ek_version k.
  Proof.
    unfold Bip32.child. cbv zeta.
    destruct (ek_depth k =? max_uint8); [discriminate|].
    destruct (negb (ek_priv k) && (hardened_start <=? i)); [discriminate|].
    destruct ((curve_n <=? _) || (_ =? 0)); [discriminate|].
    destruct (ek_priv k) eqn:P.
    - intros E. inversion E. cbn. auto.
    - destruct (coord_zero _); [discriminate|].
      destruct (parse_pub (ek_key k)); [|discriminate].
      intros E. inversion E. cbn. auto.
  Qed.

  (* Neuter of a private key succeeds exactly when its version has a public counterpart *)
  Lemma neuter_private_ok k kp c : ek_priv k = true -> neuter k = Ok kp ->
    ek_priv c = true -> ek_version c = ek_version k -> exists cp, neuter c = Ok cp.
  Proof.
    unfold Bip32.neuter. intros P. rewrite P. cbn [negb].
    destruct (hd_priv_to_pub (ek_version k)) as [v|] eqn:V; [|discriminate].
    intros _ Pc Vc. rewrite Pc, Vc, V. cbn [negb]. eexists. reflexivity.
  Qed.

  (* the compressed public key of a well-formed private key is serP(k*G) *)
  Lemma neuter_pub33 k kp : wf_key k -> ek_priv k = true -> neuter k = Ok kp ->
    pub33_of kp = Ok (ser_P (smulG (be2z (ek_key k)))).
  Proof.
    intros W P. unfold Bip32.neuter. rewrite P. cbn [negb].
    destruct (hd_priv_to_pub (ek_version k)) as [v|]; [|discriminate].
    intros E. inversion E; subst kp; clear E.
    unfold Derive.pub33_of, Bip32.api_pub, Bip32.pub_key_bytes. cbn [ek_priv ek_key]. rewrite P.
    unfold Bip32Proofs.wf_key in W. rewrite P in W. destruct W as (_ & _ & Hk).
    rewrite (parse_ser laws) by (apply (smul_not_inf laws); exact Hk). reflexivity.
  Qed.

  (* C04: the three routes the code uses to reach the key of (branch, index) agree.
     [wf_key kb] says the branch key is a usable private key: it fails only when the branch
     scalar is 0 (probability about 2^-256; hdkeychain then returns an empty key). *)
  Theorem routes_agree acct ap b i kb :
    wf_key acct -> ek_priv acct = true -> neuter acct = Ok ap ->
    b < hardened_start -> i < hardened_start ->
    child acct b = Ok kb -> wf_key kb ->
    pub_route_issue ap b i = pub_route_import acct b i /\
    pub_route_import acct b i = pub_of_sign_key acct b i.
  Proof.
    intros Wa Pa Na Hb Hi Cb Wb. split.
    - unfold Derive.pub_route_issue, Derive.pub_route_import.
      rewrite <- (pub_priv_commute _ _ _ _ _ _ _ _ _ _ _ _ laws acct ap b Wa Pa Na Hb).
      rewrite bind_assoc. reflexivity.
    - unfold Derive.pub_route_import, Derive.pub_of_sign_key, Derive.priv_route_sign.
      rewrite Cb. cbn [bind].
      destruct (child_priv_version acct b kb Cb) as [Pk Vk]. rewrite Pa in Pk.
      destruct (neuter_private_ok acct ap kb Pa Na Pk Vk) as (kbp & Nb). rewrite Nb. cbn [bind].
      rewrite <- (pub_priv_commute _ _ _ _ _ _ _ _ _ _ _ _ laws kb kbp i Wb Pk Nb Hi).
      rewrite bind_assoc. reflexivity.
  Qed.

  (* hence: when the signing route yields a usable key, the address issued from public material
     commits to the public key of exactly that key *)
  Theorem priv_matches_pub acct ap b i kb k :
    wf_key acct -> ek_priv acct = true -> neuter acct = Ok ap ->
    b < hardened_start -> i < hardened_start ->
    child acct b = Ok kb -> wf_key kb -> child kb i = Ok k -> wf_key k ->
    priv_route_sign acct b i = Ok k /\
    pub_route_issue ap b i = Ok (ser_P (smulG (be2z (ek_key k)))) /\
    pub_route_import acct b i = Ok (ser_P (smulG (be2z (ek_key k)))).
  Proof.
    intros Wa Pa Na Hb Hi Cb Wb Ck Wk.
    destruct (routes_agree acct ap b i kb Wa Pa Na Hb Hi Cb Wb) as [E1 E2].
    assert (S : priv_route_sign acct b i = Ok k).
    { unfold Derive.priv_route_sign. rewrite Cb. exact Ck. }
    assert (P : pub_of_sign_key acct b i = Ok (ser_P (smulG (be2z (ek_key k))))).
    { unfold Derive.pub_of_sign_key. rewrite S. cbn [bind].
      destruct (child_priv_version acct b kb Cb) as [Pk Vk]. rewrite Pa in Pk.
      destruct (child_priv_version kb i k Ck) as [Pk2 Vk2]. rewrite Pk in Pk2.
      destruct (neuter_private_ok acct ap k Pa Na Pk2) as (kp & Nk); [congruence|].
      rewrite Nk. cbn [bind]. apply (neuter_pub33 k kp Wk Pk2 Nk). }
    split; [exact S|]. split; congruence.
  Qed.

  (* ---------------------------------------------------------------- mnemonic -> seed *)
  Variable H : bytes -> bytes.
  Variable PBKDF2 : bytes -> bytes -> Z -> Z -> bytes.
  Hypothesis Hwf : Bip39.hash_wf H.

  (* restoring the mnemonic — with ANY white space between the words (the seed is computed over
     the re-joined words since /repo commit f149051) — yields the entropy and the seed of the
     created wallet *)
  Theorem restore_same e p m sd : Bip39.legal_len e -> Bip39.bytes_ok e ->
    create_seed H PBKDF2 e p = Bip39.Ok (m, sd) ->
    forall m', Bip39.fields m' = Bip39.fields m ->
      import_mnemonic_seed H PBKDF2 m' p = Bip39.Ok (e, sd).
  Proof.
    intros LL Be C m' F. unfold create_seed in C.
    destruct (Bip39Proofs.roundtrip H Hwf e LL Be) as (m0 & Nm & Em).
    rewrite Nm in C. inversion C; subst m0 sd; clear C.
    apply (Bip39Proofs.efm_accept_iff H Hwf) in Em.
    unfold import_mnemonic_seed.
    assert (E1 : Bip39.entropy_from_mnemonic H m' = Bip39.Ok e).
    { apply (Bip39Proofs.efm_accept_iff H Hwf). rewrite F. exact Em. }
    rewrite E1.
    assert (E2 : Bip39.new_seed_with_error_checking H PBKDF2 m' p = Bip39.Ok (Bip39.new_seed PBKDF2 m p)).
    { apply (Bip39Proofs.new_seed_checked_iff H Hwf). split.
      - exists e. rewrite F. exact Em.
      - rewrite Bip39Proofs.new_seed_def, F. reflexivity. }
    rewrite E2. reflexivity.
  Qed.

  (* ---------------------------------------------------------------- export / import / reload *)
  Variable kdf : bytes -> bytes -> bytes.
  Variable seal : bytes -> bytes -> bytes -> bytes.
  Variable open_box : bytes -> bytes -> option bytes.
  Hypothesis box : box_laws seal open_box.

  Theorem export_import_seed p salt cke n1 n2 e ex inn m sd :
    Unlock.ends_nul p = false ->
    create_seed H PBKDF2 e p = Bip39.Ok (m, sd) ->
    import_keystore_seed H PBKDF2 kdf open_box (persist_entropy kdf seal p salt cke n1 n2 e ex inn) p
    = Some (Bip39.Ok (e, sd)).
  Proof.
    intros Nn C. unfold import_keystore_seed, persist_entropy. cbn [j_salt j_cent_enc j_ent_enc].
    rewrite Nn, (open_seal _ _ box), (open_seal _ _ box), C. reflexivity.
  Qed.

  (* two hops: the export of an imported keystore imports, in any further instance, to the same
     entropy and seed again *)
  Theorem two_hop p salt cke n1 n2 e ex inn m sd cke' n1' n2' :
    Unlock.ends_nul p = false ->
    create_seed H PBKDF2 e p = Bip39.Ok (m, sd) ->
    exists j', reimport H PBKDF2 kdf seal open_box (persist_entropy kdf seal p salt cke n1 n2 e ex inn) p cke' n1' n2' = Some j' /\
               import_keystore_seed H PBKDF2 kdf open_box j' p = Some (Bip39.Ok (e, sd)).
  Proof.
    intros Nn C. unfold reimport.
    rewrite (export_import_seed p salt cke n1 n2 e ex inn m sd Nn C).
    eexists. split; [reflexivity|]. cbn [j_salt persist_entropy].
    apply (export_import_seed p salt cke' n1' n2' e _ _ m sd Nn C).
  Qed.

  Theorem import_wrong_pass p p' salt cke n1 n2 e ex inn :
    kdf p' salt <> kdf p salt ->
    import_keystore_seed H PBKDF2 kdf open_box (persist_entropy kdf seal p salt cke n1 n2 e ex inn) p' = None.
  Proof.
    intros N. unfold import_keystore_seed, persist_entropy. cbn [j_salt j_cent_enc j_ent_enc].
    destruct (Unlock.ends_nul p'); [reflexivity|].
    rewrite (open_other _ _ box) by congruence. reflexivity.
  Qed.

  (* a candidate ending with a zero byte is refused whatever its key (scrypt's HMAC padding would
     make it collide with the passphrase) *)
  Theorem import_nul_refused j p : Unlock.ends_nul p = true ->
    import_keystore_seed H PBKDF2 kdf open_box j p = None.
  Proof. intros N. unfold import_keystore_seed. rewrite N. reflexivity. Qed.

  Lemma import_counter j : 0 <= j_ex j -> import_ex_counter j = Z.max 1 (j_ex j).
  Proof. intros P. unfold import_ex_counter. destruct (j_ex j =? 0) eqn:E; [apply Z.eqb_eq in E|apply Z.eqb_neq in E]; lia. Qed.

  (* restart: a stored public key row gives back the script hash it was issued with *)
  Theorem reload_pub_row ck n P : is_inf P = false ->
    load_pub_row point ser_P parse_pub sha256 open_box ck (pub_row seal ck n (ser_P P)) =
    Some (script_hash_of_pub sha256 (ser_P P)).
  Proof.
    intros I. unfold load_pub_row, pub_row. rewrite (open_seal _ _ box), (parse_ser laws) by exact I.
    reflexivity.
  Qed.

  (* public-passphrase change: the crypto public key (hence every row under it) is unchanged *)
  Theorem change_pub_keeps oldp newp salt salt' n n' ck row' :
    change_pub_row kdf seal open_box oldp newp salt salt' n' (cpub_row kdf seal oldp salt n ck) = Some row' ->
    load_ckpub kdf open_box newp salt' row' = Some ck.
  Proof.
    unfold change_pub_row, load_ckpub, cpub_row. rewrite (open_seal _ _ box).
    intros E. inversion E. apply (open_seal _ _ box).
  Qed.
End Proofs.
