(* Keys/Toy.v — a perfect-cryptography instance of the primitives of Keys/Unlock.v and Keys/Sign.v:
   key derivation, hashing and sealing are injective tagging functions on byte lists.
   Used (1) to show that the hypotheses of the property theorems are satisfiable
   ([toy_unlock_laws], [toy_sign_laws]) and (2) as the executable instance the correspondence
   drivers run (ocaml/C03, ocaml/C05): the outcomes of the unlock machine and of SignRawTx depend
   on the primitives only through equalities that the laws decide. *)
From Coq Require Import List ZArith Bool Lia.
Import ListNotations.
Require Import MW.Codec.Bip32 MW.Codec.Bip32Proofs MW.Keys.Unlock MW.Keys.UnlockProofs MW.Keys.Sign MW.Keys.SignProofs.
Open Scope Z_scope.

Module Toy.
  Definition zlen (l : bytes) : Z := Z.of_nat (length l).
  Definition kdf (p s : bytes) : bytes := 1 :: zlen p :: p ++ s.
  Definition digest (k : bytes) : bytes := 2 :: k.
  Definition shash (x : bytes) : bytes := 3 :: x.
  Definition seal (k n m : bytes) : bytes := 4 :: zlen k :: k ++ m.
  Definition open_box (k blob : bytes) : option bytes :=
    match blob with
    | 4 :: n :: rest =>
        if (n =? zlen k) && bytes_eqb (firstn (length k) rest) k then Some (skipn (length k) rest) else None
    | _ => None
    end.
  Definition sk := Z.
  Definition pk := Z.
  Definition branch_ok (acct : bytes) : bool := true.
  Definition derive_sk (acct : bytes) (b i : Z) : option sk := Some (b * 4294967296 + i).
  Definition sk_of (a : addr) : sk := fst a * 4294967296 + snd a.
  Definition sign (k : sk) (h : bytes) : bytes := k :: h.
  Definition pub_of (k : sk) : pk := k.
  Definition pub_at (a : addr) : pk := sk_of a.
  Definition verify (p : pk) (m s : bytes) : bool := bytes_eqb s (p :: m).
  Definition sha256 (x : bytes) : bytes := 5 :: x.
  Definition redeem (p : pk) : bytes := [81; 33; p; 81; 174].
  Definition pk_of_redeem (r : bytes) : option pk :=
    match r with [81; 33; p; 81; 174] => Some p | _ => None end.
  (* 32 bytes determined by the flag, the input index, the amount, the script code and the
     witness-stripped transaction *)
  Definition sighash (f : flag) (t : tx) (i : nat) (v : Z) (red : bytes) : bytes :=
    let ins := flat_map (fun x => [fst (in_prev x); snd (in_prev x); in_seq x]) (t_ins t) in
    firstn 32 ([flag_byte f; Z.of_nat i; v] ++ red ++ ins ++ concat (t_outs t) ++ t_rest t ++ repeat 0 32).

  (* the rows of a keystore for (right passphrase, entropy, account key string) *)
  Definition salt : bytes := [7].
  Definition run_salt : bytes := 8 :: repeat 8 31.
  Definition ckpriv : bytes := 9 :: repeat 9 31.
  Definition ckent : bytes := 10 :: repeat 10 31.
  Definition cfg (right ent acct : bytes) (known : list addr) : amcfg :=
    mkCfg salt (digest (kdf right salt)) run_salt
          (seal (kdf right salt) [] ckpriv) (seal (kdf right salt) [] ckent)
          (seal ckpriv [] acct) (seal ckent [] ent) 0 known.

  Lemma bytes_eqb_true a : bytes_eqb a a = true.
  Proof. apply bytes_eqb_refl. Qed.

  Lemma open_seal k n m : open_box k (seal k n m) = Some m.
  Proof.
    unfold open_box, seal. rewrite Z.eqb_refl.
    rewrite firstn_app_exact by reflexivity. rewrite bytes_eqb_true. cbn [andb].
    rewrite skipn_app_exact by reflexivity. reflexivity.
  Qed.

  Lemma open_other k k' n m : k <> k' -> open_box k' (seal k n m) = None.
  Proof.
    intros N. unfold open_box, seal.
    destruct (zlen k =? zlen k') eqn:E; [|reflexivity]. cbn [andb].
    apply Z.eqb_eq in E. unfold zlen in E. apply Nat2Z.inj in E.
    rewrite <- E, firstn_app_exact by reflexivity.
    destruct (bytes_eqb k k') eqn:B; [|reflexivity]. apply bytes_eqb_eq in B. contradiction.
  Qed.

  Lemma kdf_inj p q s : kdf p s = kdf q s -> p = q.
  Proof.
    unfold kdf. intros E. inversion E as [[L A]]. clear E. unfold zlen in L. apply Nat2Z.inj in L.
    revert q L A. induction p as [|x p IH]; intros [|y q] L A; cbn in *; try discriminate; auto.
    inversion A. f_equal. apply IH; auto.
  Qed.

  Lemma kdf_nonzero p s : kdf p s <> zero32.
  Proof. unfold kdf, zero32. cbn. discriminate. Qed.

  Lemma ckpriv_nonzero : ckpriv <> zero32.
  Proof. unfold ckpriv, zero32. cbn. discriminate. Qed.

  Section Laws.
    Variable right ent acct : bytes.
    Variable known : list addr.
    Hypothesis right_ok : ends_nul right = false.
    Local Notation c := (cfg right ent acct known).

    Lemma toy_unlock_laws : unlock_laws kdf digest shash open_box sk branch_ok derive_sk c right acct ent sk_of.
    Proof.
      constructor.
      - reflexivity.
      - intros p _ E. unfold good, digest in E. cbn [c_salt cfg] in E.
        apply (kdf_inj p right salt). apply (f_equal (@tl Z)) in E. exact E.
      - exact right_ok.
      - intros p q E. unfold shash in E. inversion E as [E']. reflexivity.
      - apply kdf_nonzero.
      - exists ckpriv. unfold good. cbn [c_salt c_cpriv_enc c_acct_enc cfg]. split; apply open_seal.
      - exists ckent. unfold good. cbn [c_salt c_cent_enc c_ent_enc cfg]. split; apply open_seal.
      - cbn [c_cpriv_enc cfg]. apply open_other. apply kdf_nonzero.
      - cbn [c_cent_enc cfg]. apply open_other. apply kdf_nonzero.
      - reflexivity.
      - intros a _. reflexivity.
      - reflexivity.
    Qed.

    (* the environment of SignRawTx: any function whose outputs attributed to an address of the
       keystore carry that address's program *)
    Variable env : outpoint -> look.
    Hypothesis env_ok : forall op u a, env op = LOut u -> u_addr u = Some a ->
      Unlock.known c a = true /\ u_prog u = sha256 (redeem (pub_at a)).

    Lemma sighash_len f t i v r : length (sighash f t i v r) = 32%nat.
    Proof.
      unfold sighash. rewrite firstn_length_le; [reflexivity|].
      rewrite !app_length, repeat_length. cbn [length]. lia.
    Qed.

    Lemma sighash_strip f t i v r : sighash f t i v r = sighash f (strip_witness t) i v r.
    Proof.
      unfold sighash, strip_witness. cbn [t_ins t_outs t_rest]. do 4 f_equal.
      induction (t_ins t) as [|x l IH]; [reflexivity|]. cbn. rewrite IH. reflexivity.
    Qed.

    Lemma toy_sign_laws :
      sign_laws sk sign c sk_of pk verify pub_of sighash sha256 redeem pk_of_redeem pub_at env
                (engine_template pk verify sighash sha256 pk_of_redeem).
    Proof.
      constructor.
      - intros k m. unfold verify, pub_of, sign. apply bytes_eqb_true.
      - intros a _. reflexivity.
      - apply sighash_strip.
      - apply sighash_len.
      - intros k. reflexivity.
      - intros. reflexivity.
      - apply env_ok.
    Qed.
  End Laws.
End Toy.
