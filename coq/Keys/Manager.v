(* Keys/Manager.v — the keystore.KeystoreManager: several AddrManagers (the machine of
   Keys/Unlock.v, one per managed keystore) and the selection ("the keystore in use").
   masswallet/keystore/manager.go: UseKeystoreForWallet, SignHash, getAddrManager, ClearPrivKey,
   ExportKeystore, GetMnemonic, CheckPrivPassphrase, CurrentKeystore;
   masswallet/wallet.go: UseWallet, SignRawTx, ExportWallet, GetMnemonic, RemoveWallet;
   masswallet/tx.go: SignHash (bare, never clears), signWitnessTx (script closure, sign closure,
   "defer w.ksmgr.ClearPrivKey()").
   Definitions only; proofs are in ManagerProofs.v, property theorems in Properties/C05.v.

   State: the managed keystores (km.managedKeystores, a Go map: here an association list in
   some order; ids are the map's keys) each with what loadAddrManager fixed ([amcfg]) and its
   mutable unlock state ([amstate]), plus km.currentKeystore.

   Addresses: an encoded address is an opaque number; [name_of id a] is the encoded address
   of derivation path [a] of keystore [id] (hash of the derived public key: a function of the
   keystore's key and the path). The addrs map of a keystore is { name_of id a | a known }.
   KeystoreManager.SignHash turns the public key into the encoded address and asks
   getAddrManager, which walks ALL managed keystores (Go map order) and takes the first that has
   the address in its addrs map — the selection plays no part. Here: the first in list order;
   when the names of different keystores are disjoint (different keys) at most one keystore
   has the address and the order is irrelevant.

   The selection can change between any two keystore calls of one SignRawTx: SignRawTx does
   not hold the wallet manager's lock, UseWallet (another request) can run whenever the signing
   goroutine is not inside a keystore call. [WSignRaw] therefore carries, per input, the list of
   UseKeystoreForWallet calls that happen before that input is looked up and the list of those
   that happen between the lookup and the script closure, and the list of those that happen after
   the last input before the deferred ClearPrivKey runs.
   Of the ledger only this is modelled: every input spends an existing unspent output paying the
   encoded address given with it, and that output is among the unspent outputs of exactly the
   wallets whose keystore has the address (the other outcomes of the lookup are the subject of
   Keys/Sign.v, C03). *)
From Coq Require Import List ZArith Bool.
Import ListNotations.
Require Import MW.Codec.Bip32 MW.Keys.Unlock.
Open Scope Z_scope.

Definition kid := Z.      (* account id (wallet id) of a keystore *)
Definition aname := Z.    (* an encoded address *)

(* refusals of the WalletManager layer that are not keystore errors *)
Inductive merr :=
| MNoWalletInUse          (* masswallet.ErrNoWalletInUse: SignRawTx with nothing selected *)
| MUtxoNotExists          (* masswallet.ErrUTXONotExists: TxStore.ExistsUtxo looks the spent output up among
                             the unspent outputs of the wallet in use AT THAT MOMENT (nothing in use:
                             ErrNotFound); an unspent output of another wallet is not found there *)
| MNotMine.               (* keystore.ErrUnexpectedPubKeyToSign: the script closure does not find the
                             address in the keystore in use (or nothing is in use any more) *)

Section Manager.
  Variable kdf : bytes -> bytes -> bytes.
  Variable digest : bytes -> bytes.
  Variable shash : bytes -> bytes.
  Variable open_box : bytes -> bytes -> option bytes.
  Variable sk : Type.
  Variable sig : Type.
  Variable branch_ok : bytes -> bool.
  Variable derive_sk : bytes -> Z -> Z -> option sk.
  Variable sign : sk -> bytes -> sig.
  Variable zfix : bool.
  Variable sfix : bool.
  Variable nfix : bool.
  (* [cfix] = true: the code as it is — ClearPrivKey walks all managed keystores.
     false: the variant "ClearPrivKey clears only the keystore in use (all of them when nothing is
     in use)" (seeded regression, see [clear_all]). *)
  Variable cfix : bool.
  Variable name_of : kid -> addr -> aname.

  Record entry := mkEnt {
    e_id : kid;                 (* key of km.managedKeystores *)
    e_cfg : amcfg;              (* what loadAddrManager fixed *)
    e_st : amstate sk }.        (* the AddrManager's unlock state *)

  Record mstate := mkM {
    m_ks : list entry;          (* km.managedKeystores *)
    m_cur : option kid }.       (* km.currentKeystore (its accountName) *)

  Definition set_st (e : entry) (st : amstate sk) : entry := mkEnt (e_id e) (e_cfg e) st.

  (* freshly loaded keystores, nothing in use (NewKeystoreManager) *)
  Definition fresh (l : list (kid * amcfg)) : mstate :=
    mkM (map (fun ic => mkEnt (fst ic) (snd ic) (init_state (snd ic))) l) None.

  Definition has_id (id : kid) (e : entry) : bool := e_id e =? id.

  (* the derivation path of encoded address n in keystore e (a.addrs[n]) *)
  Definition path_of (n : aname) (e : entry) : option addr :=
    find (fun a => name_of (e_id e) a =? n) (c_known (e_cfg e)).
  Definition has_addr (n : aname) (e : entry) : bool :=
    match path_of n e with Some _ => true | None => false end.

  (* the step of the single-keystore machine on keystore e: outcome and new unlock state *)
  Definition lift (o : entry -> op) (e : entry) : out sig * amstate sk :=
    let r := step kdf digest shash open_box sk sig branch_ok derive_sk sign zfix sfix nfix (e_cfg e) (e_st e) (o e) in
    (fst (fst r), snd (fst r)).

  (* apply f to the FIRST keystore that sel accepts *)
  Fixpoint on_first (sel : entry -> bool) (f : entry -> out sig * amstate sk) (l : list entry)
    : option (out sig * list entry) :=
    match l with
    | [] => None
    | e :: r =>
        if sel e then Some (fst (f e), set_st e (snd (f e)) :: r)
        else match on_first sel f r with
             | Some (x, r') => Some (x, e :: r')
             | None => None
             end
    end.

  (* KeystoreManager calls *)
  Inductive mop :=
  | MUse (id : kid)                               (* UseKeystoreForWallet *)
  | MSign (p : bytes) (n : aname) (h : bytes)     (* SignHash(public key of address n, h, p) *)
  | MClear                                        (* ClearPrivKey *)
  | MExport (id : kid) (p : bytes)                (* ExportKeystore *)
  | MMnemonic (id : kid) (p : bytes)              (* GetMnemonic *)
  | MCheck (id : kid) (p : bytes).                (* CheckPrivPassphrase (RemoveWallet's gate) *)

  Inductive mout :=
  | MRes (o : out sig)            (* outcome of a keystore call (OutErr e = refused with e) *)
  | MSigs (l : list sig)          (* SignRawTx: the signatures, one per input *)
  | MRefused (e : merr).

  Definition clear_entry (e : entry) : entry := set_st e (clear_priv_keys sk (e_st e)).

  (* ClearPrivKey *)
  Definition clear_all (m : mstate) : mstate :=
    if cfix then mkM (map clear_entry (m_ks m)) (m_cur m)
    else
      match m_cur m with
      | Some id =>
          if existsb (has_id id) (m_ks m)
          then mkM (map (fun e => if has_id id e then clear_entry e else e) (m_ks m)) (m_cur m)
          else mkM (map clear_entry (m_ks m)) (m_cur m)
      | None => mkM (map clear_entry (m_ks m)) (m_cur m)
      end.

  (* a call that names the keystore (by id or through an address) *)
  Definition on_keystore (sel : entry -> bool) (o : entry -> op) (m : mstate) : mout * mstate :=
    match on_first sel (lift o) (m_ks m) with
    | Some (x, ks') => (MRes x, mkM ks' (m_cur m))
    | None => (MRes (OutErr EAccountNotFound), m)
    end.

  Definition mstep (m : mstate) (o : mop) : mout * mstate :=
    match o with
    | MUse id =>
        if existsb (has_id id) (m_ks m) then (MRes OutUnit, mkM (m_ks m) (Some id))
        else (MRes (OutErr EAccountNotFound), m)
    | MSign p n h =>
        on_keystore (has_addr n)
                    (fun e => OSign p (match path_of n e with Some a => a | None => (0, 0) end) h) m
    | MClear => (MRes OutUnit, clear_all m)
    | MExport id p => on_keystore (has_id id) (fun _ => OExport p) m
    | MMnemonic id p => on_keystore (has_id id) (fun _ => OMnemonic p) m
    | MCheck id p => on_keystore (has_id id) (fun _ => OCheck p) m
    end.

  (* CurrentKeystore() *)
  Definition current (m : mstate) : option entry :=
    match m_cur m with
    | Some id => find (has_id id) (m_ks m)
    | None => None
    end.

  (* UseWallet requests of other callers, in order *)
  Fixpoint use_all (ids : list kid) (m : mstate) : mstate :=
    match ids with
    | [] => m
    | id :: r => use_all r (snd (mstep m (MUse id)))
    end.

  (* the loop of signWitnessTx over the inputs: (selection changes before the lookup of this
     input, selection changes between the lookup and the script closure, encoded address of the spent
     output, signature hash). Per input: existsOutPoint finds the output among the unspent outputs
     of the wallet in use at that moment; the script closure looks the address up in the keystore in
     use at that moment; then the sign closure calls KeystoreManager.SignHash, which resolves the
     keystore over all managed keystores. Stops at the first error. *)
  Definition sinput := (list kid * list kid * aname * bytes)%type.
  Fixpoint sign_inputs (m : mstate) (p : bytes) (ins : list sinput) : mout * mstate :=
    match ins with
    | [] => (MSigs [], m)
    | (sw1, sw2, n, h) :: r =>
        let m0 := use_all sw1 m in
        match current m0 with
        | None => (MRefused MUtxoNotExists, m0)
        | Some c =>
            if negb (has_addr n c) then (MRefused MUtxoNotExists, m0)
            else
              let m1 := use_all sw2 m0 in
              match current m1 with
              | None => (MRefused MNotMine, m1)
              | Some c' =>
                  if negb (has_addr n c') then (MRefused MNotMine, m1)
                  else
                    match mstep m1 (MSign p n h) with
                    | (MRes (OutSig s), m2) =>
                        match sign_inputs m2 p r with
                        | (MSigs l, m3) => (MSigs (s :: l), m3)
                        | (x, m3) => (x, m3)
                        end
                    | (x, m2) => (x, m2)
                    end
              end
        end
    end.

  (* WalletManager.SignRawTx: refused outright when nothing is in use (signWitnessTx is not
     reached, nothing is cleared); otherwise the loop, then — on every return path — the deferred
     ClearPrivKey, before which the selection may have changed once more ([last]). *)
  Definition sign_raw (m : mstate) (p : bytes) (ins : list sinput) (last : list kid)
    : mout * mstate :=
    match current m with
    | None => (MRefused MNoWalletInUse, m)
    | Some _ =>
        let r := sign_inputs m p ins in
        (fst r, clear_all (use_all last (snd r)))
    end.

  (* what a caller can do: any KeystoreManager call (UseWallet = MUse, WalletManager.SignHash =
     MSign, ExportWallet = MExport, GetMnemonic = MMnemonic, RemoveWallet's gate = MCheck; MClear
     has no WalletManager counterpart of its own), or SignRawTx *)
  Inductive wop :=
  | WOp (o : mop)
  | WSignRaw (p : bytes) (ins : list sinput) (last : list kid).

  Definition wstep (m : mstate) (o : wop) : mout * mstate :=
    match o with
    | WOp o => mstep m o
    | WSignRaw p ins last => sign_raw m p ins last
    end.

  Fixpoint wrun (m : mstate) (ops : list wop) : mstate :=
    match ops with [] => m | o :: r => wrun (snd (wstep m o)) r end.

  (* every state a manager can be in *)
  Definition mreachable (l : list (kid * amcfg)) (m : mstate) : Prop := exists ops, wrun (fresh l) ops = m.

  (* the WalletManager's own calls without the bare SignHash entry point (which leaves the signing
     keystore unlocked until the next SignRawTx ends, see Unlock.v) *)
  Definition wallet_call (o : wop) : bool :=
    match o with
    | WOp (MSign _ _ _) | WOp MClear => false
    | _ => true
    end.

  (* which keystores a KeystoreManager call may touch *)
  Definition touches (o : mop) (e : entry) : bool :=
    match o with
    | MUse _ => false
    | MSign _ n _ => has_addr n e
    | MClear => true
    | MExport id _ | MMnemonic id _ | MCheck id _ => has_id id e
    end.

  (* locked, nothing derived or cached; masterKeyPriv.Key may hold the scratch value a check left *)
  Definition locked (st : amstate sk) : Prop :=
    s_unlocked st = false /\ s_hashed st = zero64 /\ s_branch st = None /\ s_cached st = [].
  (* ... and the master key zeroed as well: the state clearPrivKeys leaves *)
  Definition wiped (st : amstate sk) : Prop := locked st /\ s_mk st = zero32.

  Definition is_refusal (x : mout) : bool :=
    match x with MRes (OutErr _) => true | MRefused _ => true | _ => false end.

  (* observables: the selection and the unlock state of EVERY managed keystore *)
  Definition obs_manager (m : mstate) :=
    (m_cur m, map (fun e => (e_id e, (obs_state (e_st e), salt_zero (e_st e)))) (m_ks m)).
End Manager.

Arguments mkEnt {sk}.
Arguments e_id {sk}.
Arguments e_cfg {sk}.
Arguments e_st {sk}.
Arguments mkM {sk}.
Arguments m_ks {sk}.
Arguments m_cur {sk}.
Arguments fresh {sk}.
Arguments has_id {sk}.
Arguments current {sk}.
Arguments locked {sk}.
Arguments wiped {sk}.
Arguments obs_manager {sk}.
Arguments MRes {sig}.
Arguments MSigs {sig}.
Arguments MRefused {sig}.
Arguments is_refusal {sig}.
