(* Keys/SignProofs.v — proofs about the model of SignRawTx (Keys/Sign.v). *)
From Coq Require Import List ZArith Bool Lia PeanoNat.
Import ListNotations.
Require Import MW.Codec.Bip32 MW.Codec.Bip32Proofs MW.Keys.Unlock MW.Keys.UnlockProofs MW.Keys.Sign.
Open Scope Z_scope.

(* ------------------------------------------------------------------ lists and transactions *)
Lemma set_nth_length {A} n (x : A) l : length (set_nth n x l) = length l.
Proof. revert n; induction l as [|y r IH]; intros [|n]; cbn; auto. Qed.

Lemma nth_error_set_nth_eq {A} n (x : A) l : (n < length l)%nat -> nth_error (set_nth n x l) n = Some x.
Proof. revert n; induction l as [|y r IH]; intros [|n] H; cbn in *; try lia; auto. apply IH. lia. Qed.

Lemma nth_error_set_nth_neq {A} n m (x : A) l : n <> m -> nth_error (set_nth n x l) m = nth_error l m.
Proof.
  revert n m; induction l as [|y r IH]; intros [|n] [|m] H; cbn; auto; try congruence.
Qed.

Lemma map_set_nth {A B} (g : A -> B) n x l : map g (set_nth n x l) = set_nth n (g x) (map g l).
Proof. revert n; induction l as [|y r IH]; intros [|n]; cbn; auto. rewrite IH. reflexivity. Qed.

Lemma set_nth_same {A} n (x : A) l : nth_error l n = Some x -> set_nth n x l = l.
Proof.
  revert n; induction l as [|y r IH]; intros [|n] H; cbn in *; try discriminate; auto.
  - inversion H. reflexivity.
  - rewrite IH; auto.
Qed.

Lemma strip_set_wit t i w : strip_witness (set_wit t i w) = strip_witness t.
Proof.
  unfold set_wit. destruct (nth_error (t_ins t) i) as [inp|] eqn:E; [|reflexivity].
  unfold strip_witness. cbn [t_ins t_outs t_rest]. f_equal.
  rewrite map_set_nth. apply set_nth_same. rewrite nth_error_map, E. reflexivity.
Qed.

Lemma ins_length_set_wit t i w : length (t_ins (set_wit t i w)) = length (t_ins t).
Proof.
  unfold set_wit. destruct (nth_error (t_ins t) i); [|reflexivity]. cbn. apply set_nth_length.
Qed.

Lemma outs_set_wit t i w : t_outs (set_wit t i w) = t_outs t.
Proof. unfold set_wit. destruct (nth_error (t_ins t) i); reflexivity. Qed.

Lemma nth_set_wit_eq t i w inp : nth_error (t_ins t) i = Some inp ->
  nth_error (t_ins (set_wit t i w)) i = Some (mkIn (in_prev inp) (in_seq inp) w).
Proof.
  intros E. unfold set_wit. rewrite E. cbn. apply nth_error_set_nth_eq.
  apply nth_error_Some. congruence.
Qed.

Lemma nth_set_wit_neq t i j w : i <> j -> nth_error (t_ins (set_wit t i w)) j = nth_error (t_ins t) j.
Proof.
  intros N. unfold set_wit. destruct (nth_error (t_ins t) i); [|reflexivity]. cbn.
  apply nth_error_set_nth_neq. exact N.
Qed.

Lemma nth_error_map' {A B} (g : A -> B) l j : nth_error (map g l) j = option_map g (nth_error l j).
Proof. revert j; induction l as [|y r IH]; intros [|j]; cbn; auto. Qed.

Lemma strip_nth t1 t2 j : strip_witness t1 = strip_witness t2 ->
  option_map strip_in (nth_error (t_ins t1) j) = option_map strip_in (nth_error (t_ins t2) j).
Proof.
  intros E. assert (H : map strip_in (t_ins t1) = map strip_in (t_ins t2)) by (inversion E; auto).
  rewrite <- !nth_error_map'. congruence.
Qed.

Lemma strip_nth_some t1 t2 j inp : strip_witness t1 = strip_witness t2 ->
  nth_error (t_ins t1) j = Some inp ->
  exists inp', nth_error (t_ins t2) j = Some inp' /\ in_prev inp' = in_prev inp /\ in_seq inp' = in_seq inp.
Proof.
  intros E H. pose proof (strip_nth t1 t2 j E) as S. rewrite H in S. cbn in S.
  destruct (nth_error (t_ins t2) j) as [inp'|]; [|discriminate]. cbn in S.
  inversion S. exists inp'. auto.
Qed.

Lemma strip_len t1 t2 : strip_witness t1 = strip_witness t2 -> length (t_ins t1) = length (t_ins t2).
Proof.
  intros E. assert (H : map strip_in (t_ins t1) = map strip_in (t_ins t2)) by (inversion E; auto).
  rewrite <- (map_length strip_in (t_ins t1)), H, map_length. reflexivity.
Qed.

Lemma strip_outs t1 t2 : strip_witness t1 = strip_witness t2 -> t_outs t1 = t_outs t2.
Proof. intros E. inversion E. auto. Qed.

Lemma split_last_app l x : split_last (l ++ [x]) = Some (l, x).
Proof.
  induction l as [|y r IH]; [reflexivity|]. cbn [app split_last]. rewrite IH.
  destruct (r ++ [x]) eqn:E; [destruct r; discriminate|reflexivity].
Qed.

Lemma flag_byte_inv f : flag_of_byte (flag_byte f) = Some f.
Proof. destruct f; reflexivity. Qed.

(* the accepted flag strings are exactly the six of the list *)
Lemma parse_flag_iff fs :
  parse_flag fs <> None <->
  In fs [s_all; s_none; s_single; s_all ++ s_any; s_none ++ s_any; s_single ++ s_any].
Proof.
  unfold parse_flag. split.
  - intros H.
    destruct (bytes_eqb fs s_all) eqn:E1; [apply bytes_eqb_eq in E1; subst; cbn; tauto|].
    destruct (bytes_eqb fs s_none) eqn:E2; [apply bytes_eqb_eq in E2; subst; cbn; tauto|].
    destruct (bytes_eqb fs s_single) eqn:E3; [apply bytes_eqb_eq in E3; subst; cbn; tauto|].
    destruct (bytes_eqb fs (s_all ++ s_any)) eqn:E4; [apply bytes_eqb_eq in E4; subst; cbn; tauto|].
    destruct (bytes_eqb fs (s_none ++ s_any)) eqn:E5; [apply bytes_eqb_eq in E5; subst; cbn; tauto|].
    destruct (bytes_eqb fs (s_single ++ s_any)) eqn:E6; [apply bytes_eqb_eq in E6; subst; cbn; tauto|].
    congruence.
  - intros [<-|[<-|[<-|[<-|[<-|[<-|[]]]]]]]; vm_compute; discriminate.
Qed.

Section Proofs.
  Variable kdf : bytes -> bytes -> bytes.
  Variable digest : bytes -> bytes.
  Variable shash : bytes -> bytes.
  Variable open_box : bytes -> bytes -> option bytes.
  Variable sk : Type.
  Variable branch_ok : bytes -> bool.
  Variable derive_sk : bytes -> Z -> Z -> option sk.
  Variable sign : sk -> bytes -> bytes.
  Variable zfix : bool.
  Variable sfix : bool.
  Variable nfix : bool.
  Variable cfg : amcfg.
  Variable right : bytes.
  Variable acct : bytes.
  Variable ent : bytes.
  Variable sk_of : addr -> sk.
  Hypothesis ulaws : unlock_laws kdf digest shash open_box sk branch_ok derive_sk cfg right acct ent sk_of.

  Variable pk : Type.
  Variable verify : pk -> bytes -> bytes -> bool.
  Variable pub_of : sk -> pk.
  Variable sighash : flag -> tx -> nat -> Z -> bytes -> bytes.
  Variable sha256 : bytes -> bytes.
  Variable redeem : pk -> bytes.
  Variable pk_of_redeem : bytes -> option pk.
  Variable pub_at : addr -> pk.
  Variable warmup : Z.
  Variable env : outpoint -> look.
  Variable pfix : bool.
  Variable pending_height : Z.
  Variable engine : uinfo -> tx -> nat -> bool -> bool.

  (* What is assumed:
     ECDSA correctness; the public key stored with an address is the public key of the private key
     the wallet derives for it (this is C04_priv_matches_pub, proved in Keys/DeriveProofs.v from the
     group homomorphism); the signature hash ignores witness fields and is 32 bytes long; the
     redeem script determines its key; the engine follows the witness template; an output the
     wallet attributes to its address a carries the program sha256(redeem(pub a)). *)
  Record sign_laws : Prop := {
    ecdsa_correct : forall k m, verify (pub_of k) m (sign k m) = true;
    key_match : forall a, known cfg a = true -> pub_at a = pub_of (sk_of a);
    sighash_strip : forall f t i v r, sighash f t i v r = sighash f (strip_witness t) i v r;
    sighash_len : forall f t i v r, length (sighash f t i v r) = 32%nat;
    redeem_pk : forall k, pk_of_redeem (redeem k) = Some k;
    engine_law : forall u t i ip2,
      engine u t i ip2 = engine_template pk verify sighash sha256 pk_of_redeem u t i ip2;
    env_addr : forall op u a, env op = LOut u -> u_addr u = Some a ->
      known cfg a = true /\ u_prog u = sha256 (redeem (pub_at a)) }.
  Hypothesis laws : sign_laws.

  Local Notation amstate := (amstate sk).
  Local Notation Inv := (Inv kdf shash sk zfix cfg right acct sk_of).
  Local Notation eff_height := (eff_height pfix pending_height).
  Local Notation step := (step kdf digest shash open_box sk bytes branch_ok derive_sk sign zfix sfix nfix cfg).
  Local Notation reachable := (reachable kdf digest shash open_box sk bytes branch_ok derive_sk sign zfix sfix nfix cfg).
  Local Notation sign_input :=
    (sign_input kdf digest shash open_box sk branch_ok derive_sk sign zfix sfix nfix cfg pk sighash redeem pub_at warmup env pfix pending_height engine).
  Local Notation sign_loop :=
    (sign_loop kdf digest shash open_box sk branch_ok derive_sk sign zfix sfix nfix cfg pk sighash redeem pub_at warmup env pfix pending_height engine).
  Local Notation sign_raw :=
    (sign_raw kdf digest shash open_box sk branch_ok derive_sk sign zfix sfix nfix cfg pk sighash redeem pub_at warmup env pfix pending_height engine).
  Local Notation template := (engine_template pk verify sighash sha256 pk_of_redeem).
  Local Notation ip2_of := (ip2_of warmup).

  (* ---------------------------------------------------------------- the template and witnesses *)
  Lemma template_strip u t1 t2 j ip2 :
    strip_witness t1 = strip_witness t2 -> nth_error (t_ins t1) j = nth_error (t_ins t2) j ->
    template u t1 j ip2 = template u t2 j ip2.
  Proof.
    intros E N. unfold engine_template. rewrite N.
    destruct (nth_error (t_ins t2) j) as [inp|]; [|reflexivity].
    destruct (in_wit inp) as [|s [|red [|x l]]]; try reflexivity.
    destruct (split_last s) as [[sg fb]|]; [|reflexivity].
    destruct (pk_of_redeem red) as [k|]; [|reflexivity].
    destruct (flag_of_byte fb) as [f|]; [|reflexivity].
    rewrite (sighash_strip laws f t1), (sighash_strip laws f t2), E. reflexivity.
  Qed.

  Lemma template_empty u t j ip2 inp :
    nth_error (t_ins t) j = Some inp -> in_wit inp = [] -> template u t j ip2 = false.
  Proof. intros N W. unfold engine_template. rewrite N, W. reflexivity. Qed.

  (* strip_witness of the caller's transaction never changes *)
  Lemma sign_input_strip st p f t i r st' t' :
    sign_input st p f t i = (r, st', t') -> strip_witness t' = strip_witness t.
  Proof.
    unfold Sign.sign_input. destruct (nth_error (t_ins t) i) as [inp|]; [|intros H; inversion H; auto].
    destruct (env (in_prev inp)) as [| |u]; try (intros H; inversion H; auto; fail).
    destruct (u_spent u); [intros H; inversion H; auto|].
    destruct (negb (is_single f) || (i <? length (t_outs t))%nat).
    - destruct (u_addr u) as [a|]; [|intros H; inversion H; auto].
      destruct (step st _) as [[o st1] uu].
      destruct o; try (intros H; inversion H; auto; fail).
      destruct (eff_height u) as [h|].
      + destruct (engine u _ i (ip2_of h)); intros H; inversion H; subst; apply strip_set_wit.
      + intros H; inversion H; subst; apply strip_set_wit.
    - destruct (eff_height u) as [h|]; [|intros H; inversion H; auto].
      destruct (engine u t i (ip2_of h)); intros H; inversion H; auto.
  Qed.

  Lemma sign_loop_strip idxs : forall st p f t r st' t',
    sign_loop idxs st p f t = (r, st', t') -> strip_witness t' = strip_witness t.
  Proof.
    induction idxs as [|i rest IH]; intros st p f t r st' t' H; cbn in H; [inversion H; auto|].
    destruct (sign_input st p f t i) as [[r1 st1] t1] eqn:E.
    apply sign_input_strip in E.
    destruct r1; try (inversion H; subst; exact E).
    apply IH in H. congruence.
  Qed.

  Theorem sign_raw_strip st p fs t r st' t' ret :
    sign_raw st p fs t = (r, st', t', ret) -> strip_witness t' = strip_witness t.
  Proof.
    unfold Sign.sign_raw. destruct (parse_flag fs) as [f|]; [|intros H; inversion H; auto].
    destruct (sign_loop _ st p f t) as [[r1 st1] t1] eqn:E. apply sign_loop_strip in E.
    destruct r1; intros H; inversion H; subst; exact E.
  Qed.

  (* nothing is returned unless signing succeeded; what is returned is the signed object *)
  Theorem sign_raw_returns st p fs t r st' t' ret :
    sign_raw st p fs t = (r, st', t', ret) -> (r = SOk -> ret = Some t') /\ (r <> SOk -> ret = None).
  Proof.
    unfold Sign.sign_raw. destruct (parse_flag fs) as [f|].
    - destruct (sign_loop _ st p f t) as [[r1 st1] t1].
      destruct r1; intros H; inversion H; subst; split; intros; congruence.
    - intros H; inversion H; subst. split; intros; congruence.
  Qed.

  (* from here on: the code with the salted buffer freshly allocated (see Keys/Unlock.v) *)
  Hypothesis Sfix : sfix = true.
  Hypothesis Nfix : nfix = true.

  (* ---------------------------------------------------------------- right passphrase *)
  (* the inputs are unspent outputs of the selected wallet, confirmed, and the withdrawal
     transaction carries the sequence the output class asks for *)
  Definition owned (t : tx) : Prop :=
    forall i inp, nth_error (t_ins t) i = Some inp ->
      exists u a h, env (in_prev inp) = LOut u /\ u_spent u = false /\ u_addr u = Some a /\
                    eff_height u = Some h /\ seq_ok (u_class u) (ip2_of h) (in_seq inp) = true.
  Definition single_guard (f : flag) (t : tx) : Prop :=
    is_single f = true -> (length (t_ins t) <= length (t_outs t))%nat.

  Definition verified (t : tx) (j : nat) : Prop :=
    exists inp u h, nth_error (t_ins t) j = Some inp /\ env (in_prev inp) = LOut u /\
                    eff_height u = Some h /\ engine u t j (ip2_of h) = true.

  Lemma owned_strip t1 t2 : strip_witness t1 = strip_witness t2 -> owned t1 -> owned t2.
  Proof.
    intros E O i inp N. symmetry in E.
    destruct (strip_nth_some t2 t1 i inp E N) as (inp1 & N1 & P & S).
    destruct (O i inp1 N1) as (u & a & h & H). rewrite P, S in H. eauto.
  Qed.

  Lemma sign_input_right st f t i inp : Inv st -> owned t -> nth_error (t_ins t) i = Some inp ->
    (is_single f = true -> (i < length (t_outs t))%nat) ->
    exists st' t', sign_input st right f t i = (SOk, st', t') /\ Inv st' /\
      strip_witness t' = strip_witness t /\ verified t' i /\
      (forall j, j <> i -> nth_error (t_ins t') j = nth_error (t_ins t) j).
  Proof.
    intros I O N G. destruct (O i inp N) as (u & a & h & E & Sp & A & Hh & Sq).
    destruct (env_addr laws _ u a E A) as [K P].
    unfold Sign.sign_input. rewrite N, E, Sp, A.
    assert (C : negb (is_single f) || (i <? length (t_outs t))%nat = true).
    { destruct (is_single f) eqn:S; [|reflexivity]. cbn. apply Nat.ltb_lt. auto. }
    rewrite C.
    set (red := redeem (pub_at a)). set (m := sighash f t i (u_value u) red).
    destruct (sign_right kdf digest shash open_box sk bytes branch_ok derive_sk sign zfix sfix nfix cfg right acct ent sk_of ulaws Sfix
                st a m I) as (st' & uu & Es & I' & _).
    { split; [exact K|apply (sighash_len laws)]. }
    rewrite Es. rewrite Hh.
    set (t' := set_wit t i [sign (sk_of a) m ++ [flag_byte f]; red]).
    assert (St : strip_witness t' = strip_witness t) by apply strip_set_wit.
    assert (Nt : nth_error (t_ins t') i = Some (mkIn (in_prev inp) (in_seq inp) [sign (sk_of a) m ++ [flag_byte f]; red]))
      by (apply nth_set_wit_eq; exact N).
    assert (En : engine u t' i (ip2_of h) = true).
    { rewrite (engine_law laws). unfold engine_template. rewrite Nt. cbn [in_wit in_seq].
      rewrite split_last_app. unfold red at 1. rewrite (redeem_pk laws), flag_byte_inv.
      fold red. rewrite P. fold red. rewrite bytes_eqb_refl. cbn [andb].
      rewrite (sighash_strip laws f t'), St, <- (sighash_strip laws f t). fold m.
      rewrite (key_match laws a K), (ecdsa_correct laws). cbn [andb]. exact Sq. }
    rewrite En. exists st', t'. split; [reflexivity|]. split; [exact I'|]. split; [exact St|].
    split.
    - exists (mkIn (in_prev inp) (in_seq inp) [sign (sk_of a) m ++ [flag_byte f]; red]), u, h. auto.
    - intros j Hj. apply nth_set_wit_neq. auto.
  Qed.

  Lemma verified_keep t1 t2 j : strip_witness t1 = strip_witness t2 ->
    nth_error (t_ins t1) j = nth_error (t_ins t2) j -> verified t1 j -> verified t2 j.
  Proof.
    intros E N (inp & u & h & N1 & Ev & Hh & En). exists inp, u, h.
    rewrite <- N. repeat split; auto.
    rewrite (engine_law laws) in *. rewrite <- (template_strip u t1 t2 j _ E N). exact En.
  Qed.

  Lemma sign_loop_right f t0 : owned t0 -> single_guard f t0 ->
    forall m k st t, (k + m = length (t_ins t0))%nat -> Inv st -> strip_witness t = strip_witness t0 ->
      (forall j, (j < k)%nat -> verified t j) ->
      exists st' t', sign_loop (seq k m) st right f t = (SOk, st', t') /\ Inv st' /\
        strip_witness t' = strip_witness t0 /\ (forall j, (j < length (t_ins t0))%nat -> verified t' j).
  Proof.
    intros O G. induction m as [|m IH]; intros k st t L I Hs V.
    - exists st, t. split; [reflexivity|]. split; [exact I|]. split; [exact Hs|].
      intros j Hj. apply V. lia.
    - cbn [seq Sign.sign_loop].
      assert (Lt : length (t_ins t) = length (t_ins t0)) by (apply strip_len; exact Hs).
      assert (Hk : (k < length (t_ins t))%nat) by lia.
      destruct (nth_error (t_ins t) k) as [inp|] eqn:N; [|apply nth_error_None in N; lia].
      assert (Ot : owned t) by (apply (owned_strip t0 t); auto).
      destruct (sign_input_right st f t k inp I Ot N) as (st1 & t1 & E & I1 & S1 & V1 & Keep).
      { intros Sg. rewrite (strip_outs t t0 Hs). specialize (G Sg). lia. }
      rewrite E.
      destruct (IH (S k) st1 t1) as (st2 & t2 & E2 & I2 & S2 & V2); auto; try lia; try congruence.
      { intros j Hj. destruct (Nat.eq_dec j k) as [->|Hn]; [exact V1|].
        apply (verified_keep t t1 j); [congruence|symmetry; apply Keep; exact Hn|apply V; lia]. }
      exists st2, t2. auto.
  Qed.

  Theorem sign_ok st fs f t : reachable st -> parse_flag fs = Some f -> owned t -> single_guard f t ->
    exists t', sign_raw st right fs t = (SOk, (init_state cfg), t', Some t') /\
      strip_witness t' = strip_witness t /\
      all_inputs_verify warmup env pfix pending_height engine t'.
  Proof.
    intros R Pf O G. unfold Sign.sign_raw. rewrite Pf.
    pose proof (reachable_Inv kdf digest shash open_box sk bytes branch_ok derive_sk sign zfix sfix nfix cfg right acct ent sk_of ulaws Sfix Nfix st R) as I.
    destruct (sign_loop_right f t O G (length (t_ins t)) 0%nat st t) as (st' & t' & E & I' & S' & V); auto.
    { intros j Hj. lia. }
    rewrite E. exists t'.
    rewrite (clear_is_init kdf shash sk zfix cfg right acct sk_of st' I').
    split; [reflexivity|]. split; [exact S'|].
    intros i inp N.
    assert (Hi : (i < length (t_ins t))%nat).
    { rewrite <- (strip_len t' t S'). apply nth_error_Some. congruence. }
    destruct (V i Hi) as (inp' & u & h & N' & Ev & Hh & En).
    rewrite N in N'. inversion N'; subst inp'. exists u, h. auto.
  Qed.

  (* ---------------------------------------------------------------- wrong passphrase *)
  Local Ltac fin I :=
    split; [reflexivity|]; split; [exact I|]; split; [intros W0 | intros u0 a0 E0 S0 A0 G0].

  Lemma sign_input_none st p f t i : nth_error (t_ins t) i = None -> sign_input st p f t i = (SOk, st, t).
  Proof. intros N. unfold Sign.sign_input. rewrite N. reflexivity. Qed.

  Lemma sign_input_wrong st p f t i inp : Inv st -> p <> right -> nth_error (t_ins t) i = Some inp ->
    exists r st', sign_input st p f t i = (r, st', t) /\ Inv st' /\
      (in_wit inp = [] -> r <> SOk) /\
      (forall u a, env (in_prev inp) = LOut u ->
         u_spent u = false -> u_addr u = Some a ->
         (is_single f = true -> (i < length (t_outs t))%nat) ->
         r = SErr (SKeystore EInvalidPassphrase)).
  Proof.
    intros I Hp N. unfold Sign.sign_input. rewrite N.
    destruct (env (in_prev inp)) as [| |u] eqn:E.
    { eexists; exists st. fin I. - discriminate. - discriminate. }
    { eexists; exists st. fin I. - discriminate. - discriminate. }
    destruct (u_spent u) eqn:Sp.
    { eexists; exists st. fin I. - discriminate. - congruence. }
    destruct (negb (is_single f) || (i <? length (t_outs t))%nat) eqn:C.
    - destruct (u_addr u) as [a|] eqn:A.
      + destruct (env_addr laws _ u a E A) as [K _].
        destruct (sign_wrong kdf digest shash open_box sk bytes branch_ok derive_sk sign zfix sfix nfix cfg right acct ent sk_of ulaws Sfix Nfix
                    st p a (sighash f t i (u_value u) (redeem (pub_at a))) I) as (st' & Es & I' & _); auto.
        { split; [exact K|apply (sighash_len laws)]. }
        rewrite Es. eexists; exists st'. fin I'. * discriminate. * reflexivity.
      + eexists; exists st. fin I. * discriminate. * congruence.
    - assert (Sk : forall (P : Prop), (is_single f = true -> (i < length (t_outs t))%nat) -> P).
      { intros P Sg. exfalso. destruct (is_single f) eqn:S1; [|discriminate].
        specialize (Sg eq_refl). apply Nat.ltb_lt in Sg. rewrite Sg in C. discriminate. }
      destruct (eff_height u) as [h|] eqn:Hh.
      + destruct (engine u t i (ip2_of h)) eqn:En.
        * exists SOk, st. fin I.
          -- rewrite (engine_law laws), (template_empty u t i _ inp N W0) in En. discriminate.
          -- apply Sk. exact G0.
        * eexists; exists st. fin I. -- discriminate. -- apply Sk. exact G0.
      + eexists; exists st. fin I. * discriminate. * apply Sk. exact G0.
  Qed.

  Lemma sign_loop_wrong p f idxs : p <> right -> forall st t, Inv st ->
    exists r st', sign_loop idxs st p f t = (r, st', t) /\ Inv st' /\
      (forall i rest inp, idxs = i :: rest -> nth_error (t_ins t) i = Some inp -> in_wit inp = [] -> r <> SOk) /\
      (forall i rest inp u a, idxs = i :: rest -> nth_error (t_ins t) i = Some inp ->
         env (in_prev inp) = LOut u -> u_spent u = false -> u_addr u = Some a ->
         (is_single f = true -> (i < length (t_outs t))%nat) ->
         r = SErr (SKeystore EInvalidPassphrase)).
  Proof.
    intros Hp. induction idxs as [|i rest IH]; intros st t I.
    - exists SOk, st. split; [reflexivity|]. split; [exact I|]. split; intros; discriminate.
    - cbn [Sign.sign_loop].
      destruct (nth_error (t_ins t) i) as [inp|] eqn:N.
      + destruct (sign_input_wrong st p f t i inp I Hp N) as (r1 & st1 & E & I1 & A1 & B1). rewrite E.
        destruct r1.
        * destruct (IH st1 t I1) as (r2 & st2 & E2 & I2 & _). rewrite E2.
          exists r2, st2. split; [reflexivity|]. split; [exact I2|]. split.
          -- intros i' rest' inp' H N' W. injection H as <- <-. rewrite N in N'. injection N' as <-.
             exfalso. apply (A1 W). reflexivity.
          -- intros i' rest' inp' u a H N' Ev Sp Ad Sg. injection H as <- <-.
             rewrite N in N'. injection N' as <-.
             specialize (B1 u a Ev Sp Ad Sg). discriminate.
        * exists (SErr e), st1. split; [reflexivity|]. split; [exact I1|]. split.
          -- intros; discriminate.
          -- intros i' rest' inp' u a H N' Ev Sp Ad Sg. injection H as <- <-.
             rewrite N in N'. injection N' as <-. eauto.
        * exists SPanic, st1. split; [reflexivity|]. split; [exact I1|]. split.
          -- intros; discriminate.
          -- intros i' rest' inp' u a H N' Ev Sp Ad Sg. injection H as <- <-.
             rewrite N in N'. injection N' as <-. eauto.
      + rewrite (sign_input_none st p f t i N).
        destruct (IH st t I) as (r2 & st2 & E2 & I2 & _). rewrite E2.
        exists r2, st2. split; [reflexivity|]. split; [exact I2|]. split.
        * intros i' rest' inp' H N' W. injection H as <- <-. congruence.
        * intros i' rest' inp' u a H N' _ _ _ _. injection H as <- <-. congruence.
  Qed.

  (* any other passphrase, any reachable state: nothing is written into the transaction, nothing
     is returned, the call does not succeed on an unsigned transaction with at least one input;
     and when the first input is one the right passphrase would sign, the error is the
     passphrase error *)
  Theorem sign_wrong_pass st p fs t : reachable st -> p <> right ->
    exists r st', sign_raw st p fs t = (r, st', t, None) \/
                  (r = SOk /\ sign_raw st p fs t = (SOk, st', t, Some t)).
  Proof.
    intros R Hp.
    pose proof (reachable_Inv kdf digest shash open_box sk bytes branch_ok derive_sk sign zfix sfix nfix cfg right acct ent sk_of ulaws Sfix Nfix st R) as I.
    unfold Sign.sign_raw. destruct (parse_flag fs) as [f|].
    - destruct (sign_loop_wrong p f (seq 0 (length (t_ins t))) Hp st t I) as (r & st' & E & _).
      rewrite E. destruct r; eauto.
    - eauto.
  Qed.

  Theorem sign_wrong_pass_fails st p fs t : reachable st -> p <> right -> unsigned t -> t_ins t <> [] ->
    exists r st', sign_raw st p fs t = (r, st', t, None) /\ r <> SOk.
  Proof.
    intros R Hp Un Ne.
    pose proof (reachable_Inv kdf digest shash open_box sk bytes branch_ok derive_sk sign zfix sfix nfix cfg right acct ent sk_of ulaws Sfix Nfix st R) as I.
    unfold Sign.sign_raw. destruct (parse_flag fs) as [f|].
    - destruct (sign_loop_wrong p f (seq 0 (length (t_ins t))) Hp st t I) as (r & st' & E & _ & A & _).
      rewrite E.
      destruct (t_ins t) as [|inp0 l] eqn:Et; [congruence|].
      assert (Nr : r <> SOk).
      { apply (A 0%nat (seq 1 (length l)) inp0); [reflexivity|reflexivity|].
        unfold unsigned in Un. rewrite Et in Un. inversion Un; auto. }
      destruct r; try congruence; eexists; eexists; split; try reflexivity; congruence.
    - eexists; eexists; split; [reflexivity|discriminate].
  Qed.

  (* an input for which signing is attempted (not skipped by SINGLE) never completes with another
     passphrase — whether or not it already carries a witness *)
  Lemma sign_input_wrong_attempt st p f t i inp : Inv st -> p <> right ->
    nth_error (t_ins t) i = Some inp -> (is_single f = true -> (i < length (t_outs t))%nat) ->
    exists r st', sign_input st p f t i = (r, st', t) /\ r <> SOk.
  Proof.
    intros I Hp N Sg. unfold Sign.sign_input. rewrite N.
    destruct (env (in_prev inp)) as [| |u] eqn:E; [eexists; eexists; split; [reflexivity|discriminate]..|].
    destruct (u_spent u); [eexists; eexists; split; [reflexivity|discriminate]|].
    assert (C : negb (is_single f) || (i <? length (t_outs t))%nat = true).
    { destruct (is_single f) eqn:S1; [|reflexivity]. cbn [negb orb]. apply Nat.ltb_lt. auto. }
    rewrite C.
    destruct (u_addr u) as [a|] eqn:A; [|eexists; eexists; split; [reflexivity|discriminate]].
    destruct (sign_wrong_any kdf digest shash open_box sk bytes branch_ok derive_sk sign zfix sfix nfix cfg right acct ent sk_of ulaws Sfix Nfix
                st p a (sighash f t i (u_value u) (redeem (pub_at a))) I Hp) as (e & st' & Es & _).
    rewrite Es. eexists; eexists; split; [reflexivity|discriminate].
  Qed.

  (* SignRawTx with any other passphrase never succeeds and never touches the transaction, for ANY
     transaction with at least one input — unsigned, partially signed or completely signed (e.g.
     the bytes an earlier successful call returned) — unless the flag is SINGLE and there is no
     output at all (then no input is signed and the existing witnesses are merely re-checked) *)
  Theorem sign_wrong_pass_any st p fs t : reachable st -> p <> right -> t_ins t <> [] ->
    (forall f, parse_flag fs = Some f -> is_single f = true -> t_outs t <> []) ->
    exists r st', sign_raw st p fs t = (r, st', t, None) /\ r <> SOk.
  Proof.
    intros R Hp Ne Sg.
    pose proof (reachable_Inv kdf digest shash open_box sk bytes branch_ok derive_sk sign zfix sfix nfix cfg right acct ent sk_of ulaws Sfix Nfix st R) as I.
    unfold Sign.sign_raw. destruct (parse_flag fs) as [f|] eqn:Pf.
    - destruct (t_ins t) as [|inp0 l] eqn:Et; [congruence|].
      cbn [length seq Sign.sign_loop].
      destruct (sign_input_wrong_attempt st p f t 0 inp0 I Hp) as (r1 & st1 & E1 & N1).
      { rewrite Et. reflexivity. }
      { intros S1. specialize (Sg f eq_refl S1). destruct (t_outs t); [congruence|cbn; lia]. }
      rewrite E1. destruct r1; try congruence; eexists; eexists; split; try reflexivity; congruence.
    - eexists; eexists; split; [reflexivity|discriminate].
  Qed.

  Theorem sign_wrong_pass_error st p fs f t inp u a : reachable st -> p <> right ->
    parse_flag fs = Some f -> nth_error (t_ins t) 0 = Some inp ->
    env (in_prev inp) = LOut u -> u_spent u = false -> u_addr u = Some a ->
    (is_single f = true -> (0 < length (t_outs t))%nat) ->
    exists st', sign_raw st p fs t = (SErr (SKeystore EInvalidPassphrase), st', t, None).
  Proof.
    intros R Hp Pf N Ev Sp Ad Sg.
    pose proof (reachable_Inv kdf digest shash open_box sk bytes branch_ok derive_sk sign zfix sfix nfix cfg right acct ent sk_of ulaws Sfix Nfix st R) as I.
    unfold Sign.sign_raw. rewrite Pf.
    destruct (sign_loop_wrong p f (seq 0 (length (t_ins t))) Hp st t I) as (r & st' & E & _ & _ & B).
    rewrite E.
    destruct (t_ins t) as [|inp0 l] eqn:Et; [discriminate|]. cbn in N. inversion N; subst inp0.
    rewrite (B 0%nat (seq 1 (length l)) inp u a); auto. eexists. reflexivity.
  Qed.
  (* ---------------------------------------------------------------- pending inputs *)
  (* the repaired code gives every previous output a height: confirmed ones their block's,
     pending ones the height above the synced tip — so [owned] covers pending inputs *)
  Lemma eff_height_fixed u : pfix = true ->
    eff_height u = Some (match u_height u with Some h => h | None => pending_height end).
  Proof. intros P. unfold Sign.eff_height. rewrite P. destruct (u_height u); reflexivity. Qed.

  (* the code as first found: a transaction whose first input spends a PENDING output of the
     wallet makes SignRawTx panic (after the signature has been produced), right passphrase or not
     being irrelevant to the panic itself *)
  Theorem sign_pending_panics st fs f t inp u a : pfix = false -> reachable st ->
    parse_flag fs = Some f -> nth_error (t_ins t) 0 = Some inp ->
    env (in_prev inp) = LOut u -> u_spent u = false -> u_addr u = Some a -> u_height u = None ->
    (is_single f = true -> (0 < length (t_outs t))%nat) ->
    exists t', sign_raw st right fs t = (SPanic, (init_state cfg), t', None).
  Proof.
    intros P R Pf N Ev Sp Ad Hh Sg.
    pose proof (reachable_Inv kdf digest shash open_box sk bytes branch_ok derive_sk sign zfix sfix nfix cfg right acct ent sk_of ulaws Sfix Nfix st R) as I.
    unfold Sign.sign_raw. rewrite Pf.
    destruct (t_ins t) as [|inp0 l] eqn:Et; [discriminate|]. cbn in N. injection N as ->.
    cbn [length seq Sign.sign_loop]. unfold Sign.sign_input. rewrite Et. cbn [nth_error].
    rewrite Ev, Sp, Ad.
    assert (C : negb (is_single f) || (0 <? length (t_outs t))%nat = true).
    { destruct (is_single f) eqn:S1; [|reflexivity]. cbn [negb orb]. apply Nat.ltb_lt. auto. }
    rewrite C.
    destruct (env_addr laws _ u a Ev Ad) as [K _].
    destruct (sign_right kdf digest shash open_box sk bytes branch_ok derive_sk sign zfix sfix nfix cfg right acct ent sk_of ulaws Sfix
                st a (sighash f t 0 (u_value u) (redeem (pub_at a))) I) as (st' & uu & Es & I' & _).
    { split; [exact K|apply (sighash_len laws)]. }
    rewrite Es. unfold Sign.eff_height. rewrite Hh, P.
    rewrite (clear_is_init kdf shash sk zfix cfg right acct sk_of st' I'). eexists. reflexivity.
  Qed.
End Proofs.
