(* Keys/Gap.v — executable model of address issuing, address records and restore-time discovery:
     masswallet/keystore/addrmgr.go   nextAddresses (gap rule, `index` map: keyed by (branch, child number) since
                                      the repair 314e4a7, by the child number alone before — switch fx),
                                      updateManagedAddress
     masswallet/keystore/manager.go   createManagerKeyScope (the discovery scan of an import, safeUint32Add,
                                      hdPath hints), ImportKeystoreWithMnemonic / ImportKeystore (hint 0 -> 1),
                                      loadAddrManager (index rebuilt from the persisted public keys)
     masswallet/keystore/db.go        exChildNum / inChildNum counters, the `pub` bucket
     masswallet/wallet.go             NewAddress (PutNewAddress), GetAddresses (standard/staking merge)
     masswallet/txmgr/utxostore.go    AddCredits (address record := first paying height), PutNewAddress
     masswallet/txmgr/txstore.go      Rollback (address record of a first payment DELETED with its block)
     api/wallet_service.go            CreateAddress (MaxUnusedStakingAddress rule)
   Definitions only.  An address is named by (branch, index) — internal = true — or by the number
   of its script hash (environment-assigned, [shf branch index]); `used` oracles stand for
   ChainFetcher.CheckScriptHashUsed; chains are the frozen Ledger model's blocks. *)
From Coq Require Import List ZArith NArith Bool.
Import ListNotations.
Require Import MW.Ledger.Model MW.Ledger.Spec.
Open Scope N_scope.

(* ---------------------------------------------------------------- uint32 arithmetic *)

Definition two32 : N := 4294967296.
Definition u32 (x : N) : N := x mod two32.
Definition max_u32 : N := two32 - 1.
(* safeUint32Add of createManagerKeyScope: saturating *)
Definition safe_add (a b : N) : N := if two32 <=? a + b then max_u32 else a + b.
(* MaxAddressesPerAccount = hdkeychain.HardenedKeyStart - 1 *)
Definition max_addresses : N := 2147483647.
Definition hardened_start : N := 2147483648.

(* ---------------------------------------------------------------- keystore *)

Definition key : Type := (bool * N)%type.          (* (internal branch?, child index) *)

Record kstate := {
  ks_next_e : N;                  (* exChildNum: next external child index *)
  ks_next_i : N;                  (* inChildNum *)
  ks_pubs : list key;             (* the `pub` bucket = AddrManager.addrs: every materialised address *)
  ks_index : list (N * bool)      (* AddrManager.index: child number -> branch of the address it holds;
                                     first match wins (a later write shadows an earlier one) *)
}.

Definition ks_empty : kstate := {| ks_next_e := 0; ks_next_i := 0; ks_pubs := []; ks_index := [] |}.

Definition idx_lookup (l : list (N * bool)) (i : N) : option bool :=
  match find (fun e => fst e =? i) l with Some e => Some (snd e) | None => None end.

(* fx = true: the repaired code (/repo commit 314e4a7: the index map is keyed by (branch, child
   index) and the external window asks for the external entry); fx = false: the code as found
   (keyed by the child index alone, whichever branch was written last) *)
Definition idx_lookup_br (fx : bool) (l : list (N * bool)) (br : bool) (i : N) : option bool :=
  if fx then (if existsb (fun e => (fst e =? i) && Bool.eqb (snd e) br) l then Some br else None)
  else idx_lookup l i.

(* what the external gap window learns about child number i: the used flag of the address the
   index map holds for it; a hole is skipped *)
Definition idx_used (fx : bool) (l : list (N * bool)) (used : bool -> N -> bool) (i : N) : bool :=
  match idx_lookup_br fx l false i with Some br => used br i | None => false end.

Fixpoint window_used (fx : bool) (l : list (N * bool)) (used : bool -> N -> bool) (start : N) (len : nat) : bool :=
  match len with
  | O => false
  | S n => idx_used fx l used start || window_used fx l used (start + 1) n
  end.

Inductive kerr := EGapLimit | EExceed | EUnusedLimit | EOther.
Inductive kres (A : Type) := KOk (a : A) | KErr (e : kerr).
Arguments KOk {A} a. Arguments KErr {A} e.

(* AddrManager.nextAddresses(internal=false, numAddresses=1) + updateManagedAddress.
   (hdkeychain.Child is assumed never to answer ErrInvalidChild: probability 2^-127 per index.) *)
Definition next_addresses (fx : bool) (gap : N) (used : bool -> N -> bool) (st : kstate) : kres (N * kstate) :=
  let n := ks_next_e st in
  if max_addresses <? u32 (1 + n) then KErr EExceed
  else if gap <? 1 then KErr EGapLimit
  else if negb (n =? 0) && (gap <? u32 (n + 1)) &&
          (let start := u32 (n + 1 - gap - 1) in
           negb (window_used fx (ks_index st) used start (N.to_nat (n - start))))
       then KErr EGapLimit
  else if hardened_start <=? n then KErr EOther   (* a hardened child of a public (locked) account key *)
  else KOk (n, {| ks_next_e := n + 1; ks_next_i := ks_next_i st;
                  ks_pubs := ks_pubs st ++ [(false, n)];
                  ks_index := (n, false) :: ks_index st |}).

(* loadAddrManager: the pub bucket is read in key order, little-endian branch first: every
   external entry is written into the index map before every internal one, which shadows it *)
Definition load_index (pubs : list key) : list (N * bool) :=
  map (fun k => (snd k, true)) (filter (fun k => fst k) pubs) ++
  map (fun k => (snd k, false)) (filter (fun k => negb (fst k)) pubs).

Definition ks_reload (st : kstate) : kstate :=
  {| ks_next_e := ks_next_e st; ks_next_i := ks_next_i st; ks_pubs := ks_pubs st;
     ks_index := load_index (ks_pubs st) |}.

(* ---------------------------------------------------------------- discovery scan of an import *)

(* for i := 0; i < safeAdd(nextIndex, gap) || i < safeAdd(hint, gap); i++ { if used(i) { nextIndex = i+1 } }
   returns (nextIndex, number of indexes examined); None = out of fuel *)
Fixpoint scan (fuel : nat) (gap hint : N) (used : N -> bool) (i last : N) : option (N * N) :=
  match fuel with
  | O => None
  | S f =>
      if (i <? safe_add last gap) || (i <? safe_add hint gap)
      then scan f gap hint used (i + 1) (if used i then i + 1 else last)
      else Some (last, i)
  end.

(* one branch of createManagerKeyScope: no scan at all for hint 0; the counter ends at
   max(last used + 1, hint) and indexes below it are persisted *)
Definition restore_branch (fuel : nat) (gap hint : N) (used : N -> bool) : option N :=
  if hint =? 0 then Some 0
  else match scan fuel gap hint used 0 0 with
       | Some (last, _) => Some (N.max last hint)
       | None => None
       end.

Definition seqN (n : N) : list N := map N.of_nat (seq 0 (N.to_nat n)).

(* ImportKeystoreWithMnemonic / ImportKeystore: an external hint 0 is replaced by 1.
   With the code as found (fx = false) the index map right after the import is built inside the
   importing transaction, where colliding child numbers are resolved in Go map order; the model
   takes the order of a later reload (the harness restarts before it asks).  With the repaired
   code no two entries collide and the order is irrelevant. *)
Definition ks_restore (fuel : nat) (gap hint_e hint_i : N) (used : bool -> N -> bool) : option kstate :=
  let he := if hint_e =? 0 then 1 else hint_e in
  match restore_branch fuel gap hint_i (used true), restore_branch fuel gap he (used false) with
  | Some ni, Some ne =>
      let pubs := map (fun i => (false, i)) (seqN ne) ++ map (fun i => (true, i)) (seqN ni) in
      Some {| ks_next_e := ne; ks_next_i := ni; ks_pubs := pubs; ks_index := load_index pubs |}
  | _, _ => None
  end.

(* ---------------------------------------------------------------- address records (bucket `a`) *)

(* (staking form?, script hash) -> first paying height, 0 = unused; one entry per key *)
Definition arecs : Type := list (bool * N * Z).

Definition rkey_eqb (stk : bool) (sh : N) (r : bool * N * Z) : bool :=
  Bool.eqb (fst (fst r)) stk && (snd (fst r) =? sh).

Definition rec_get (rs : arecs) (stk : bool) (sh : N) : option Z :=
  match find (rkey_eqb stk sh) rs with Some r => Some (snd r) | None => None end.
Definition rec_del (rs : arecs) (stk : bool) (sh : N) : arecs :=
  filter (fun r => negb (rkey_eqb stk sh r)) rs.
Definition rec_put (rs : arecs) (stk : bool) (sh : N) (h : Z) : arecs :=
  (stk, sh, h) :: rec_del rs stk sh.

Definition rec_used (rs : arecs) (stk : bool) (sh : N) : bool :=
  match rec_get rs stk sh with Some h => (0 <? h)%Z | None => false end.

(* the address record class of an output: ParsePkScript's AddressClass (binding: the holder's
   standard address) *)
Definition out_form (c : oclass) : option bool :=
  match c with
  | CStd | CBindingOld | CBindingNew => Some false
  | CStaking _ => Some true
  | CUnsupported => None
  end.

(* AddCredits: the record is written when absent or unused *)
Definition credit_addr (rs : arecs) (stk : bool) (sh : N) (h : Z) : arecs :=
  match rec_get rs stk sh with
  | Some h0 => if (h0 =? 0)%Z then rec_put rs stk sh h else rs
  | None => rec_put rs stk sh h
  end.

Definition block_outs (b : block) : list txout := flat_map t_outs (b_txs b).

Definition connect_out (mine : N -> bool) (h : Z) (rs : arecs) (o : txout) : arecs :=
  if mine (o_sh o) then
    match out_form (o_class o) with
    | Some stk => credit_addr rs stk (o_sh o) h
    | None => rs
    end
  else rs.

Definition connect_recs (mine : N -> bool) (rs : arecs) (b : block) : arecs :=
  fold_left (connect_out mine (b_height b)) (block_outs b) rs.

(* Rollback, for one disconnected block: the record of an address the block pays is deleted when
   it carries this block's height *)
Definition rollback_out (mine : N -> bool) (h : Z) (rs : arecs) (o : txout) : arecs :=
  if mine (o_sh o) then
    match out_form (o_class o) with
    | Some stk =>
        match rec_get rs stk (o_sh o) with
        | Some h0 => if (0 <? h)%Z && (h0 =? h)%Z then rec_del rs stk (o_sh o) else rs
        | None => rs
        end
    | None => rs
    end
  else rs.

Definition rollback_block (mine : N -> bool) (rs : arecs) (b : block) : arecs :=
  fold_left (rollback_out mine (b_height b)) (block_outs b) rs.

(* blocks are given highest first, as Rollback walks them *)
Definition rollback_recs (mine : N -> bool) (rs : arecs) (bs : list block) : arecs :=
  fold_left (rollback_block mine) bs rs.

(* ---------------------------------------------------------------- GetAddresses *)

Record aentry := { ae_stk : bool; ae_sh : N; ae_used : bool }.

(* the standard-class entry for script hash sh after the standard/staking merge of
   WalletManager.GetAddresses *)
Definition std_entry (rs : arecs) (sh : N) : option bool :=
  match rec_get rs false sh, rec_get rs true sh with
  | Some hs, Some ht => if (0 <? ht)%Z then Some true else if (0 <? hs)%Z then Some true else None
  | Some hs, None => Some (0 <? hs)%Z
  | None, Some ht => if (0 <? ht)%Z then Some true else None
  | None, None => None
  end.

Fixpoint dedupN (l : list N) : list N :=
  match l with
  | [] => []
  | x :: r => if existsb (N.eqb x) r then dedupN r else x :: dedupN r
  end.

Definition rec_shs (rs : arecs) : list N := dedupN (map (fun r : bool * N * Z => snd (fst r)) rs).

Definition listing_std (rs : arecs) : list aentry :=
  flat_map (fun sh => match std_entry rs sh with
                      | Some u => [{| ae_stk := false; ae_sh := sh; ae_used := u |}]
                      | None => []
                      end) (rec_shs rs).

Definition listing_stk (rs : arecs) : list aentry :=
  flat_map (fun sh => match rec_get rs true sh with
                      | Some h => [{| ae_stk := true; ae_sh := sh; ae_used := (0 <? h)%Z |}]
                      | None => []
                      end) (rec_shs rs).

(* filter: 0 = standard, 1 = staking, anything else = both (math.MaxUint16) *)
Definition listing (filter : N) (rs : arecs) : list aentry :=
  if filter =? 0 then listing_std rs
  else if filter =? 1 then listing_stk rs
  else listing_std rs ++ listing_stk rs.

Definition listed (rs : arecs) (stk : bool) (sh : N) : bool :=
  existsb (fun e => Bool.eqb (ae_stk e) stk && (ae_sh e =? sh)) (listing 2 rs).

(* ---------------------------------------------------------------- the wallet *)

Record wal := { w_ks : kstate; w_recs : arecs }.

Definition wal_empty : wal := {| w_ks := ks_empty; w_recs := [] |}.

Definition mine_of (shf : bool -> N -> N) (ks : kstate) (sh : N) : bool :=
  existsb (fun k => shf (fst k) (snd k) =? sh) (ks_pubs ks).

(* what the best chain says about a script hash *)
Definition chain_outs (c : list block) : list txout := flat_map block_outs c.
Definition pays_form (c : list block) (stk : bool) (sh : N) : bool :=
  existsb (fun o => (o_sh o =? sh) &&
                    match out_form (o_class o) with Some f => Bool.eqb f stk | None => false end) (chain_outs c).
(* CheckScriptHashUsed: some indexed output of the best chain carries the script hash *)
Definition pays_any (c : list block) (sh : N) : bool := pays_form c false sh || pays_form c true sh.

Definition oracle_of (shf : bool -> N -> N) (c : list block) : bool -> N -> bool :=
  fun br i => pays_any c (shf br i).

(* WalletManager.NewAddress *)
Definition new_address (shf : bool -> N -> N) (fx : bool) (gap : N) (used : bool -> N -> bool) (cls : bool) (w : wal)
  : kres ((bool * N) * wal) :=
  match next_addresses fx gap used (w_ks w) with
  | KErr e => KErr e
  | KOk (i, ks') => KOk ((cls, i), {| w_ks := ks'; w_recs := rec_put (w_recs w) cls (shf false i) 0 |})
  end.

(* APIServer.CreateAddress: counts the unused entries of the class' listing first.
   gap - maxun is a uint32 subtraction converted to int *)
Definition unused_count (l : list aentry) : N := N.of_nat (length (filter (fun e => negb (ae_used e)) l)).

Definition api_create_address (shf : bool -> N -> N) (fx : bool) (gap maxun : N) (used : bool -> N -> bool) (cls : bool) (w : wal)
  : kres ((bool * N) * wal) :=
  let count := unused_count (listing (if cls then 1 else 0) (w_recs w)) in
  if cls && (maxun <=? count) then KErr EUnusedLimit
  else if negb cls && (u32 (gap + two32 - maxun) <=? count) then KErr EUnusedLimit
  else new_address shf fx gap used cls w.

Definition wal_reload (w : wal) : wal := {| w_ks := ks_reload (w_ks w); w_recs := w_recs w |}.

(* ImportWalletWithMnemonic / ImportWallet: every materialised address gets a standard-class
   record, then the import task replays the best chain *)
Definition wal_restore (shf : bool -> N -> N) (fuel : nat) (gap hint_e hint_i : N) (c : list block) : option wal :=
  match ks_restore fuel gap hint_e hint_i (oracle_of shf c) with
  | None => None
  | Some ks =>
      let rs0 := fold_left (fun rs k => rec_put rs false (shf (fst k) (snd k)) 0) (ks_pubs ks) [] in
      Some {| w_ks := ks; w_recs := fold_left (connect_recs (mine_of shf ks)) c rs0 |}
  end.

(* the wallet's processed chain moves from [old] to [new] (both genesis first): blocks above the
   common prefix are rolled back highest first, then the rest of [new] is connected *)
Fixpoint common_prefix (a b : list block) : nat :=
  match a, b with
  | x :: a', y :: b' => if (b_id x =? b_id y) then S (common_prefix a' b') else O
  | _, _ => O
  end.

Definition wal_sync (shf : bool -> N -> N) (old new : list block) (w : wal) : wal :=
  let k := common_prefix old new in
  let mine := mine_of shf (w_ks w) in
  let rs1 := rollback_recs mine (w_recs w) (rev (skipn k old)) in
  {| w_ks := w_ks w; w_recs := fold_left (connect_recs mine) (skipn k new) rs1 |}.

(* ---------------------------------------------------------------- histories *)

Inductive ev :=
| ENew (cls : bool) (api : bool) (node : list block)   (* a new-address request; node = the node's best chain now *)
| ESync (new : list block)                             (* the wallet's processed chain becomes new *)
| EReload.                                             (* restart: the keystore is re-read from the database *)

Record rstate := {
  r_wal : wal;
  r_chain : list block;                      (* the wallet's processed chain, genesis first *)
  r_issued : list (bool * N)                 (* successful requests, newest first *)
}.

Definition rstep (shf : bool -> N -> N) (fx : bool) (gap maxun : N) (s : rstate) (e : ev) : rstate :=
  match e with
  | ENew cls api node =>
      match (if api then api_create_address shf fx gap maxun (oracle_of shf node) cls (r_wal s)
             else new_address shf fx gap (oracle_of shf node) cls (r_wal s)) with
      | KOk (a, w') => {| r_wal := w'; r_chain := r_chain s; r_issued := a :: r_issued s |}
      | KErr _ => s
      end
  | ESync new => {| r_wal := wal_sync shf (r_chain s) new (r_wal s); r_chain := new; r_issued := r_issued s |}
  | EReload => {| r_wal := wal_reload (r_wal s); r_chain := r_chain s; r_issued := r_issued s |}
  end.

Definition rinit (genesis : block) : rstate := {| r_wal := wal_empty; r_chain := [genesis]; r_issued := [] |}.

Definition rrun (shf : bool -> N -> N) (fx : bool) (gap maxun : N) (genesis : block) (h : list ev) : rstate :=
  fold_left (rstep shf fx gap maxun) h (rinit genesis).

(* ---------------------------------------------------------------- issuing seen through oracles only *)

(* the external counter after a sequence of requests, each answered with the oracle of its time
   (no internal addresses: index map = identity on [0, n)) *)
Definition ext_window_used (used : N -> bool) (start : N) (len : nat) : bool :=
  existsb used (map (fun k => start + N.of_nat k) (seq 0 len)).

(* the property's rule: refuse when the wallet holds at least gap addresses and none of the last
   gap of them has chain history *)
Definition spec_refuse (gap : N) (used : N -> bool) (n : N) : bool :=
  (gap <=? n) && negb (ext_window_used used (n - gap) (N.to_nat gap)).

Definition issue_ok (gap : N) (used : N -> bool) (n : N) : bool :=
  (1 <=? gap) && negb (spec_refuse gap used n).

(* every index of [0, n) could be issued under the rule, judged with one oracle *)
Definition gap_inv_b (gap : N) (used : N -> bool) (n : N) : bool :=
  forallb (fun m => negb (spec_refuse gap used m)) (seqN n).

Fixpoint issue_run (gap : N) (us : list (N -> bool)) (n : N) : N :=
  match us with
  | [] => n
  | u :: rest => issue_run gap rest (if issue_ok gap u n then n + 1 else n)
  end.
